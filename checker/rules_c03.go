package main

import (
	"fmt"
	"go/token"
	"go/types"
	"strings"

	"golang.org/x/tools/go/ssa"
)

func init() {
	rule("C03.1", "E3", "OnCReact hands no fragment to a backend connection on a path that can still answer the client locally (the caller recycles a locally answered Msg)", 10, ruleC03_1)
	rule("C03.2", "E3", "conn.sread tests Frag.Done before anything that touches the fragment's request (redirect, counting, merge)", 5, ruleC03_2)
	rule("C03.3", "E2+E3", "nothing is written to a closed client; conn.opened has two writers; conn objects are never pooled", 5, ruleC03_3)
	rule("C03.4", "E2+E3", "positional correlation is one-in/one-out: a fragment is dequeued only for a complete reply frame, and moved to the in-flight queue exactly when its bytes are sent", 5, ruleC03_4)
	rule("C03.5", "E2", "back-pointers: Frag.Owner is the handler's own client, Frag.Peer the request being built, per-connection queues are never shared", 8, ruleC03_5)
}

func guardHas(gs []Guard, pred func(Guard) bool) bool {
	for _, g := range gs {
		if pred(g) {
			return true
		}
	}
	return false
}

// ---------------------------------------------------------------------------------------------

func ruleC03_1(c *Ctx) {
	p := c.P
	on := c.needMethod(pkgServer, "listenServer", "OnCReact")
	enq := c.needMethod(pkgCore, "conn", "EnqueueOutFrag")
	cread := c.needMethod(pkgCore, "eventloop", "cread")
	put := c.needMethod(pkgCore, "msgPool", "Put")
	if on == nil || enq == nil || cread == nil || put == nil {
		return
	}
	c.examined(len(on.Blocks))
	calls := p.callsIn(on, enq)
	if len(calls) == 0 {
		c.undecided("OnCReact: EnqueueOutFrag", p.pos(on.Pos()), "no EnqueueOutFrag call found in OnCReact (moved into a helper?)")
		return
	}
	nret := 0
	allInstrs(on, func(in ssa.Instruction) {
		r, ok := in.(*ssa.Return)
		if !ok || len(r.Results) < 1 {
			return
		}
		nret++
		if isNilConst(results(r)[0]) {
			return
		}
		name := fmt.Sprintf("OnCReact: EnqueueOutFrag ⇝ return #%d (%s)", nret, returnLabel(r))
		var from ssa.CallInstruction
		for _, call := range calls {
			if canReach(call.(ssa.Instruction), r) {
				from = call
			}
		}
		if from != nil {
			c.bad(name, c.at(r), "this local reply can be returned after a fragment of the same request was already queued to redis (through the loop back edge): eventloop.cread recycles the Msg while the fragment still points at it, and the next request decoded into that object is completed by this fragment's reply",
				withPath([]string{"EnqueueOutFrag at " + c.at(from), "return at " + c.at(r)}))
		} else {
			c.ok(name, c.at(r), "not reachable from any EnqueueOutFrag")
		}
	})
	// caller-side fact: out != nil ⇒ MsgPool.Put(r) in cread (that is what makes the rule necessary)
	puts := p.callsIn(cread, put)
	c.check(len(puts) == 1, "cread recycles locally answered requests", p.pos(cread.Pos()), "MsgPool.Put on the out != nil edge",
		fmt.Sprintf("expected one MsgPool.Put in eventloop.cread, found %d", len(puts)))
	// helper functions called by OnCReact before the enqueue must not enqueue either
	for _, callee := range p.reachableFuncs(on) {
		if callee == on || callee == enq || homeFn(callee) == on {
			continue
		}
		if len(p.callsIn(callee, enq)) > 0 && callee.Pkg != nil && callee.Pkg.Pkg.Path() == pkgServer {
			// only OnMoved and ticker-side helpers may enqueue; they are not reachable from OnCReact
			c.bad("OnCReact callee "+shortFn(callee)+" enqueues", p.pos(callee.Pos()), "a helper reachable from OnCReact queues fragments to redis; the recycle rule cannot be decided for it")
		}
	}
}

// ---------------------------------------------------------------------------------------------

func ruleC03_2(c *Ctx) {
	p := c.P
	sread := c.needMethod(pkgCore, "conn", "sread")
	sdec := c.needMethod(pkgCore, "SRespCodec", "Decode")
	if sread == nil || sdec == nil {
		return
	}
	done := p.Field(pkgCore, "Frag", "Done")
	peer := p.Field(pkgCore, "Frag", "Peer")
	c.examined(len(sread.Blocks))
	// f = result #0 of sCodec.Decode
	var f ssa.Value
	allInstrs(sread, func(in ssa.Instruction) {
		if ex, ok := in.(*ssa.Extract); ok && ex.Index == 0 {
			if _, ok := p.isCallTo(ex.Tuple, sdec); ok {
				f = ex
			}
		}
	})
	if f == nil {
		c.undecided("conn.sread: decoded fragment", p.pos(sread.Pos()), "the result of sCodec.Decode was not found")
		return
	}
	notDone := func(g Guard) bool {
		base, ok := fieldLoad(g.Cond, done)
		return ok && strip(base) == f && !g.Truth
	}
	n := 0
	report := func(what string, in ssa.Instruction) {
		n++
		gs := guardsOf(in)
		c.check(guardHas(gs, notDone), "conn.sread: "+what+" after the Done test", c.at(in), "dominated by !f.Done",
			what+" happens for a fragment that may already be Done (its request was completed by a sibling's error or by a timeout and may have been recycled): a late reply is counted/merged into, or redirects, a request that no longer owns it", withGuards(gs))
	}
	movedOrAsk := p.Global(pkgCodec, "MovedOrAsk")
	// (sread's own instructions and, under their call sites, those of its helpers: `return f, c.settle(f)`)
	p.virtualInstrs(sread, func(in ssa.Instruction) {
		{
			switch x := in.(type) {
			case *ssa.Return:
				if len(x.Results) == 2 && in.Parent() == sread {
					if ld, ok := results(x)[1].(*ssa.UnOp); ok && ld.X == ssa.Value(movedOrAsk) {
						report("the redirect return (→ OnMoved writes f.Peer.Fd2Slot and re-sends)", in)
					}
				}
			case *ssa.Store:
				// stores through f.Peer
				if fa, ok := x.Addr.(*ssa.FieldAddr); ok {
					if base, ok := fieldLoad(fa.X, peer); ok && strip(base) == f {
						report("store to f.Peer."+fieldName(fa.X.Type(), fa.Field), in)
					}
				}
			case *ssa.Call:
				// any call that hands the fragment or its request to code with effects (the merge functions, a helper
				// wrapping them, the error completion): accessors and logging only read
				callee := x.Call.StaticCallee()
				if callee == nil || !p.ownFunc(callee) || callee.Blocks == nil || skipPkg(callee) || callee == sdec || p.isPure(callee, 0) {
					return
				}
				for _, a := range x.Call.Args {
					isReq := false
					if base, ok := fieldLoad(a, peer); ok && strip(base) == f {
						isReq = true
					}
					if strip(a) == f || isReq {
						report("call of "+callee.Name()+" with the fragment", in)
						break
					}
				}
			}
		}
	})
	if n < 5 {
		c.undecided("conn.sread: uses of the fragment's request", p.pos(sread.Pos()), fmt.Sprintf("only %d uses of f.Peer found (expected the redirect return, the counter increment, four merge calls and the error completion)", n))
	}
}

// ---------------------------------------------------------------------------------------------

func ruleC03_3(c *Ctx) {
	p := c.P
	opened := p.Field(pkgCore, "conn", "opened")
	sread := c.needMethod(pkgCore, "eventloop", "sread")
	writev := c.needMethod(pkgCore, "conn", "writev")
	if opened == nil || sread == nil || writev == nil {
		return
	}
	// flush writes are on the opened edge of the owner
	for i, w := range p.callsIn(sread, writev) {
		gs := guardsOf(w)
		recv := strip(w.Common().Args[0])
		ok := guardHas(gs, func(g Guard) bool {
			base, isOpened := fieldLoad(g.Cond, opened)
			return isOpened && g.Truth && expr(strip(base)) == expr(recv)
		})
		c.check(ok, fmt.Sprintf("eventloop.sread: flush write #%d only to an open client", i+1), c.at(w), "dominated by c.opened",
			"the flush writes to a client connection without having tested that it is still open: after the client disconnected its fd may be closed or reused by another client, which then receives this reply", withGuards(gs))
	}
	// msgTimeout: the reply to the owner is on the IsOpened edge
	if mt := c.needMethod(pkgCore, "eventloop", "msgTimeout"); mt != nil {
		isOpened := p.Method(pkgCore, "conn", "IsOpened")
		aw := p.Method(pkgCore, "conn", "AsyncWrite")
		for _, w := range p.callsToAny(mt, aw, p.Method(pkgCore, "conn", "write"), writev) {
			gs := guardsOf(w)
			ok := guardHas(gs, func(g Guard) bool {
				_, is := p.isCallTo(g.Cond, isOpened)
				return is && g.Truth
			})
			c.check(ok, "eventloop.msgTimeout: reply only to an open client", c.at(w), "dominated by c.IsOpened()",
				"the timeout error is sent without testing that the client is still open", withGuards(gs))
		}
	}
	// writers of conn.opened
	for _, w := range p.fieldWrites(opened) {
		encl := homeFn(w.Fn)
		c.touch(encl)
		val, isConst := w.Val.(*ssa.Const)
		name := "conn.opened write in " + shortFn(encl)
		switch {
		case isConst && val.Value != nil && val.Value.String() == "true":
			c.check(shortFn(encl) == "(*eventloop).open", name, c.at(w.Instr), "set when the connection is registered", "conn.opened is set to true outside eventloop.open: a connection that was torn down could be marked open again and receive replies")
		case isConst && val.Value != nil && val.Value.String() == "false":
			c.check(shortFn(encl) == "(*conn).releaseTCP", name, c.at(w.Instr), "cleared on release", "conn.opened is cleared outside releaseTCP")
		default:
			c.bad(name, c.at(w.Instr), "conn.opened is assigned a non-constant value")
		}
	}
	// conn objects are allocated in newTCPConn only and never come from a pool
	connT := p.Named(pkgCore, "conn")
	nAlloc := 0
	for _, fn := range p.Funcs {
		allInstrs(fn, func(in ssa.Instruction) {
			switch x := in.(type) {
			case *ssa.Alloc:
				if pt, ok := x.Type().(*types.Pointer); ok && types.Identical(pt.Elem(), connT) {
					nAlloc++
					c.check(shortFn(homeFn(fn)) == "newTCPConn", "conn allocation in "+shortFn(homeFn(fn)), c.at(in), "fresh object per connection",
						"a conn object is created outside newTCPConn")
				}
			case *ssa.TypeAssert:
				// pool.Get().(*conn) would be a recycled connection object
				if pt, ok := x.AssertedType.(*types.Pointer); ok && types.Identical(pt.Elem(), connT) {
					if call, ok := x.X.(*ssa.Call); ok && strings.Contains(staticCalleeName(&call.Call), "sync.Pool") {
						c.bad("pooled conn in "+shortFn(homeFn(fn)), c.at(in), "a *conn is taken from a sync.Pool: fragments in flight keep pointing at the object (Frag.Owner) and would deliver to its next user")
					}
				}
			}
		})
	}
	c.examined(len(p.Funcs))
	if nAlloc == 0 {
		c.undecided("conn allocation", "-", "no allocation of conn found")
	}
}

// ---------------------------------------------------------------------------------------------

func ruleC03_4(c *Ctx) {
	p := c.P
	deq := c.needMethod(pkgCore, "conn", "DequeueInFrag")
	sdec := c.needMethod(pkgCore, "SRespCodec", "Decode")
	readReply := c.needMethod(pkgCore, "SRespCodec", "readReply")
	enqIn := c.needMethod(pkgCore, "conn", "enqueueInFrag")
	deqOut := c.needMethod(pkgCore, "conn", "dequeueOutFrag")
	hws := c.needMethod(pkgCore, "conn", "handleWriteSignal")
	if deq == nil || sdec == nil || readReply == nil || enqIn == nil || deqOut == nil || hws == nil {
		return
	}
	closeConn := p.Method(pkgCore, "eventloop", "closeConn")
	sites := p.SitesOf(deq)
	c.examined(len(sites))
	inDecode := 0
	for _, s := range sites {
		if s.Fn.Synthetic != "" {
			continue
		}
		encl := homeFn(s.Fn)
		c.touch(encl)
		name := "DequeueInFrag in " + shortFn(encl)
		switch {
		case encl == sdec:
			inDecode++
			gs := guardsOf(s.Instr)
			okFrame := guardHas(gs, func(g Guard) bool {
				x, op, y, ok := cmpGuard(g)
				if !ok || op != token.EQL || !isNilConst(y) {
					return false
				}
				ex, ok := x.(*ssa.Extract)
				if !ok {
					return false
				}
				_, is := p.isCallTo(ex.Tuple, readReply)
				return is
			})
			inLoop := innermostLoop(loopsOf(sdec), s.Instr.Block()) != nil
			c.check(okFrame && !inLoop, name, c.at(s.Instr), "once, after readReply returned a complete frame",
				"a waiting fragment is taken off the in-flight queue although the reply frame may be incomplete (or more than once): every later reply on this backend connection is attributed to the wrong request", withGuards(gs))
		case encl.Name() == "OnSClosed" && closeConn != nil:
			// a teardown handler: only reachable from closeConn
			okOnly := true
			for _, cs := range p.SitesOf(encl) {
				if cs.Fn.Synthetic == "" && homeFn(cs.Fn) != closeConn {
					okOnly = false
				}
			}
			c.check(okOnly, name, c.at(s.Instr), "drains the queue of a connection that is being torn down", "OnSClosed (which drains the in-flight queue) is called from somewhere other than closeConn")
		default:
			c.bad(name, c.at(s.Instr), "fragments are taken off a backend connection's in-flight queue outside the reply decoder and the close handler: the positional match between requests and replies on that connection is broken")
		}
	}
	c.check(inDecode == 1, "SRespCodec.Decode dequeues once", p.pos(sdec.Pos()), "one call", fmt.Sprintf("%d calls of DequeueInFrag in Decode", inDecode))
	if id := p.Method(pkgCore, "SRespCodec", "InitializingDecode"); id != nil {
		c.check(len(p.callsIn(id, deq)) == 0, "InitializingDecode never dequeues", p.pos(id.Pos()), "handshake replies consume no fragment", "the handshake decoder dequeues a fragment: the first client request on the connection gets the handshake's reply")
	}
	// enqueueInFrag: only in handleWriteSignal, paired with dequeueOutFrag for the same element
	for _, s := range p.SitesOf(enqIn) {
		if s.Fn.Synthetic != "" {
			continue
		}
		encl := homeFn(s.Fn)
		name := "enqueueInFrag in " + shortFn(encl)
		if encl != hws || s.Call == nil {
			c.bad(name, c.at(s.Instr), "a fragment enters a connection's in-flight queue outside handleWriteSignal, i.e. not at the moment its bytes are written to that connection: replies are matched against the wrong fragment")
			continue
		}
		c.ok(name, c.at(s.Instr), "in the write drain")
	}
}

// ---------------------------------------------------------------------------------------------

func ruleC03_5(c *Ctx) {
	p := c.P
	owner := p.Field(pkgCore, "Frag", "Owner")
	peer := p.Field(pkgCore, "Frag", "Peer")
	body := p.Field(pkgCore, "Msg", "Body")
	if owner == nil || peer == nil || body == nil {
		c.undecided("fields Frag.Owner/Peer, Msg.Body", "-", "not found")
		return
	}
	cconn := p.Named(pkgCore, "CConn")
	for _, w := range p.fieldWrites(owner) {
		encl := homeFn(w.Fn)
		c.touch(encl)
		name := "Frag.Owner write in " + shortFn(encl)
		v := strip(w.Val)
		if isNilConst(v) {
			// `Owner == nil` is how conn.sread and OnSClosed recognise the proxy's own fragments (topology probe, ASKING):
			// clearing it on a fragment that may still be in flight turns a client's late reply into a "probe reply"
			_, fresh := strip(w.Base).(*ssa.Alloc)
			c.check(fresh, name+" (cleared)", c.at(w.Instr), "set up of a new fragment",
				"Frag.Owner is set to nil on an existing fragment: a request completed early (error on a sibling fragment, timeout) is recycled while its other fragments are still in flight; with Owner == nil their late replies are taken for replies to the topology probe and handed to the refresh goroutine, which slices them as CLUSTER NODES text (index out of range: the proxy exits)")
			continue
		}
		prm, isParam := v.(*ssa.Parameter)
		okV := isParam && prm.Parent() == encl && types.Identical(prm.Type(), cconn) && encl.Name() == "OnCReact"
		c.check(okV, name, c.at(w.Instr), "the client connection the request was read from (OnCReact's parameter)",
			"a fragment's owner is set to "+expr(v)+", not to the client connection handed to OnCReact: its reply is delivered to another client")
	}
	mpGet := p.Method(pkgCore, "msgPool", "Get")
	pw := p.fieldWrites(peer)
	for _, w := range pw {
		encl := homeFn(w.Fn)
		c.touch(encl)
		name := "Frag.Peer write in " + shortFn(encl)
		v := strip(w.Val)
		if isNilConst(v) {
			_, fresh := strip(w.Base).(*ssa.Alloc)
			c.check(fresh, name+" (cleared)", c.at(w.Instr), "set up of a new fragment",
				"Frag.Peer is set to nil on an existing fragment that may still be in flight: conn.sread and the close/timeout handlers dereference the request of every client fragment")
			continue
		}
		_, isParam := v.(*ssa.Parameter)
		_, isGet := p.isCallTo(v, mpGet)
		// the same function files the same fragment under the same request
		filed := false
		for _, bw := range p.fieldWrites(body) {
			if bw.Kind == "mapupdate" && homeFn(bw.Fn) == encl && strip(bw.Base) == v && strip(bw.Val) == strip(w.Base) {
				filed = true
			}
		}
		c.check((isParam || isGet) && filed, name, c.at(w.Instr), "the request being built, which also files the fragment in its Body",
			"a fragment's Peer is "+expr(v)+" but the fragment is not filed in that same request's Body in this function: the reply completes a request that does not contain the fragment")
	}
	c.examined(len(pw))
	// per-connection queues
	for _, q := range []string{"inMsgQueue", "inFragQueue", "outFragQueue"} {
		f := p.Field(pkgCore, "conn", q)
		if f == nil {
			c.undecided("field conn."+q, "-", "not found")
			continue
		}
		for _, w := range p.fieldWrites(f) {
			encl := homeFn(w.Fn)
			name := "conn." + q + " write in " + shortFn(encl)
			v := strip(w.Val)
			_, fresh := v.(*ssa.Alloc)
			c.check(fresh || isNilConst(v), name, c.at(w.Instr), "fresh queue or nil", "a connection's "+q+" is assigned "+expr(v)+": queues must never be shared between connections")
		}
	}
}

// ---------------------------------------------------------------------------------------------
// C03.6: recycled and scratch state starts clean

func init() {
	rule("C03.6", "E2+E3", "recycled and scratch state starts clean: msgPool.Put clears every field of Msg; package-level scratch slices are truncated before the first append of each use; per-request maps are made fresh", 18, ruleC03_6)
}

func ruleC03_6(c *Ctx) {
	p := c.P
	put := c.needMethod(pkgCore, "msgPool", "Put")
	msg := p.Named(pkgCore, "Msg")
	if put == nil || msg == nil {
		return
	}
	c.examined(len(put.Blocks))
	st, _ := msg.Underlying().(*types.Struct)
	// (a) every field of Msg is assigned its zero value (or truncated to length 0) in Put, on the path that pools the object
	var poolPut ssa.Instruction
	allInstrs(put, func(in ssa.Instruction) {
		if call, ok := in.(*ssa.Call); ok && staticCalleeName(&call.Call) == "(*sync.Pool).Put" {
			poolPut = in
		}
	})
	if poolPut == nil {
		c.undecided("msgPool.Put: sync.Pool.Put", p.pos(put.Pos()), "the call that pools the object was not found")
	} else {
		for i := 0; i < st.NumFields(); i++ {
			f := st.Field(i)
			cleared := false
			// (the clearing may live in a helper of Put: `m.reset(); p.Pool.Put(m)`)
			p.allInstrsDeep(put, func(in ssa.Instruction) {
				s, ok := in.(*ssa.Store)
				if !ok {
					return
				}
				fa, ok := s.Addr.(*ssa.FieldAddr)
				if !ok || fieldVar(fa.X.Type(), fa.Field) != f || strip(fa.X) != ssa.Value(put.Params[1]) {
					return
				}
				li := lift(in, put)
				if li == nil || !dominatesInstr(li, poolPut) || (li != in && !onEveryPath(in)) {
					return
				}
				switch v := s.Val.(type) {
				case *ssa.Const:
					if v.Value == nil || v.IsNil() || isZero(v) || v.Value.String() == "false" || v.Value.String() == `""` {
						cleared = true
					}
				case *ssa.Slice:
					if v.High != nil && isZero(v.High) {
						if base, ok := fieldLoad(v.X, f); ok && strip(base) == ssa.Value(put.Params[1]) {
							cleared = true
						}
					}
				}
			})
			c.check(cleared, "msgPool.Put clears Msg."+f.Name(), p.pos(put.Pos()), "zeroed / truncated before the object is pooled",
				"a recycled Msg keeps its "+f.Name()+" from the previous request: the next request decoded into the object starts with another request's state (stale fragments, keys, counters or reply bytes)")
		}
	}
	// (b) package-level scratch slices appended to in the routing code are truncated first
	for _, fnKey := range []struct{ pkg, typ, m string }{{pkgServer, "listenServer", "OnCReact"}, {pkgServer, "listenServer", "route"}} {
		fn := c.needMethod(fnKey.pkg, fnKey.typ, fnKey.m)
		if fn == nil {
			continue
		}
		loops := loopsOf(fn)
		seen := map[*ssa.Global]bool{}
		allInstrs(fn, func(in ssa.Instruction) {
			s, ok := in.(*ssa.Store)
			if !ok {
				return
			}
			g, ok := s.Addr.(*ssa.Global)
			if !ok || seen[g] {
				return
			}
			call, ok := s.Val.(*ssa.Call)
			if !ok {
				return
			}
			if b, ok := call.Call.Value.(*ssa.Builtin); !ok || b.Name() != "append" {
				return
			}
			seen[g] = true
			// find a truncation g = g[:0] that dominates this append and is outside the append's loop
			okReset := false
			allInstrs(fn, func(in2 ssa.Instruction) {
				s2, ok := in2.(*ssa.Store)
				if !ok || s2.Addr != ssa.Value(g) {
					return
				}
				sl, ok := s2.Val.(*ssa.Slice)
				if !ok || sl.High == nil || !isZero(sl.High) {
					return
				}
				if dominatesInstr(in2, in) {
					l := innermostLoop(loops, in.Block())
					if l == nil || !l.Blocks[in2.Block()] {
						okReset = true
					}
				}
			})
			c.check(okReset, "scratch slice "+g.Name()+" truncated before use in "+shortFn(fn), c.at(in), g.Name()+" = "+g.Name()+"[:0] dominates the first append",
				"the package-level scratch slice "+g.Name()+" is appended to without having been emptied earlier in the same call: entries left behind by a previous call that returned early (an error half-way through routing) are processed as if they belonged to this request")
		})
	}
	// (c) per-request maps are made fresh by the splitter
	for _, spec := range []struct{ fn, field string }{{"Frag1", "Frags"}, {"Frag2", "Frags2"}} {
		fn := c.needMethod(pkgCore, "CRespCodec", spec.fn)
		f := p.Field(pkgCore, "Msg", spec.field)
		if fn == nil || f == nil {
			continue
		}
		fresh := false
		var at ssa.Instruction
		allInstrs(fn, func(in ssa.Instruction) {
			s, ok := in.(*ssa.Store)
			if !ok {
				return
			}
			fa, ok := s.Addr.(*ssa.FieldAddr)
			if !ok || fieldVar(fa.X.Type(), fa.Field) != f {
				return
			}
			if _, isMake := s.Val.(*ssa.MakeMap); isMake && s.Block() == fn.Blocks[0] {
				fresh = true
				at = in
			}
		})
		c.check(fresh, "CRespCodec."+spec.fn+": Msg."+spec.field+" is a fresh map", posOr(c, at, fn), "make(map…) unconditionally at entry",
			"the per-slot key table is not created fresh for every request: keys of an earlier request that used the same pooled Msg are sent again")
	}
	// Decode creates Body and Fd2Slot fresh
	if dec := c.needMethod(pkgCore, "CRespCodec", "Decode"); dec != nil {
		for _, fname := range []string{"Body", "Fd2Slot"} {
			f := p.Field(pkgCore, "Msg", fname)
			fresh := false
			p.allInstrsDeep(dec, func(in ssa.Instruction) {
				if s, ok := in.(*ssa.Store); ok {
					if fa, ok := s.Addr.(*ssa.FieldAddr); ok && fieldVar(fa.X.Type(), fa.Field) == f {
						if _, isMake := s.Val.(*ssa.MakeMap); isMake {
							fresh = true
						}
					}
				}
			})
			c.check(fresh, "CRespCodec.Decode: Msg."+fname+" is a fresh map", p.pos(dec.Pos()), "make(map…) per request", "Msg."+fname+" is not created fresh for every request")
		}
	}
}

package main

import (
	"encoding/json"
	"fmt"
	"os"
	"path/filepath"
	"sort"
	"strings"
	"time"

	"golang.org/x/tools/go/ssa"
)

// Verdicts of one obligation.
const (
	OK        = "discharged"
	VIOLATED  = "violated"
	UNDECIDED = "undecided"
)

// Ob is one obligation: a rule instantiated at one construct of the current tree.
type Ob struct {
	Rule      string   `json:"rule"`
	Construct string   `json:"construct"` // stable key: function / site / table row, never a line number
	Pos       string   `json:"pos"`       // file:line for diagnosis only
	Verdict   string   `json:"verdict"`
	Detail    string   `json:"detail,omitempty"`
	Guards    []string `json:"guards,omitempty"`
	Path      []string `json:"path,omitempty"`
	Config    string   `json:"build_config,omitempty"`
	Known     bool     `json:"known_finding,omitempty"`
}

// RuleInfo documents a rule for the evidence file.
type RuleInfo struct {
	ID     string
	Title  string
	Engine string
	Floor  int // minimum number of obligations the rule must generate on a tree it understands
	Run    func(c *Ctx)
}

// Ctx is handed to rules.
type Ctx struct {
	P       *Prog
	rule    *RuleInfo
	obs     []Ob
	counted map[string]int // evaluations: sites / rows / paths examined per rule
	funcs   map[string]bool
}

func (c *Ctx) add(verdict, construct, pos, detail string, extra ...func(*Ob)) {
	o := Ob{Rule: c.rule.ID, Construct: construct, Pos: pos, Verdict: verdict, Detail: detail, Config: c.P.cfgName()}
	for _, f := range extra {
		f(&o)
	}
	c.obs = append(c.obs, o)
}

func (p *Prog) cfgName() string {
	if p.Tags == "" {
		return "default"
	}
	return p.Tags
}

func (c *Ctx) ok(construct, pos, detail string, extra ...func(*Ob)) {
	c.add(OK, construct, pos, detail, extra...)
}
func (c *Ctx) bad(construct, pos, detail string, extra ...func(*Ob)) {
	c.add(VIOLATED, construct, pos, detail, extra...)
}
func (c *Ctx) undecided(construct, pos, detail string, extra ...func(*Ob)) {
	c.add(UNDECIDED, construct, pos, detail, extra...)
}

// check is ok/bad by condition.
func (c *Ctx) check(cond bool, construct, pos, okDetail, badDetail string, extra ...func(*Ob)) bool {
	if cond {
		c.ok(construct, pos, okDetail, extra...)
	} else {
		c.bad(construct, pos, badDetail, extra...)
	}
	return cond
}

func withGuards(gs []Guard) func(*Ob) {
	return func(o *Ob) { o.Guards = guardStrings(gs) }
}
func withPath(p []string) func(*Ob) { return func(o *Ob) { o.Path = p } }

// examined counts work that is not itself an obligation (sites scanned, rows compared, blocks walked).
func (c *Ctx) examined(n int) { c.counted[c.rule.ID] += n }

// touch records that a function's body was analysed.
func (c *Ctx) touch(fns ...*ssa.Function) {
	for _, f := range fns {
		if f != nil {
			c.funcs[shortFn(f)] = true
		}
	}
}

// need resolves an anchor function; on failure it files an UNDECIDED obligation and returns nil.
func (c *Ctx) need(key string) *ssa.Function {
	f := c.P.Func(key)
	if f == nil {
		c.undecided("anchor "+key, "-", "anchor function not found in the tree: the rule cannot be decided (renamed or removed?)")
		return nil
	}
	c.touch(f)
	return f
}

func (c *Ctx) needMethod(pkg, typ, name string) *ssa.Function {
	f := c.P.Method(pkg, typ, name)
	if f == nil {
		c.undecided(fmt.Sprintf("anchor (%s.%s).%s", pkg, typ, name), "-", "anchor method not found in the tree: the rule cannot be decided (renamed or removed?)")
		return nil
	}
	c.touch(f)
	return f
}

func (c *Ctx) at(in ssa.Instruction) string { return c.P.instrPos(in) }

// ---------------------------------------------------------------------------------------------
// known findings

type KnownFinding struct {
	Property  string `json:"property"`
	Rule      string `json:"rule"`
	Construct string `json:"construct"`
	Status    string `json:"status"` // open | fixed
	Commit    string `json:"commit,omitempty"`
	Fails     string `json:"fails"`
	Why       string `json:"why,omitempty"`
	ID        string `json:"id,omitempty"`
}

type KnownFile struct {
	Comment  string         `json:"comment"`
	Findings []KnownFinding `json:"findings"`
	Fixed    []string       `json:"fixed"`
}

func loadKnown(path string) (*KnownFile, error) {
	b, err := os.ReadFile(path)
	if err != nil {
		if os.IsNotExist(err) {
			return &KnownFile{}, nil
		}
		return nil, err
	}
	var k KnownFile
	if err := json.Unmarshal(b, &k); err != nil {
		return nil, err
	}
	return &k, nil
}

// ---------------------------------------------------------------------------------------------
// evidence

type evidence struct {
	PropertyID  string                 `json:"property_id"`
	Tier        string                 `json:"tier"`
	Seed        int                    `json:"seed"`
	Level       string                 `json:"level"`
	Coverage    map[string]interface{} `json:"coverage"`
	Assumptions []string               `json:"assumptions"`
	WallS       float64                `json:"wall_s"`
	Violations  int                    `json:"violations"`
}

type runResult struct {
	Property   string
	Tier       string
	Obs        []Ob
	Evaluated  int
	Funcs      []string
	Packages   int
	Configs    []string
	Controls   []Ob
	Rules      []*RuleInfo
	Extra      map[string]interface{}
	Start      time.Time
	RepoCommit string
}

func writeJSON(path string, v interface{}) error {
	b, err := json.MarshalIndent(v, "", " ")
	if err != nil {
		return err
	}
	if err := os.MkdirAll(filepath.Dir(path), 0o755); err != nil {
		return err
	}
	tmp := path + ".tmp"
	if err := os.WriteFile(tmp, append(b, '\n'), 0o644); err != nil {
		return err
	}
	return os.Rename(tmp, path)
}

func sampleObs(obs []Ob, max int) []Ob {
	// prefer a spread: every rule's first obligations, violations first
	var out []Ob
	seenRule := map[string]int{}
	for _, o := range obs {
		if o.Verdict != OK {
			out = append(out, o)
		}
	}
	for _, o := range obs {
		if o.Verdict == OK && seenRule[o.Rule] < 2 {
			seenRule[o.Rule]++
			out = append(out, o)
		}
	}
	if len(out) > max {
		out = out[:max]
	}
	return out
}

func uniqueStrings(in []string) []string {
	m := map[string]bool{}
	var out []string
	for _, s := range in {
		if !m[s] {
			m[s] = true
			out = append(out, s)
		}
	}
	sort.Strings(out)
	return out
}

func obKey(o Ob) string { return o.Rule + " | " + o.Construct }

func shortList(ss []string, n int) string {
	if len(ss) > n {
		return strings.Join(ss[:n], ", ") + fmt.Sprintf(", … (%d more)", len(ss)-n)
	}
	return strings.Join(ss, ", ")
}

package main

// PropDef ties a property of /verif/properties.jsonl to the rules that decide its structural clauses.
type PropDef struct {
	ID          string
	Title       string
	Rules       []string
	NotDecided  string
	Assumptions []string
}

var properties = map[string]*PropDef{}
var rules = map[string]*RuleInfo{}

func rule(id, engine, title string, floor int, run func(c *Ctx)) {
	if _, dup := rules[id]; dup {
		panic("duplicate rule " + id)
	}
	rules[id] = &RuleInfo{ID: id, Title: title, Engine: engine, Floor: floor, Run: run}
}

func property(id, title, notDecided string, ruleIDs ...string) {
	properties[id] = &PropDef{ID: id, Title: title, NotDecided: notDecided, Rules: append([]string{"X00"}, ruleIDs...)}
}

// package paths used as anchors
const (
	pkgCore    = "rcproxy/core"
	pkgServer  = "rcproxy/core/server"
	pkgCodec   = "rcproxy/core/codec"
	pkgHash    = "rcproxy/core/pkg/hashkit"
	pkgConst   = "rcproxy/core/pkg/constant"
	pkgAuthIP  = "rcproxy/core/authip"
	pkgElastic = "rcproxy/core/pkg/buffer/elastic"
	pkgRing    = "rcproxy/core/pkg/buffer/ring"
	pkgLL      = "rcproxy/core/pkg/buffer/linkedlist"
	pkgUtils   = "rcproxy/core/pkg/utils"
	pkgIO      = "rcproxy/core/internal/io"
	pkgNetpoll = "rcproxy/core/internal/netpoll"
	pkgMain    = "rcproxy"
)

func init() {
	property("C01", "Replies arrive in request order, exactly one per request",
		"that each merged or relayed reply body is itself exactly one RESP reply (value-level, see C02/C07); cursor arithmetic inside the buffers (C19 decides their structure only); kernel behaviour",
		"C01.1", "C01.2", "C01.3", "C01.4", "C01.5", "C01.6", "C03.6", "C03.7", "C09.4", "C02.7", "C01.7", "C19.1", "C19.2", "C19.3", "C19.4", "C19.5", "C19.6", "C19.7", "C19.8", "C04.5", "C04.7", "C16.4", "C09.8", "C08.8", "C19.9", "C10.2", "C16.7", "C01.8", "C13.2")
	property("C02", "Single-key requests and their replies pass through byte-exact",
		"that readReply's recursive framing computes the right frame length for every RESP2 value; parseLen/ReadN arithmetic for every length; behaviour at multi-megabyte sizes; cursor arithmetic inside the ring/list buffers (C19 decides their structure only)",
		"C02.1", "C02.2", "C02.3", "C02.4", "C02.5", "C02.6", "C02.7", "C01.5", "C09.3", "C19.1", "C19.2", "C19.3", "C19.4", "C19.5", "C19.6", "C19.7", "C19.8", "C08.6", "C04.5", "C04.7", "C08.7", "C06.4", "C06.6", "C04.10", "C11.7", "C09.8", "C08.8", "C19.9", "C01.8")
	property("C03", "A client never receives a reply produced for a different request",
		"that a backend answers in order on one connection (protocol assumption); the actual reuse order of sync.Pool objects",
		"C03.1", "C03.2", "C03.3", "C03.4", "C03.5", "C03.6", "C03.7", "C02.1", "C02.3", "C03.8", "C08.4", "C04.5", "C04.7", "C16.4", "C10.2", "C01.8", "C13.2", "C11.10")
	property("C04", "Requests are routed to the replica set owning the key's slot, by role",
		"the contents of the slot table versus the real cluster (C14); what a node does with READONLY/AUTH",
		"C04.1", "C04.2", "C04.3", "C04.4", "C04.5", "C04.6", "C04.7", "C14.6", "C03.6", "C08.4", "C04.8", "C05.1", "C05.2", "C05.3", "C14.10", "C04.9", "C20.2", "C20.3", "C04.10", "C11.10")
	property("C05", "Key-to-slot mapping equals the Redis Cluster key-slot function",
		"that the loop body of hash computes the CRC recurrence for every input (arithmetic shape; the table, the reduction, the tag extraction and the call sites are decided)",
		"C05.1", "C05.2", "C05.3", "C05.4")
	property("C06", "Multi-key requests are split into one exact per-slot fragment each",
		"that the concatenation of correctly shaped, length-prefixed pieces is accepted by Redis for every byte content (follows from RESP framing; not re-proved)",
		"C06.1", "C06.2", "C06.3", "C06.4", "C03.6", "C05.1", "C05.2", "C05.3", "C06.5", "C06.6", "C13.7")
	property("C07", "Split multi-key replies are reassembled correctly in any arrival order",
		"parseMGet's element slicing for every value (byte arithmetic); integer parsing of DEL counts; behaviour if a node returns the wrong number of elements",
		"C07.1", "C07.2", "C07.3", "C07.4", "C13.1", "C03.6", "C03.8", "C07.5", "C07.6", "C06.6", "C11.3", "C17.4")
	property("C08", "Request framing is independent of TCP segmentation",
		"conn.Peek/Discard/Next arithmetic across ring leftover and fresh bytes and the ring buffer's cursor arithmetic (C19 decides structure only) - value-level",
		"C08.1", "C08.2", "C08.3", "C08.4", "C08.5", "C02.4", "C02.1", "C08.6", "C08.7", "C06.4", "C19.1", "C19.2", "C19.3", "C19.4", "C19.5", "C19.6", "C19.7", "C19.8", "C09.8", "C08.8", "C01.7", "C01.8")
	property("C09", "Completed replies are delivered promptly, not withheld by later requests",
		"any time bound; scheduling of the event loop",
		"C09.1", "C09.2", "C09.3", "C09.4", "C09.5", "C09.6", "C09.7", "C08.7", "C11.7", "C09.8", "C07.2", "C01.7")
	property("C10", "Requests from one client reach each node in the order sent",
		"more than one connection per node (excluded by the property); kernel behaviour",
		"C10.1", "C10.2", "C10.3", "C01.5", "C02.7", "C15.3", "C10.4", "C19.1", "C19.2", "C19.3", "C19.4", "C19.5", "C19.6", "C19.7", "C19.8", "C10.5", "C16.4")
	property("C11", "Backend errors reach the client as errors, never as success or a crash",
		"the set of error texts Redis can emit (the rules are on the reply type byte)",
		"C11.1", "C11.2", "C11.3", "C11.4", "C03.6", "C11.5", "C11.6", "C03.5", "C08.7", "C11.7", "C11.8", "C11.9", "C07.3", "C07.2", "C11.10")
	property("C12", "No client input can crash the proxy, disturb others or reach a backend malformed",
		"that parseLen accepts only canonical decimal and cannot overflow; memory growth on never-completing requests; every index expression on client bytes",
		"C12.1", "C12.2", "C12.3", "C12.4", "C12.5", "C08.2", "C17.2", "C02.1", "C02.4", "C12.6", "C08.6", "C12.7", "C06.4", "C12.8", "C11.8", "C11.9", "C13.7", "C05.1", "C05.2", "C05.3", "C17.9", "C08.8")
	property("C13", "MOVED and ASK redirects are followed transparently and terminate",
		"that the final node's reply is correct; cluster-side migration semantics",
		"C13.1", "C13.2", "C13.3", "C13.4", "C13.5", "C15.4", "C13.6", "C03.5", "C16.6", "C13.7")
	property("C14", "Routing table converges to the latest valid CLUSTER NODES description",
		"'within a few seconds'; the text-to-struct parsing of addresses/epochs for every text; data races between the refresh goroutine and the event loop (a scheduling matter)",
		"C14.1", "C14.2", "C14.3", "C14.4", "C14.5", "C14.6", "C14.7", "C14.8", "C14.9", "C14.10", "C15.8", "C14.11", "C14.12")
	property("C15", "Losing a backend never leaves a client waiting forever",
		"liveness as such; kernel-level failure modes; whether a reconnect succeeds",
		"C15.1", "C15.2", "C15.3", "C15.4", "C15.5", "C15.6", "C14.6", "C16.4", "C16.5", "C15.7", "C16.6", "C15.8", "C13.6", "C15.9", "C04.8", "C11.9", "C14.12", "C04.10")
	property("C16", "A timed-out request gets one timeout error and the connection stays usable",
		"when msgTimeout runs (it is skipped on idle poll rounds); equal-deadline collisions in the LLRB tree (value-level)",
		"C16.1", "C16.2", "C16.3", "C16.4", "C16.5", "C03.2", "C07.1", "C16.6", "C15.8", "C03.3", "C03.7", "C04.10", "C16.7")
	property("C17", "Only supported, well-formed, size-limited requests are forwarded",
		"whether the arity table equals Redis's own arity (the property defines arity by the proxy's table)",
		"C17.1", "C17.2", "C17.3", "C17.4", "C17.5", "C17.6", "C17.7", "C02.4", "C08.6", "C17.8", "C17.9")
	property("C18", "IP whitelist admits exactly the configured addresses, also after reload",
		"'within a few seconds'; IPv6 remote addresses; the behaviour of fsnotify/inotify itself",
		"C18.1", "C18.2", "C18.3", "C18.4", "C18.5", "C18.6")
	property("C19", "I/O buffers behave as exact FIFO byte queues",
		"cursor arithmetic along operation sequences (wrap-around offsets, growth sizes, spill thresholds): that the bytes read are the bytes written for every sequence is a value-level statement; the io.ReaderFrom/io.WriterTo adaptors of the buffers (not used by the proxy's data path)",
		"C19.1", "C19.2", "C19.3", "C19.4", "C19.5", "C19.6", "C19.7", "C19.8", "C02.5", "C02.6", "C02.7", "C01.5", "C08.4", "C19.9")
	property("C20", "Reads are spread over all healthy replicas of the owning master",
		"the distribution itself (math/rand); the ban/lift timing policy",
		"C20.1", "C20.2", "C20.3", "C04.2", "C14.9", "C04.9", "C04.8", "C14.10", "C04.5", "C20.4", "C14.3")
}

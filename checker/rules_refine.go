package main

// Rules added after the first round of independently seeded changes (see DESIGN.md, "Seeded changes").

import (
	"fmt"
	"go/token"
	"strings"

	"golang.org/x/tools/go/ssa"
)

func init() {
	rule("C09.3", "E3", "whenever a direct write leaves bytes behind in an empty outbound buffer, writability is armed on the poller, so the backlog is drained without waiting for another event", 4, ruleC09_3)
	rule("C09.4", "E3", "the flush collects every completed request at the head of the queue: the collect loop ends only at the end of the queue or at the first unfinished request", 1, ruleC09_4)
	rule("C14.9", "E3", "replica sets are built in two passes: every master gets its set before any replica is attached, so the order of lines in CLUSTER NODES does not matter", 2, ruleC14_9)
	rule("C17.6", "E3", "toLower visits every byte of the command name", 1, ruleC17_6)
	rule("C18.4", "E3+E8", "the watcher watches the directory (a watch on the file itself does not survive replacement by rename), and every successful reload reaches the removal of unlisted addresses", 2, ruleC18_4)
	rule("C13.5", "E8", "every fragment handed to a backend connection by the redirect handler is the redirected fragment itself or a fragment created for this redirect (queue nodes are intrusive: a shared fragment would be linked twice)", 2, ruleC13_5)
}

func ruleC09_3(c *Ctx) {
	p := c.P
	isEmpty := p.Method(pkgElastic, "Buffer", "IsEmpty")
	mod := p.Method(pkgNetpoll, "Poller", "ModReadWrite")
	if isEmpty == nil || mod == nil {
		c.undecided("anchors elastic.Buffer.IsEmpty / Poller.ModReadWrite", "-", "not found")
		return
	}
	for _, spec := range []struct{ m, bm string }{{"write", "Write"}, {"writev", "Writev"}} {
		fn := c.needMethod(pkgCore, "conn", spec.m)
		bw := p.Method(pkgElastic, "Buffer", spec.bm)
		if fn == nil || bw == nil {
			continue
		}
		c.examined(len(fn.Blocks))
		n := 0
		p.virtualCalls(fn, []*ssa.Function{bw}, func(call ssa.CallInstruction) {
			gs := guardsOf(call)
			// only the spills made after the buffer was found empty need arming
			wasEmpty := guardHas(gs, func(g Guard) bool { _, is := p.isCallTo(g.Cond, isEmpty); return is && g.Truth })
			if !wasEmpty {
				return
			}
			n++
			// every path from the spill to a return passes ModReadWrite
			armed := true
			exits := pathFrom(call.(ssa.Instruction), func(in ssa.Instruction) bool {
				if ci, ok := in.(ssa.CallInstruction); ok {
					if callee := ci.Common().StaticCallee(); callee != nil && (callee == mod || mustCall(p, callee, mod, 2)) {
						return true
					}
				}
				return false
			})
			if len(exits) > 0 {
				armed = false
			}
			c.check(armed, fmt.Sprintf("(*conn).%s: spill #%d arms writability", spec.m, n), c.at(call), "followed on every path by poller.ModReadWrite",
				"bytes are left in the outbound buffer after a direct write hit EAGAIN / was partial, but EPOLLOUT is not armed on every path: every later write only appends to the non-empty buffer, so the backlog (and everything behind it) is withheld until the connection closes")
		})
		if n < 2 {
			c.undecided(fmt.Sprintf("(*conn).%s: spills after a direct write", spec.m), p.pos(fn.Pos()), fmt.Sprintf("found %d (EAGAIN and partial-write spills expected)", n))
		}
	}
	// eventloop.open arms writability when the first write left a backlog
	if open := c.needMethod(pkgCore, "eventloop", "open"); open != nil {
		addW := p.Method(pkgNetpoll, "Poller", "AddWrite")
		okA := false
		for _, call := range p.callsIn(open, addW) {
			if guardHas(guardsOf(call), func(g Guard) bool { _, is := p.isCallTo(g.Cond, isEmpty); return is && !g.Truth }) {
				okA = true
			}
		}
		c.check(okA, "eventloop.open arms writability for a buffered handshake", p.pos(open.Pos()), "AddWrite when the outbound buffer is not empty", "a handshake / open reply that could not be written at once is buffered but writability is never armed: the connection never authenticates")
	}
	// eventloop.write disarms only when drained
	if w := c.needMethod(pkgCore, "eventloop", "write"); w != nil {
		modR := p.Method(pkgNetpoll, "Poller", "ModRead")
		okD := true
		for _, call := range p.callsIn(w, modR) {
			if !guardHas(guardsOf(call), func(g Guard) bool { _, is := p.isCallTo(g.Cond, isEmpty); return is && g.Truth }) {
				okD = false
			}
		}
		c.check(okD, "eventloop.write disarms writability only when the backlog is drained", p.pos(w.Pos()), "ModRead on outboundBuffer.IsEmpty()", "writability is disarmed while bytes are still buffered: they are never sent")
	}
}

func ruleC09_4(c *Ctx) {
	p := c.P
	sread := c.needMethod(pkgCore, "eventloop", "sread")
	if sread == nil {
		return
	}
	doneF := p.Field(pkgCore, "Msg", "Done")
	rspBody := p.Field(pkgCore, "Msg", "RspBody")
	// the collect loop: the loop containing the append of RspBody
	var loop *Loop
	loops := loopsOf(sread)
	allInstrs(sread, func(in ssa.Instruction) {
		if call, ok := in.(*ssa.Call); ok {
			if b, ok := call.Call.Value.(*ssa.Builtin); ok && b.Name() == "append" && len(call.Call.Args) == 2 {
				for _, e := range varargElems(call.Call.Args[1]) {
					if _, is := fieldLoad(e, rspBody); is {
						loop = innermostLoop(loops, call.Block())
					}
				}
			}
		}
	})
	if loop == nil {
		c.undecided("eventloop.sread: collect loop", p.pos(sread.Pos()), "not found")
		return
	}
	var bad []string
	for _, e := range loop.exitEdges() {
		ifi, ok := e[0].Instrs[len(e[0].Instrs)-1].(*ssa.If)
		if !ok {
			bad = append(bad, "unconditional exit")
			continue
		}
		cond := ifi.Cond
		okC := false
		if _, is := fieldLoad(cond, doneF); is && e[0].Succs[1] == e[1] {
			okC = true // !cur.Done
		}
		if bo, isB := cond.(*ssa.BinOp); isB && (bo.Op == token.NEQ || bo.Op == token.EQL) && (isNilConst(bo.Y) || isNilConst(bo.X)) {
			okC = true // cur == nil
		}
		if !okC {
			bad = append(bad, expr(cond))
		}
	}
	c.check(len(bad) == 0, "eventloop.sread: collect loop ends only at the end of the queue or the first unfinished request", c.at(loop.Header.Instrs[0]), "exits: cur == nil, !cur.Done",
		"the loop that collects completed replies can stop early on "+strings.Join(bad, ", ")+": completed replies further down the queue are not written now, and nothing guarantees another flush (a flush happens only when a backend reply for this client arrives), so they are withheld")
}

func ruleC14_9(c *Ctx) {
	p := c.P
	fn := c.needMethod(pkgCore, "ClusterNodes", "setReplicaset")
	if fn == nil {
		return
	}
	c.examined(len(fn.Blocks))
	repl := p.Field(pkgCore, "ClusterNodes", "Replicasets")
	slaves := p.Field(pkgCore, "replicaset", "Slaves")
	loops := loopsOf(fn)
	var createLoop, attachLoop *Loop
	var attachAt ssa.Instruction
	allInstrs(fn, func(in ssa.Instruction) {
		st, ok := in.(*ssa.Store)
		if !ok {
			return
		}
		fa, ok := st.Addr.(*ssa.FieldAddr)
		if !ok {
			return
		}
		switch fieldVar(fa.X.Type(), fa.Field) {
		case repl:
			if call, ok := st.Val.(*ssa.Call); ok {
				if b, ok := call.Call.Value.(*ssa.Builtin); ok && b.Name() == "append" {
					createLoop = outermostLoop(loops, st.Block())
				}
			}
		case slaves:
			attachLoop = outermostLoop(loops, st.Block())
			attachAt = in
		}
	})
	if createLoop == nil || attachLoop == nil {
		c.undecided("setReplicaset: passes", p.pos(fn.Pos()), "the loop creating replica sets or the loop attaching replicas was not found")
		return
	}
	c.check(createLoop != attachLoop, "setReplicaset: replicas attached in a second pass", c.at(attachAt), "separate loops",
		"replica sets are created and replicas attached in one pass over the lines: a replica whose line precedes its master's line finds no set and is dropped, so it never serves reads although it is healthy and pooled")
	// the attach loop starts only after the create loop ran to exhaustion
	okOrder := false
	for _, e := range createLoop.exitEdges() {
		if e[0] == createLoop.Header && e[1].Dominates(attachLoop.Header) {
			okOrder = true
		}
	}
	for _, e := range createLoop.exitEdges() {
		if e[0] != createLoop.Header {
			okOrder = false
		}
	}
	c.check(okOrder || createLoop == attachLoop, "setReplicaset: every master has its set before replicas are attached", c.at(attachAt), "the attach loop is dominated by the exhaustion of the create loop", "the attach loop can start before all masters were seen")
}

func outermostLoop(loops []*Loop, b *ssa.BasicBlock) *Loop {
	var best *Loop
	for _, l := range loops {
		if l.Blocks[b] && (best == nil || len(l.Blocks) > len(best.Blocks)) {
			best = l
		}
	}
	return best
}

func ruleC17_6(c *Ctx) {
	p := c.P
	fn := c.need(pkgCodec + ".toLower")
	if fn == nil {
		return
	}
	c.examined(len(fn.Blocks))
	rets := returnsReachable(fn)
	loops := loopsOf(fn)
	okR := len(rets) == 1 && len(loops) == 1
	if okR {
		l := loops[0]
		// the single return is reached only through the loop header's exhaustion edge
		okR = !l.Blocks[rets[0].Block()]
		for _, e := range l.exitEdges() {
			if e[0] != l.Header {
				okR = false
			}
		}
		// index runs 0,1,2,… < len(bs)  (three-clause loop, or `for i := range bs` / `for i, b := range bs`)
		okIdx := false
		for _, sl := range rangeIndexLoops(fn) {
			if sl.loop.Header == l.Header && strip(sl.coll) == ssa.Value(fn.Params[0]) {
				okIdx = true
			}
		}
		if ifi, ok := l.Header.Instrs[len(l.Header.Instrs)-1].(*ssa.If); ok {
			if bo, ok := ifi.Cond.(*ssa.BinOp); ok && bo.Op == token.LSS && strings.HasPrefix(expr(bo.Y), "builtin:len(param0") {
				if ph, ok := bo.X.(*ssa.Phi); ok {
					z, st := false, false
					for _, e := range ph.Edges {
						if isZero(e) {
							z = true
						}
						if b, ok := e.(*ssa.BinOp); ok && b.Op == token.ADD && b.X == ssa.Value(ph) && isOne(b.Y) {
							st = true
						}
					}
					okIdx = z && st
				}
			}
		}
		// no return before the loop
		if !l.Header.Dominates(rets[0].Block()) {
			okR = false
		}
		okR = okR && okIdx
	}
	c.check(okR, "codec.toLower folds the whole name", p.pos(fn.Pos()), "for i := 0; i < len(bs); i++ with no early exit",
		"toLower can return before it has looked at every byte (early return / break / partial range): a supported command in some mixed-case spellings is not folded, misses the table and is rejected as unknown")
}

func ruleC18_4(c *Ctx) {
	p := c.P
	watch := c.needMethod(pkgAuthIP, "AuthIp", "watchYml")
	loopFn := c.need(pkgAuthIP + ".LoopIPWhiteList")
	parse := c.needMethod(pkgAuthIP, "AuthIp", "parseAuthIp")
	if watch == nil || loopFn == nil || parse == nil {
		return
	}
	// which field of AuthIp holds the directory: the one assigned the confPath parameter itself
	var dirField string
	allInstrs(loopFn, func(in ssa.Instruction) {
		if st, ok := in.(*ssa.Store); ok {
			if fa, ok := st.Addr.(*ssa.FieldAddr); ok && strip(st.Val) == ssa.Value(loopFn.Params[0]) {
				dirField = fieldName(fa.X.Type(), fa.Field)
			}
		}
	})
	if dirField == "" {
		c.undecided("LoopIPWhiteList: directory field", p.pos(loopFn.Pos()), "no field of AuthIp is assigned the configuration directory")
	} else {
		n := 0
		allInstrs(watch, func(in ssa.Instruction) {
			call, ok := in.(*ssa.Call)
			if !ok || !strings.HasSuffix(staticCalleeName(&call.Call), "fsnotify.Watcher).Add") {
				return
			}
			n++
			f, _, is := anyFieldLoad(call.Call.Args[1])
			c.check(is && f.Name() == dirField, "watchYml watches the configuration directory", c.at(in), "watch.Add(a."+dirField+")",
				"the watch is placed on "+expr(call.Call.Args[1])+" instead of the directory: a watch on the file follows its inode, so the first replacement by rename (editors, sed -i, config management) silently ends reloading until restart")
		})
		if n == 0 {
			c.bad("watchYml watches the configuration directory", p.pos(watch.Pos()), "nothing is watched")
		}
	}
	// every successful, enabled reload reaches the removal loop (in parseAuthIp or in the helper that applies the list)
	var del ssa.Instruction
	p.allInstrsDeep(parse, func(in ssa.Instruction) {
		if ci, ok := in.(ssa.CallInstruction); ok && strings.HasSuffix(staticCalleeName(ci.Common()), "hashmap.HashMap).Del") {
			del = in
		}
	})
	if del == nil {
		return // C18.2 reports it
	}
	if g := del.Parent(); g != parse {
		// the helper must be reached on every successful path of parseAuthIp, then the analysis continues inside it
		li := lift(del, parse)
		reached := li != nil
		if li != nil {
			for _, r := range returnsReachable(parse) {
				rs := results(r.(*ssa.Return))
				if len(rs) > 0 && isNilConst(rs[len(rs)-1]) && !dominatesInstr(li, r) {
					reached = false
				}
			}
		}
		c.check(reached, "parseAuthIp: the list is applied on every successful reload", posOr(c, li, parse), "the applying helper dominates every `return nil`",
			"parseAuthIp can return success without applying the decoded list")
		parse = g
	}
	loops := loopsOf(parse)
	dl := outermostLoop(loops, del.Block())
	// start: the first Insert call
	var ins ssa.Instruction
	allInstrs(parse, func(in ssa.Instruction) {
		if ci, ok := in.(ssa.CallInstruction); ok && strings.HasSuffix(staticCalleeName(ci.Common()), "ipMap).Insert") && ins == nil {
			ins = in
		}
	})
	if ins == nil || dl == nil {
		c.undecided("parseAuthIp: reload reaches the removal", p.pos(parse.Pos()), "insert call or removal loop not found")
		return
	}
	il := outermostLoop(loops, ins.Block())
	// from the exit of the insert loop, every path to a return passes the removal loop's header
	okPass := true
	if il != nil {
		for _, e := range il.exitEdges() {
			seen := map[*ssa.BasicBlock]bool{}
			var walk func(b *ssa.BasicBlock)
			walk = func(b *ssa.BasicBlock) {
				if seen[b] || b == dl.Header {
					return
				}
				seen[b] = true
				if _, isRet := b.Instrs[len(b.Instrs)-1].(*ssa.Return); isRet {
					okPass = false
					return
				}
				for _, s := range b.Succs {
					walk(s)
				}
			}
			walk(e[1])
		}
	}
	c.check(okPass, "parseAuthIp: every reload that inserted also removes", c.at(del), "all paths from the insert loop to the return pass the removal loop",
		"a reload can return after inserting the listed addresses without running the removal of unlisted ones (an early return / shortcut condition): addresses removed from the file stay admitted")
}

func ruleC13_5(c *Ctx) {
	p := c.P
	on := c.needMethod(pkgServer, "listenServer", "OnMoved")
	enq := c.needMethod(pkgCore, "conn", "EnqueueOutFrag")
	get := c.needMethod(pkgCore, "fragPool", "Get")
	if on == nil || enq == nil || get == nil {
		return
	}
	f := ssa.Value(on.Params[4])
	for _, call := range p.callsIn(on, enq) {
		arg := strip(call.Common().Args[0])
		_, fresh := p.isCallTo(arg, get)
		if cl, ok := arg.(*ssa.Call); ok && !fresh {
			// a constructor helper all of whose returns yield a fragment it obtained from FragPool.Get()
			if h := cl.Call.StaticCallee(); h != nil && p.ownFunc(h) && h.Blocks != nil {
				all := true
				rets := returnsReachable(h)
				for _, r := range rets {
					if _, is := p.isCallTo(strip(results(r.(*ssa.Return))[0]), get); !is {
						all = false
					}
				}
				fresh = all && len(rets) > 0
			}
		}
		c.check(arg == f || fresh, "OnMoved: fragment handed to the target connection", c.at(call), "the redirected fragment, or one created by FragPool.Get() here",
			"OnMoved queues "+expr(arg)+", which is neither the redirected fragment nor a fragment created for this redirect: a fragment shared between redirects is linked into a queue twice (the prev/next links are in the fragment), corrupting the queue and crashing the event loop when two redirects are in flight")
	}
}

func init() {
	rule("C16.5", "E8", "every in-flight fragment has its own entry in the deadline tree: the order breaks ties on a unique field, or each deadline comes from a clock reading taken for that fragment", 1, ruleC16_5)
	rule("C15.6", "E3", "the backend close handler never dereferences the request of a proxy-originated fragment (probe, ASKING: Owner and Peer are nil)", 1, ruleC15_6)
}

func ruleC16_5(c *Ctx) {
	p := c.P
	less := c.needMethod(pkgCore, "Frag", "Less")
	push := c.need(pkgCore + ".pushToTimeoutQueue")
	if less == nil || push == nil {
		return
	}
	c.examined(len(less.Blocks) + len(push.Blocks))
	idF := p.Field(pkgCore, "Frag", "Id")
	timeoutF := p.Field(pkgCore, "Frag", "Timeout")
	// (a) tie-break on Id in Less
	tie := false
	allInstrs(less, func(in ssa.Instruction) {
		if bo, ok := in.(*ssa.BinOp); ok && (bo.Op == token.LSS || bo.Op == token.GTR) {
			_, l := fieldLoad(bo.X, idF)
			_, r := fieldLoad(bo.Y, idF)
			if l && r {
				tie = true
			}
		}
	})
	if tie {
		c.ok("deadline tree keys are unique", p.pos(less.Pos()), "Frag.Less breaks ties on Frag.Id")
		return
	}
	// (b) the deadline stored by pushToTimeoutQueue derives from time.Now() called in its own body
	own := false
	var at ssa.Instruction
	for _, w := range p.fieldWrites(timeoutF) {
		if homeFn(w.Fn) != push {
			continue
		}
		at = w.Instr
		for _, r := range flowRoots(w.Val, func(call *ssa.Call) []ssa.Value {
			if strings.HasPrefix(staticCalleeName(&call.Call), "(time.Time).") {
				return call.Call.Args[:1]
			}
			return nil
		}) {
			if call, ok := r.(*ssa.Call); ok && staticCalleeName(&call.Call) == "time.Now" {
				own = true
			}
		}
	}
	// and it is called once per fragment (C16.4) - not hoisted out of the drain loop by passing a time in
	c.check(own, "deadline tree keys are unique", posOr(c, at, push), "each deadline is time.Now() read inside pushToTimeoutQueue, once per fragment",
		"the deadline tree is ordered by Frag.Timeout alone (ReplaceOrInsert/Delete by key) and the deadline is not read from the clock for each fragment: fragments that share a deadline (e.g. one clock reading per write batch) replace each other in the tree, so only one of them can ever time out and answering one deletes the other's entry")
}

func ruleC15_6(c *Ctx) {
	p := c.P
	on := c.needMethod(pkgServer, "listenServer", "OnSClosed")
	deq := c.needMethod(pkgCore, "conn", "DequeueInFrag")
	if on == nil || deq == nil {
		return
	}
	c.examined(len(on.Blocks))
	peerF := p.Field(pkgCore, "Frag", "Peer")
	ownerF := p.Field(pkgCore, "Frag", "Owner")
	n, bad := 0, 0
	for _, call := range p.callsIn(on, deq) {
		frag := call.Value()
		allInstrs(on, func(in ssa.Instruction) {
			fa, ok := in.(*ssa.FieldAddr)
			if !ok {
				return
			}
			base, is := fieldLoad(fa.X, peerF)
			if !is || strip(base) != ssa.Value(frag) {
				return
			}
			n++
			gs := guardsOf(in)
			okG := guardHas(gs, func(g Guard) bool {
				x, op, y, ok := cmpGuard(g)
				if !ok || op != token.NEQ || !isNilConst(y) {
					return false
				}
				if b, is := fieldLoad(x, ownerF); is && strip(b) == ssa.Value(frag) {
					return true
				}
				if b, is := fieldLoad(x, peerF); is && strip(b) == ssa.Value(frag) {
					return true
				}
				return false
			})
			if !okG {
				bad++
				c.bad("OnSClosed: frag.Peer dereferenced only for client fragments", c.at(in), "the request of a drained fragment is dereferenced without a dominating frag.Owner != nil / frag.Peer != nil test: the topology probe and ASKING fragments have no request, so a backend connection that closes while one of them is unanswered crashes the event loop (no recover: the proxy exits)", withGuards(gs))
			}
		})
	}
	if bad == 0 {
		c.ok("OnSClosed: frag.Peer dereferenced only for client fragments", p.pos(on.Pos()), fmt.Sprintf("%d dereferences, all behind the nil test", n))
	}
}

// mustCall: every path through fn (from entry to a return) calls target, directly or through callees.
func mustCall(p *Prog, fn, target *ssa.Function, depth int) bool {
	if fn == nil || fn.Blocks == nil || depth < 0 || !p.ownFunc(fn) {
		return false
	}
	exits := pathFromEntry(fn, func(in ssa.Instruction) bool {
		if ci, ok := in.(ssa.CallInstruction); ok {
			if callee := ci.Common().StaticCallee(); callee != nil && (callee == target || mustCall(p, callee, target, depth-1)) {
				return true
			}
		}
		return false
	})
	return len(exits) == 0
}

package main

// Rules added after the sixth round of independently seeded changes (DESIGN.md section 6).

import (
	"fmt"
	"go/token"
	"go/types"
	"strings"

	"golang.org/x/tools/go/ssa"
)

func init() {
	rule("C06.5", "E4", "every key occurrence is filed: the update of the per-slot group in Frag1/Frag2 depends on nothing but whether the group already exists", 2, ruleC06_5)
	rule("C07.5", "E4", "only a nil bulk has no payload: in parseMGet the element that consists of its header line alone is selected by a negative length, every other length (0 included) reads payload and CRLF", 1, ruleC07_5)
	rule("C07.6", "E2+E8", "the per-slot key lists built by the split are read-only afterwards: nothing outside the splitting readers appends to or stores into a slice taken from Msg.Frags / Msg.Frags2 / Msg.Keys", 1, ruleC07_6)
	rule("C08.7", "E8", "a line is complete wherever its LF is: ReadLine searches the whole unread part of the buffer", 1, ruleC08_7)
	rule("C09.6", "E4", "the drain of an outbound backlog runs whenever the socket is writable: in the epoll dispatch the call of el.write depends only on the writable mask and the non-empty buffer", 1, ruleC09_6)
	rule("C09.7", "E8", "'incomplete' is decided by a read that failed, never by arithmetic: every incomplete-frame error returned by the reply framer is the error of a Buffer read", 1, ruleC09_7)
	rule("C10.5", "E2", "the pool's connection count changes only together with its list: a function that stores activeList.count also links or unlinks (stores front/back)", 3, ruleC10_5)
}

func ruleC06_5(c *Ctx) {
	p := c.P
	for _, spec := range []struct{ fn, field string }{{"Frag1", "Frags"}, {"Frag2", "Frags2"}} {
		fn := c.needMethod(pkgCore, "CRespCodec", spec.fn)
		f := p.Field(pkgCore, "Msg", spec.field)
		if fn == nil || f == nil {
			continue
		}
		c.examined(len(fn.Blocks))
		n := 0
		for _, w := range p.fieldWrites(f) {
			if w.Kind != "mapupdate" || homeFn(w.Fn) != fn {
				continue
			}
			n++
			loops := loopsOf(w.Fn)
			l := innermostLoop(loops, w.Instr.Block())
			extra := ""
			for _, g := range guardsAtRaw(w.Instr.Block()) {
				if l != nil && !l.Blocks[g.If.Block()] {
					continue // outside the argument loop
				}
				if l != nil && g.If.Block() == l.Header {
					continue // the loop's own bound
				}
				// allowed: the `ok` of a lookup in the same map; the error checks of the iteration's parseLine calls
				if ex, ok := g.Cond.(*ssa.Extract); ok && ex.Index == 1 {
					if lk, ok := ex.Tuple.(*ssa.Lookup); ok {
						if _, is := fieldLoad(lk.X, f); is {
							continue
						}
					}
				}
				if x, op, y, ok := cmpGuard(g); ok && (op == token.EQL || op == token.NEQ) && (isNilConst(y) || isNilConst(x)) {
					if types.Identical(x.Type(), types.Universe.Lookup("error").Type()) || types.Identical(y.Type(), types.Universe.Lookup("error").Type()) {
						continue
					}
				}
				extra = g.String()
			}
			c.check(extra == "", spec.fn+": group update #"+fmt.Sprint(n)+" is unconditional", c.at(w.Instr), "guarded only by the group's existence",
				"a key is added to its slot group only under a further condition ("+extra+"): some occurrences of a key are not sent (e.g. a key repeated back to back is filed once) while Msg.Keys still counts every occurrence, so the fragment no longer contains every key occurrence exactly once")
		}
		if n == 0 {
			c.undecided(spec.fn+": group updates", p.pos(fn.Pos()), "no update of Msg."+spec.field+" found")
		}
	}
}

func ruleC07_5(c *Ctx) {
	p := c.P
	pm := c.needMethod(pkgCore, "SRespCodec", "parseMGet")
	readN := c.needMethod(pkgCodec, "Buffer", "ReadN")
	parseLen := c.need(pkgCore + ".parseLen")
	if pm == nil || readN == nil || parseLen == nil {
		return
	}
	c.examined(len(pm.Blocks))
	// the element length: result #0 of parseLen inside the element loop
	var nv ssa.Value
	allInstrs(pm, func(in ssa.Instruction) {
		if ex, ok := in.(*ssa.Extract); ok && ex.Index == 0 {
			if call, is := p.isCallTo(ex.Tuple, parseLen); is && innermostLoop(loopsOf(pm), call.Block()) != nil {
				nv = ex
			}
		}
	})
	if nv == nil {
		c.undecided("parseMGet: element length", p.pos(pm.Pos()), "no parseLen of an element header found in the element loop")
		return
	}
	// every payload read ReadN(n) is guarded by n >= 0 and by nothing stricter on n
	n := 0
	for _, rc := range p.callsIn(pm, readN) {
		if strip(rc.Common().Args[1]) != nv {
			continue
		}
		n++
		okG, strict := false, ""
		for _, g := range guardsAt(rc.Block()) {
			x, op, y, ok := cmpGuard(g)
			if !ok {
				continue
			}
			if strip(y) == nv {
				x, y, op = y, x, flipCmp(op)
			}
			if strip(x) != nv {
				continue
			}
			k, isK := constInt(y)
			if !isK {
				continue
			}
			switch {
			case (op == token.GEQ && k == 0) || (op == token.GTR && k == -1) || (op == token.NEQ && k == -1):
				okG = true
			default:
				strict = g.String()
			}
		}
		c.check(okG && strict == "", "parseMGet: payload read for every non-negative length", c.at(rc), "ReadN(n) under n >= 0",
			"the payload and its CRLF are read only under "+strict+" instead of n >= 0: an empty value ($0) is taken for a nil bulk, its CRLF is left in the buffer, the rest of the fragment's elements are lost and the reassembly indexes past the truncated list (client gets a malformed array, or the proxy panics)", withGuards(guardsAt(rc.Block())))
	}
	if n == 0 {
		c.undecided("parseMGet: payload read", p.pos(pm.Pos()), "no ReadN(n) of the element length found")
	}
}

func ruleC07_6(c *Ctx) {
	p := c.P
	fields := map[*types.Var]bool{}
	for _, n := range []string{"Frags", "Frags2", "Keys"} {
		if f := p.Field(pkgCore, "Msg", n); f != nil {
			fields[f] = true
		}
	}
	if len(fields) != 3 {
		c.undecided("Msg.Frags/Frags2/Keys", "-", "fields not found")
		return
	}
	allowed := map[*ssa.Function]bool{}
	for _, m := range []string{"Frag1", "Frag2"} {
		if fn := c.needMethod(pkgCore, "CRespCodec", m); fn != nil {
			for _, g := range p.family(fn) {
				allowed[g] = true
			}
		}
	}
	if put := p.Method(pkgCore, "msgPool", "Put"); put != nil {
		allowed[put] = true
	}
	if get := p.Method(pkgCore, "msgPool", "Get"); get != nil {
		allowed[get] = true
	}
	fromLists := func(v ssa.Value) bool {
		for _, r := range flowRoots(v, nil) {
			switch x := r.(type) {
			case *ssa.Lookup:
				if ff, _, ok := anyFieldLoad(x.X); ok && fields[ff] {
					return true
				}
			case *ssa.Extract:
				if lk, ok := x.Tuple.(*ssa.Lookup); ok {
					if ff, _, ok := anyFieldLoad(lk.X); ok && fields[ff] {
						return true
					}
				}
				if nx, ok := x.Tuple.(*ssa.Next); ok {
					if rg, ok := nx.Iter.(*ssa.Range); ok {
						if ff, _, ok := anyFieldLoad(rg.X); ok && fields[ff] && x.Index == 2 {
							return true
						}
					}
				}
			case *ssa.UnOp:
				if ff, _, ok := anyFieldLoad(x); ok && fields[ff] {
					return true
				}
			}
		}
		return false
	}
	sites, bad := 0, 0
	for _, fn := range p.Funcs {
		if fn.Synthetic != "" || fn.Blocks == nil || allowed[outermost(fn)] || skipPkgStrict(fn) {
			continue
		}
		allInstrs(fn, func(in ssa.Instruction) {
			switch x := in.(type) {
			case *ssa.Call:
				b, ok := x.Call.Value.(*ssa.Builtin)
				if !ok || b.Name() != "append" || len(x.Call.Args) != 2 {
					return
				}
				if _, isStr := x.Call.Args[0].Type().Underlying().(*types.Slice); !isStr {
					return
				}
				sites++
				if fromLists(x.Call.Args[0]) {
					bad++
					c.bad("per-slot key list modified in "+shortFn(fn), c.at(in), "append to a slice taken from Msg.Frags/Frags2/Keys outside the split: the slice shares its backing array with the list the reassembly searches - a log helper that abbreviates `append(keys[:3], \"...\")` overwrites the slot's 4th key, whose reply element is then silently dropped from the merged MGET reply")
				}
			case *ssa.Store:
				ia, ok := x.Addr.(*ssa.IndexAddr)
				if !ok {
					return
				}
				sites++
				if fromLists(ia.X) {
					bad++
					c.bad("per-slot key list modified in "+shortFn(fn), c.at(in), "element store into a slice taken from Msg.Frags/Frags2/Keys outside the split")
				}
			}
		})
	}
	c.examined(sites)
	if bad == 0 {
		c.ok("per-slot key lists are read-only after the split", "-", fmt.Sprintf("%d append/element-store sites outside Frag1/Frag2/msgPool examined, none targets Msg.Frags/Frags2/Keys", sites))
	}
}

func skipPkgStrict(fn *ssa.Function) bool {
	k := fnKey(fn)
	return strings.Contains(k, "/pkg/logging") || strings.Contains(k, "ProxyStats")
}

func ruleC08_7(c *Ctx) {
	p := c.P
	rl := c.needMethod(pkgCodec, "Buffer", "ReadLine")
	bufF := p.Field(pkgCodec, "Buffer", "buf")
	rF := p.Field(pkgCodec, "Buffer", "r")
	if rl == nil {
		return
	}
	if bufF == nil || rF == nil {
		c.undecided("codec.Buffer fields", "-", "buf / r not found")
		return
	}
	c.examined(len(rl.Blocks))
	n := 0
	p.allInstrsDeep(rl, func(in ssa.Instruction) {
		call, ok := in.(*ssa.Call)
		if !ok {
			return
		}
		name := staticCalleeName(&call.Call)
		if name != "bytes.IndexByte" && name != "bytes.Index" && name != "bytes.IndexAny" {
			return
		}
		n++
		// the searched slice: buf[r:] (possibly through leftBuf()) - no upper bound
		arg := strip(call.Call.Args[0])
		okS := false
		if sl, ok := arg.(*ssa.Slice); ok && sl.High == nil && sl.Max == nil {
			if _, is := fieldLoad(sl.X, bufF); is {
				if sl.Low == nil {
					okS = true
				} else if _, isR := fieldLoad(sl.Low, rF); isR {
					okS = true
				}
			}
		}
		c.check(okS, "codec.Buffer.ReadLine: LF searched in the whole unread part", c.at(in), "IndexByte(buf[r:], '\\n')",
			"the line feed is searched in "+expr(arg)+", not in the whole unread part of the buffer: a complete line whose LF lies beyond the searched prefix (a -WRONGTYPE error is 68 bytes, script errors are longer) is reported as still arriving, for ever - the client never gets it and every later reply on that backend connection is stuck behind it")
	})
	if n == 0 {
		c.undecided("codec.Buffer.ReadLine: LF search", p.pos(rl.Pos()), "no bytes.IndexByte call found")
	}
}

func ruleC09_6(c *Ctx) {
	p := c.P
	if strings.Contains(p.cfgName(), "darwin") {
		c.ok("reactor (kqueue build): write filter", "-", "EVFilterWrite is a separate event on kqueue")
		return
	}
	write := c.needMethod(pkgCore, "eventloop", "write")
	isEmpty := p.Method(pkgElastic, "Buffer", "IsEmpty")
	if write == nil || isEmpty == nil {
		return
	}
	var disp *ssa.Function
	if f := p.Method(pkgCore, "eventloop", "callback"); f != nil {
		disp = f
	} else if f := p.Method(pkgCore, "conn", "handleEvents"); f != nil {
		disp = f
	}
	if disp == nil {
		c.undecided("reactor dispatch", "-", "neither eventloop.callback nor conn.handleEvents found")
		return
	}
	c.touch(disp)
	c.examined(len(disp.Blocks))
	okW, why := false, "no call of el.write in the dispatch"
	for _, wc := range p.callsIn(disp, write) {
		okG, outMask := true, false
		for _, g := range guardsOf(wc) {
			if ex, ok := g.Cond.(*ssa.Extract); ok && ex.Index == 1 {
				if _, isLk := ex.Tuple.(*ssa.Lookup); isLk {
					continue
				}
			}
			if _, is := p.isCallTo(g.Cond, isEmpty); is && !g.Truth {
				continue
			}
			x, op, y, isC := cmpGuard(g)
			if isC && (op == token.NEQ || op == token.EQL) {
				if and, ok := strip(x).(*ssa.BinOp); ok && and.Op == token.AND && isZero(y) {
					if k, isK := constInt(and.Y); isK {
						// the writable mask contains EPOLLOUT (4); a test of the readable mask here makes the drain wait
						if k&4 != 0 && op == token.NEQ {
							outMask = true
							continue
						}
						okG, why = false, "the drain also depends on "+g.String()
						continue
					}
				}
			}
			okG, why = false, "the drain also depends on "+g.String()
		}
		if okG && outMask {
			okW = true
		}
	}
	c.check(okW, "reactor: writable events drain the backlog", p.pos(disp.Pos()), "el.write(c) under the out-events mask and a non-empty buffer only",
		why+": replies parked in a client's outbound buffer are sent only in rounds in which that further condition holds - e.g. only when the client socket is not readable, so a client that keeps sending never receives them (and everything queued behind them)")
}

func ruleC09_7(c *Ctx) {
	p := c.P
	rr := c.needMethod(pkgCore, "SRespCodec", "readReply")
	if rr == nil {
		return
	}
	c.examined(len(rr.Blocks))
	incomplete := map[*ssa.Global]bool{}
	for _, n := range []string{"ShortLine", "EmptyLine", "ErrLFNotFound", "BadLine"} {
		if g := p.Global(pkgCodec, n); g != nil {
			incomplete[g] = true
		}
	}
	delete(incomplete, p.Global(pkgCodec, "BadLine")) // BadLine (a zero-length line) is a content verdict
	n, bad := 0, 0
	p.allInstrsDeep(rr, func(in ssa.Instruction) {
		r, ok := in.(*ssa.Return)
		if !ok {
			return
		}
		rs := results(r)
		ev := rs[len(rs)-1]
		if isNilConst(ev) {
			return
		}
		n++
		for _, root := range flowRoots(ev, nil) {
			if ld, ok := root.(*ssa.UnOp); ok {
				if g, ok := ld.X.(*ssa.Global); ok && incomplete[g] {
					bad++
					c.bad("readReply: incomplete-frame verdict", c.at(in), "the reply framer returns "+g.Name()+" on its own decision instead of passing on the error of a buffer read: an estimate of how many bytes a frame needs (\"n*5\") is wrong for some frames (`:1\\r\\n` is 4 bytes), so a complete reply that ends exactly at the end of the received bytes is held back until a later reply arrives on that backend connection")
				}
			}
		}
	})
	if bad == 0 {
		c.check(n >= 3, "readReply: incomplete-frame verdicts come from buffer reads", p.pos(rr.Pos()), fmt.Sprintf("%d error returns, none is a literal incomplete-frame error", n), "fewer than three error returns found in readReply")
	}
}

func ruleC10_5(c *Ctx) {
	p := c.P
	listT := p.Named(pkgCore, "activeList")
	if listT == nil {
		c.undecided("core.activeList", "-", "type not found")
		return
	}
	countF := p.Field(pkgCore, "activeList", "count")
	frontF := p.Field(pkgCore, "activeList", "front")
	backF := p.Field(pkgCore, "activeList", "back")
	if countF == nil || frontF == nil || backF == nil {
		c.undecided("activeList fields", "-", "count/front/back not found")
		return
	}
	links := map[*ssa.Function]bool{}
	for _, f := range []*types.Var{frontF, backF} {
		for _, w := range p.fieldWrites(f) {
			if w.Kind == "store" {
				links[outermost(w.Fn)] = true
			}
		}
	}
	n := 0
	for _, w := range p.fieldWrites(countF) {
		if w.Kind != "store" {
			continue
		}
		n++
		fn := outermost(w.Fn)
		c.touch(fn)
		c.check(links[fn], "activeList.count written in "+shortFn(fn), c.at(w.Instr), "the same function links or unlinks a connection",
			"the pool's connection count is changed without the list being changed (e.g. a statistics getter that 'does not count closed connections' through a pointer to the live list): Pool.Get then believes the pool has room, dials a second connection and orphans the live one, so consecutive requests of one client to one node travel on different sockets and can overtake each other")
	}
	c.examined(n)
	if n < 3 {
		c.undecided("activeList.count writers", "-", fmt.Sprintf("%d found (pushFront, popBack/remove, Release expected)", n))
	}
}

// ---------------------------------------------------------------------------------------------
// second half of the sixth round

func init() {
	rule("C11.7", "E6", "only authentication failures shut the proxy down: every reply prefix classified as RspNeedAuth / RspAuthFailed / RspNeedNtAuth is one of the known authentication-failure texts", 3, ruleC11_7)
	rule("C11.8", "E4", "Error.ShortString / Status.ShortString (which slices off the trailing CRLF) is applied only to constants or to values known to be non-empty", 2, ruleC11_8)
	rule("C12.8", "E8", "no client byte reaches a metrics label: label values handed to prometheus vectors are constants or come from the command tables", 1, ruleC12_8)
	rule("C14.11", "E4", "open-slot markers are recognised by their opening bracket: both `[slot->-node]` and `[slot-<-node]` are skipped before a slot column is parsed", 1, ruleC14_11)
	rule("C15.9", "E2", "a pool is closed for good only when it leaves the topology or the engine stops: Pool.Close is not called on a role change", 1, ruleC15_9)
	rule("C17.8", "E2+E8", "the byte limit is compared with byte counts only: MsgMaxLength is read in sizeTooLarge(size) and against len(merged reply), nowhere else", 2, ruleC17_8)
	rule("C18.5", "E3", "every reload reads the file: parseAuthIp reaches its file read on every path that does not fail first", 1, ruleC18_5)
}

func ruleC11_7(c *Ctx) {
	p := c.P
	rr := c.needMethod(pkgCore, "SRespCodec", "readReply")
	if rr == nil {
		return
	}
	c.examined(len(rr.Blocks))
	// each row: why it is an authentication failure
	// (the key is the shortest prefix that no other Redis error shares: a test for less than that also matches
	// ordinary per-command errors, e.g. "-ERR invalid" matches "-ERR invalid expire time in 'set' command")
	known := map[string]string{
		"-NOAUTH":               "no AUTH was sent and the node requires one",
		"-ERR invalid password": "AUTH with a wrong password (redis < 6)",
		"-ERR Client sent AUTH": "a password is configured in the proxy but not on the node",
		"-ERR AUTH <password> called without any password": "same, redis >= 6 wording",
		"-WRONGPASS": "AUTH with a wrong password (redis >= 6)",
	}
	authTypes := map[int64]string{}
	for _, n := range []string{"RspNeedAuth", "RspAuthFailed", "RspNeedNtAuth"} {
		if k, ok := p.ConstInt(pkgCodec, n); ok {
			authTypes[k] = n
		}
	}
	prefixes := map[string]int64{}
	var rrBlocks []*ssa.BasicBlock
	for _, g := range p.family(rr) {
		rrBlocks = append(rrBlocks, g.Blocks...)
	}
	for _, b := range rrBlocks {
		ifi, ok := b.Instrs[len(b.Instrs)-1].(*ssa.If)
		if !ok {
			continue
		}
		call, ok := ifi.Cond.(*ssa.Call)
		if !ok || staticCalleeName(&call.Call) != "strings.HasPrefix" {
			continue
		}
		if s, ok := constString(call.Call.Args[1]); ok {
			// the type returned on the true edge (possibly through fallthrough blocks)
			seen := map[*ssa.BasicBlock]bool{}
			var walk func(x *ssa.BasicBlock)
			walk = func(x *ssa.BasicBlock) {
				if seen[x] || len(seen) > 6 {
					return
				}
				seen[x] = true
				if ret, ok := x.Instrs[len(x.Instrs)-1].(*ssa.Return); ok {
					if k, isK := constInt(results(ret)[0]); isK {
						prefixes[s] = k
					}
					return
				}
				if _, isIf := x.Instrs[len(x.Instrs)-1].(*ssa.If); isIf {
					return
				}
				for _, sx := range x.Succs {
					walk(sx)
				}
			}
			walk(b.Succs[0])
			continue
		}
		if g, sf := globalElemField(call.Call.Args[1]); g != nil {
			tb := b.Succs[0]
			if ret, ok := tb.Instrs[len(tb.Instrs)-1].(*ssa.Return); ok {
				if g2, tf := globalElemField(results(ret)[0]); g2 == g && tf != nil {
					for k, s := range p.structTableRowsAll(g, sf, tf) {
						prefixes[k] = s
					}
				}
			}
		}
	}
	n := 0
	for pre, k := range prefixes {
		name, isAuth := authTypes[k]
		if !isAuth {
			continue
		}
		n++
		why, ok := "", false
		for kp, reason := range known {
			if strings.HasPrefix(pre, kp) {
				why, ok = reason, true
			}
		}
		c.check(ok, "readReply: "+fmt.Sprintf("%q", pre)+" ⇒ "+name, p.pos(rr.Pos()), why,
			"the reply prefix "+fmt.Sprintf("%q", pre)+" is classified as "+name+", which makes eventloop.sread shut the whole proxy down, but it is not an authentication failure of the proxy's own credentials: e.g. -NOPERM is the ordinary per-command error of an ACL-restricted user and belongs to the client that sent the command")
	}
	if n < 3 {
		c.undecided("readReply: authentication-failure prefixes", p.pos(rr.Pos()), fmt.Sprintf("%d found (NOAUTH, invalid password, no password set expected)", n))
	}
}

// structTableRowsAll: the rows of a package-level prefix table, keyed by prefix.
func (p *Prog) structTableRowsAll(g *ssa.Global, sf, tf *types.Var) map[string]int64 {
	return p.structTableRowsMulti(g, sf, tf)
}

func ruleC11_8(c *Ctx) {
	p := c.P
	var targets []*ssa.Function
	for _, t := range []string{"Error", "Status"} {
		if f := p.Method(pkgCodec, t, "ShortString"); f != nil {
			targets = append(targets, f)
		}
	}
	if len(targets) == 0 {
		c.undecided("codec.Error.ShortString / codec.Status.ShortString", "-", "not found")
		return
	}
	n := 0
	for _, t := range targets {
		for _, s := range p.SitesOf(t) {
			if s.Fn.Synthetic != "" || s.Call == nil || skipPkgStrict(s.Fn) {
				continue
			}
			n++
			c.touch(homeFn(s.Fn))
			recv := strip(s.Call.Args[0])
			okC := false
			why := ""
			if k, isC := recv.(*ssa.Const); isC && k.Value != nil && len(k.Value.ExactString()) > 4 {
				okC, why = true, "constant receiver"
			}
			if !okC {
				for _, g := range guardsOf(s.Instr) {
					e := expr(g.Cond)
					if (strings.Contains(e, ").NotNil(") && g.Truth) || (strings.Contains(e, ").Nil(") && !g.Truth) {
						if strings.Contains(e, expr(recv)) {
							okC, why = true, g.String()
						}
					}
				}
			}
			c.check(okC, "ShortString call in "+shortFn(homeFn(s.Fn)), c.at(s.Instr), why,
				"ShortString() slices off the last two bytes and is called on "+expr(recv)+", which is not known to be non-empty here (an Error that was never set is \"\"): slice bounds out of range - and log arguments are evaluated whatever the log level, on the event loop, which has no recover")
		}
	}
	c.examined(n)
	if n < 2 {
		c.undecided("ShortString call sites", "-", fmt.Sprintf("%d found", n))
	}
}

func ruleC12_8(c *Ctx) {
	p := c.P
	parseLine := p.Method(pkgCore, "CRespCodec", "parseLine")
	n, bad := 0, 0
	// content: what the decoders read out of a connection's bytes
	isContent := func(r ssa.Value) bool {
		ex, ok := strip(r).(*ssa.Extract)
		if !ok {
			if call, isCall := strip(r).(*ssa.Call); isCall {
				if parseLine != nil && call.Call.StaticCallee() == parseLine {
					return true
				}
				nm := staticCalleeName(&call.Call)
				if call.Call.IsInvoke() && (call.Call.Method.Name() == "Peek" || call.Call.Method.Name() == "Next") {
					return true
				}
				return strings.Contains(nm, "codec.Buffer).") && !strings.Contains(nm, "Size")
			}
			return false
		}
		call, ok := ex.Tuple.(*ssa.Call)
		if !ok {
			return false
		}
		if parseLine != nil && call.Call.StaticCallee() == parseLine {
			return true
		}
		nm := staticCalleeName(&call.Call)
		return strings.Contains(nm, "codec.Buffer).") || strings.HasSuffix(nm, ").Peek") || strings.HasSuffix(nm, ").Next") || (call.Call.IsInvoke() && (call.Call.Method.Name() == "Peek" || call.Call.Method.Name() == "Next"))
	}
	for _, fn := range p.Funcs {
		if fn.Synthetic != "" || fn.Blocks == nil {
			continue
		}
		allInstrs(fn, func(in ssa.Instruction) {
			call, ok := in.(*ssa.Call)
			if !ok {
				return
			}
			name := staticCalleeName(&call.Call)
			if !strings.Contains(name, "prometheus") || !(strings.HasSuffix(name, ").WithLabelValues") || strings.HasSuffix(name, ").With")) {
				return
			}
			n++
			c.touch(homeFn(fn))
			for _, e := range varargElems(call.Call.Args[len(call.Call.Args)-1]) {
				roots := p.resolveParamRoots(flowRoots(e, nil), 0)
				for _, r := range roots {
					if isContent(r) {
						bad++
						c.bad("metrics label in "+shortFn(homeFn(fn)), c.at(in), "a label value is made of bytes read from a connection ("+expr(r)+"): prometheus panics on label values that are not valid UTF-8, and a client chooses the bytes of its command name - a well-framed request with an unsupported, non-UTF-8 name kills the proxy (the event loop has no recover)")
					}
				}
			}
		})
	}
	c.examined(n)
	if bad == 0 {
		c.check(n >= 1, "no metrics label is made of connection bytes", "-", fmt.Sprintf("%d labelled metric updates examined", n), "no labelled metric update found")
	}
}

func ruleC14_11(c *Ctx) {
	p := c.P
	nn := c.needMethod(pkgCore, "ClusterNodes", "newClusterNode")
	parseSlot := c.needMethod(pkgCore, "ClusterNode", "parseSlot")
	if nn == nil || parseSlot == nil {
		return
	}
	c.examined(len(nn.Blocks))
	n := 0
	for _, ps := range p.callsIn(nn, parseSlot) {
		n++
		// guards of the parse: a test of the column's first character / prefix against "["
		okG := false
		col := strip(ps.Common().Args[len(ps.Common().Args)-1])
		for _, g := range guardsOf(ps) {
			if g.Truth {
				continue
			}
			if call, ok := g.Cond.(*ssa.Call); ok && staticCalleeName(&call.Call) == "strings.HasPrefix" {
				if s, isS := constString(call.Call.Args[1]); isS && s == "[" && expr(strip(call.Call.Args[0])) == expr(col) {
					okG = true
				}
			}
			if x, op, y, isC := cmpGuard(Guard{Cond: g.Cond, Truth: true}); isC && op == token.EQL {
				if k, isK := constInt(y); isK && k == '[' && strings.Contains(expr(x), expr(col)) {
					okG = true
				}
			}
		}
		c.check(okG, "newClusterNode: open-slot markers skipped", c.at(ps), "parseSlot only on columns that do not start with '['",
			"a slot column is parsed without having been tested for the opening bracket of an open-slot marker: `[slot-<-node]` (importing) - or `[slot->-node]` (migrating) - reaches parseSlot, fails, and the whole line of that master is discarded, so during a resharding its slots become unclaimed and its pool is closed whenever the probe is answered by that node", withGuards(guardsOf(ps)))
	}
	if n == 0 {
		c.undecided("newClusterNode: slot columns", p.pos(nn.Pos()), "no call of parseSlot found")
	}
}

func ruleC15_9(c *Ctx) {
	p := c.P
	cl := c.needMethod(pkgCore, "Pool", "Close")
	if cl == nil {
		return
	}
	sites := p.SitesOf(cl)
	c.examined(len(sites))
	n := 0
	for _, s := range sites {
		if s.Fn.Synthetic != "" || skipPkgStrict(s.Fn) {
			continue
		}
		n++
		home := homeFn(s.Fn)
		c.touch(home)
		// allowed: the ticker removing a node that left the topology (the pool is deleted from ProxyPool next), engine shutdown
		name := shortFn(home)
		ok := strings.Contains(name, "ticker") || strings.Contains(name, "stop") || strings.Contains(name, "Stop") || strings.Contains(name, "closeAllSockets") || strings.Contains(name, "serve")
		if ok && strings.Contains(name, "ticker") {
			// followed by the removal from the pool table
			ok = false
			pathFrom(s.Instr, func(in ssa.Instruction) bool {
				if call, isC := in.(*ssa.Call); isC {
					if b, isB := call.Call.Value.(*ssa.Builtin); isB && b.Name() == "delete" {
						ok = true
						return true
					}
				}
				return false
			})
		}
		c.check(ok, "Pool.Close in "+name, c.at(s.Instr), "the pool leaves the table (node gone) or the engine stops",
			"Pool.Close marks the pool closed for good (Get returns nil from then on) and is called where the pool stays in use: after a role change the ticker keeps the same Pool object for as long as the node is in the topology, so every later request for that node's slots is refused although the node is up")
	}
	if n == 0 {
		c.undecided("Pool.Close call sites", "-", "none found")
	}
}

func ruleC17_8(c *Ctx) {
	p := c.P
	n := 0
	for _, typ := range []string{"CRespCodec", "SRespCodec"} {
		f := p.Field(pkgCore, typ, "MsgMaxLength")
		if f == nil {
			continue
		}
		for _, fn := range p.Funcs {
			if fn.Synthetic != "" || fn.Blocks == nil {
				continue
			}
			for _, rd := range fieldReads(fn, f, true) {
				n++
				c.touch(homeFn(fn))
				v, _ := rd.(ssa.Value)
				okUse := true
				why := ""
				refs := v.Referrers()
				if refs != nil {
					for _, r := range *refs {
						bo, isB := r.(*ssa.BinOp)
						if !isB {
							if _, isStore := r.(*ssa.Store); isStore {
								continue // copied into the other codec's limit (serve)
							}
							if _, isDbg := r.(*ssa.DebugRef); isDbg {
								continue
							}
							continue
						}
						other := bo.X
						if other == v {
							other = bo.Y
						}
						o := strip(other)
						isBytes := false
						if call, ok := o.(*ssa.Call); ok {
							if b, ok := call.Call.Value.(*ssa.Builtin); ok && b.Name() == "len" {
								isBytes = true
							}
							if strings.Contains(staticCalleeName(&call.Call), "Size") {
								isBytes = true
							}
						}
						if prm, ok := o.(*ssa.Parameter); ok && strings.Contains(strings.ToLower(fn.Name()), "toolarge") {
							_ = prm
							isBytes = true
						}
						if k, ok := constInt(o); ok && k == 0 {
							isBytes = true // `limit > 0` style enablement test
						}
						if !isBytes {
							okUse, why = false, expr(other)
						}
					}
				}
				c.check(okUse, "MsgMaxLength read in "+shortFn(homeFn(fn)), c.at(rd), "compared with a byte count",
					"the byte limit MsgMaxLength is compared with "+why+", which is not a number of bytes (e.g. the announced element count of a request): a well-formed request with more elements than the byte limit is judged invalid RESP - the client is disconnected and everything pipelined behind it is lost - instead of being answered 'request too large'")
			}
		}
	}
	c.examined(n)
	if n < 2 {
		c.undecided("MsgMaxLength reads", "-", fmt.Sprintf("%d found (sizeTooLarge of both codecs expected)", n))
	}
}

func ruleC18_5(c *Ctx) {
	p := c.P
	pa := c.needMethod(pkgAuthIP, "AuthIp", "parseAuthIp")
	if pa == nil {
		return
	}
	c.examined(len(pa.Blocks))
	// the file read: ioutil.ReadFile / os.ReadFile / os.Open of the configured name
	var reads []ssa.Instruction
	p.allInstrsDeep(pa, func(in ssa.Instruction) {
		if call, ok := in.(*ssa.Call); ok {
			switch staticCalleeName(&call.Call) {
			case "io/ioutil.ReadFile", "os.ReadFile", "os.Open":
				if li := lift(in, pa); li != nil {
					reads = append(reads, li)
				}
			}
		}
	})
	if len(reads) == 0 {
		c.undecided("parseAuthIp: file read", p.pos(pa.Pos()), "no ReadFile/Open found")
		return
	}
	// every return of nil is preceded by a read
	okAll, where := true, ""
	for _, r := range returnsReachable(pa) {
		rs := results(r.(*ssa.Return))
		if len(rs) == 0 || !isNilConst(rs[len(rs)-1]) {
			continue
		}
		dom := false
		for _, rd := range reads {
			if dominatesInstr(rd, r) {
				dom = true
			}
		}
		if !dom {
			okAll, where = false, c.at(r)
		}
	}
	c.check(okAll, "parseAuthIp: every successful reload read the file", c.at(reads[0]), "the file read dominates every `return nil`",
		"parseAuthIp can return success without having read the file (at "+where+": e.g. a 'not modified since the last load' shortcut on the file's mtime): a file put in place by rename with an older or equal timestamp (restore from backup, rsync -a, cp -p) is never loaded - removed addresses stay admitted and added ones stay refused")
}

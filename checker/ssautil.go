package main

// Shared SSA machinery: callee resolution (E2), CFG path queries (E3), guard extraction (E4),
// canonical expressions for structural equality (go/ssa performs no CSE) and value flow (E8).

import (
	"fmt"
	"go/constant"
	"go/token"
	"go/types"
	"sort"
	"strings"

	"golang.org/x/tools/go/ssa"
)

// ---------------------------------------------------------------------------------------------
// instructions, positions inside blocks

func instrIndex(in ssa.Instruction) int {
	for i, x := range in.Block().Instrs {
		if x == in {
			return i
		}
	}
	return -1
}

func allInstrs(fn *ssa.Function, f func(ssa.Instruction)) {
	for _, b := range fn.Blocks {
		for _, in := range b.Instrs {
			f(in)
		}
	}
}

// withClosures visits fn and every anonymous function nested in it.
func withClosures(fn *ssa.Function, f func(*ssa.Function)) {
	f(fn)
	for _, a := range fn.AnonFuncs {
		withClosures(a, f)
	}
}

// outermost returns the declared function that (transitively) encloses fn.
func outermost(fn *ssa.Function) *ssa.Function {
	for fn.Parent() != nil {
		fn = fn.Parent()
	}
	return fn
}

// ---------------------------------------------------------------------------------------------
// callee resolution

// calleesOf returns the functions a call may invoke: the static callee, or - for interface method
// calls - the method of every named type declared in the module that implements the interface
// (class-hierarchy resolution restricted to the module; CConn/SConn/EventHandler have one
// implementation each outside tests, which rule X00 asserts). dynamic reports a call through a
// function value that could not be resolved.
func (p *Prog) calleesOf(c *ssa.CallCommon) (fns []*ssa.Function, dynamic bool) {
	if c.IsInvoke() {
		// interfaces declared outside the module (io.Writer, error, llrb.Item, …) are not resolved to
		// module types: rule X00 asserts that no connection or handler value is converted to one
		if !p.moduleInterface(c.Value.Type()) {
			return nil, false
		}
		return p.implementers(c.Value.Type(), c.Method), false
	}
	if f := c.StaticCallee(); f != nil {
		return []*ssa.Function{f}, false
	}
	if _, ok := c.Value.(*ssa.Builtin); ok {
		return nil, false
	}
	// function value: follow simple cases (a bound method closure or closure literal held in a cell)
	switch v := unwrapCell(c.Value).(type) {
	case *ssa.MakeClosure:
		if f, ok := v.Fn.(*ssa.Function); ok {
			return []*ssa.Function{f}, false
		}
	case *ssa.Function:
		return []*ssa.Function{v}, false
	}
	return nil, true
}

// moduleInterface reports whether t is a named interface type declared in the module.
func (p *Prog) moduleInterface(t types.Type) bool {
	n, ok := t.(*types.Named)
	if !ok || n.Obj().Pkg() == nil {
		return false
	}
	_, own := p.Pkgs[n.Obj().Pkg().Path()]
	return own
}

func (p *Prog) implementers(recv types.Type, m *types.Func) []*ssa.Function {
	key := recv.String() + "." + m.Name()
	if r, ok := p.implCache[key]; ok {
		return r
	}
	iface, _ := recv.Underlying().(*types.Interface)
	var out []*ssa.Function
	if iface != nil {
		var paths []string
		for path := range p.Pkgs {
			paths = append(paths, path)
		}
		sort.Strings(paths)
		for _, path := range paths {
			sc := p.Pkgs[path].Types.Scope()
			for _, name := range sc.Names() {
				tn, ok := sc.Lookup(name).(*types.TypeName)
				if !ok || tn.IsAlias() {
					continue
				}
				if _, isIface := tn.Type().Underlying().(*types.Interface); isIface {
					continue
				}
				for _, t := range []types.Type{tn.Type(), types.NewPointer(tn.Type())} {
					if !types.Implements(t, iface) {
						continue
					}
					sel := p.SSA.MethodSets.MethodSet(t).Lookup(m.Pkg(), m.Name())
					if sel == nil {
						continue
					}
					if f := p.SSA.MethodValue(sel); f != nil {
						// a promoted method is reached through a wrapper; report the declared method
						out = append(out, p.declared(f))
					}
					break
				}
			}
		}
	}
	p.implCache[key] = out
	return out
}

// declared maps a synthetic wrapper (promotion wrapper, bound-method closure, thunk) to the declared
// method it forwards to.
func (p *Prog) declared(f *ssa.Function) *ssa.Function {
	if f.Synthetic == "" || f.Object() == nil {
		return f
	}
	if fn, ok := f.Object().(*types.Func); ok {
		if d := p.SSA.FuncValue(fn); d != nil {
			return d
		}
	}
	return f
}

// Site is a place where a function is called or taken as a value.
type Site struct {
	Fn     *ssa.Function   // enclosing function (may be a closure)
	Instr  ssa.Instruction // the call / go / defer / MakeClosure / other referencing instruction
	Call   *ssa.CallCommon // nil for a pure reference (method value, function value)
	Kind   string          // "call", "invoke", "go", "defer", "ref"
	Target *ssa.Function
}

func (p *Prog) buildRefs() {
	if p.refBuilt {
		return
	}
	p.refBuilt = true
	p.refCache = map[*ssa.Function][]Site{}
	add := func(t *ssa.Function, s Site) {
		t = p.declared(t)
		s.Target = t
		p.refCache[t] = append(p.refCache[t], s)
	}
	for _, fn := range p.Funcs {
		if fn.Synthetic != "" {
			continue // wrappers are represented by the references that create them
		}
		for _, b := range fn.Blocks {
			for _, in := range b.Instrs {
				var cc *ssa.CallCommon
				kind := ""
				switch x := in.(type) {
				case *ssa.Call:
					cc, kind = &x.Call, "call"
				case *ssa.Go:
					cc, kind = &x.Call, "go"
				case *ssa.Defer:
					cc, kind = &x.Call, "defer"
				}
				if cc != nil {
					if cc.IsInvoke() {
						kind = "invoke"
					}
					fns, _ := p.calleesOf(cc)
					for _, t := range fns {
						add(t, Site{Fn: fn, Instr: in, Call: cc, Kind: kind})
					}
				}
				// references to functions as values (operands other than the call target)
				var ops []*ssa.Value
				ops = in.Operands(ops)
				for i, op := range ops {
					if op == nil || *op == nil {
						continue
					}
					if cc != nil && i == 0 && !cc.IsInvoke() {
						// operand 0 of a call instruction is the callee itself
						if _, isFn := (*op).(*ssa.Function); isFn {
							continue
						}
					}
					switch v := (*op).(type) {
					case *ssa.Function:
						if mc, ok := in.(*ssa.MakeClosure); ok && mc.Fn == v {
							// closure creation: the reference is the MakeClosure itself; for a
							// bound-method closure that is a reference to the method
							if v.Synthetic != "" {
								add(v, Site{Fn: fn, Instr: in, Kind: "ref"})
							}
							continue
						}
						add(v, Site{Fn: fn, Instr: in, Kind: "ref"})
					}
				}
			}
		}
	}
}

// SitesOf lists every call of and reference to target in the module (non-test code).
func (p *Prog) SitesOf(target *ssa.Function) []Site {
	p.buildRefs()
	s := p.refCache[p.declared(target)]
	out := make([]Site, len(s))
	copy(out, s)
	sort.Slice(out, func(i, j int) bool {
		if fnKey(out[i].Fn) != fnKey(out[j].Fn) {
			return fnKey(out[i].Fn) < fnKey(out[j].Fn)
		}
		return out[i].Instr.Pos() < out[j].Instr.Pos()
	})
	return out
}

// callsIn lists the call instructions of fn whose possible callees include target.
func (p *Prog) callsIn(fn *ssa.Function, target *ssa.Function) []ssa.CallInstruction {
	var out []ssa.CallInstruction
	if fn == nil || target == nil {
		return nil
	}
	target = p.declared(target)
	p.allInstrsDeep(fn, func(in ssa.Instruction) {
		ci, ok := in.(ssa.CallInstruction)
		if !ok {
			return
		}
		fns, _ := p.calleesOf(ci.Common())
		for _, f := range fns {
			if p.declared(f) == target {
				out = append(out, ci)
				return
			}
		}
	})
	return out
}

// callsTo is callsIn for a set of targets.
func (p *Prog) callsToAny(fn *ssa.Function, targets ...*ssa.Function) []ssa.CallInstruction {
	var out []ssa.CallInstruction
	for _, t := range targets {
		if t != nil {
			out = append(out, p.callsIn(fn, t)...)
		}
	}
	sort.Slice(out, func(i, j int) bool { return out[i].Pos() < out[j].Pos() })
	return out
}

// isCallTo reports whether v is the result of a call whose callee is (or may be) target.
func (p *Prog) isCallTo(v ssa.Value, target *ssa.Function) (*ssa.Call, bool) {
	c, ok := v.(*ssa.Call)
	if !ok || target == nil {
		return nil, false
	}
	fns, _ := p.calleesOf(&c.Call)
	for _, f := range fns {
		if p.declared(f) == p.declared(target) {
			return c, true
		}
	}
	return nil, false
}

// staticCalleeName returns "pkgpath.Name" for calls to functions outside the module (strings.Index…).
func staticCalleeName(c *ssa.CallCommon) string {
	if c.IsInvoke() {
		return "invoke:" + c.Method.FullName()
	}
	if f := c.StaticCallee(); f != nil {
		if f.Object() != nil {
			if fo, ok := f.Object().(*types.Func); ok {
				return fo.FullName()
			}
		}
		return f.String()
	}
	if b, ok := c.Value.(*ssa.Builtin); ok {
		return "builtin:" + b.Name()
	}
	return ""
}

// ---------------------------------------------------------------------------------------------
// cells: locals captured by closures are lowered to heap cells (new T), every use a load

// cellStores returns the stores to an Alloc made in its own function and in nested closures.
func cellStores(a *ssa.Alloc) []*ssa.Store {
	var out []*ssa.Store
	var visit func(v ssa.Value)
	seen := map[ssa.Value]bool{}
	visit = func(v ssa.Value) {
		if seen[v] {
			return
		}
		seen[v] = true
		refs := v.Referrers()
		if refs == nil {
			return
		}
		for _, r := range *refs {
			switch x := r.(type) {
			case *ssa.Store:
				if x.Addr == v {
					out = append(out, x)
				}
			case *ssa.MakeClosure:
				// the cell is a free variable of the closure: find the matching FreeVar
				if fn, ok := x.Fn.(*ssa.Function); ok {
					for i, b := range x.Bindings {
						if b == v && i < len(fn.FreeVars) {
							visit(fn.FreeVars[i])
						}
					}
				}
			}
		}
	}
	visit(a)
	return out
}

// unwrapCell sees through a load of a cell that has exactly one store: the stored value.
func unwrapCell(v ssa.Value) ssa.Value {
	for i := 0; i < 8; i++ {
		u, ok := v.(*ssa.UnOp)
		if !ok || u.Op != token.MUL {
			return v
		}
		a, ok := u.X.(*ssa.Alloc)
		if !ok {
			// an element of a local array literal (`pair := [2]string{k, val}; … pair[0]`): its single store
			if ia, isIA := u.X.(*ssa.IndexAddr); isIA {
				if arr, isA := ia.X.(*ssa.Alloc); isA {
					if val, okE := localArrayElem(arr, ia.Index); okE {
						v = val
						continue
					}
				}
			}
			return v
		}
		st := cellStores(a)
		if len(st) != 1 {
			return v
		}
		v = st[0].Val
	}
	return v
}

// strip removes value-preserving conversions and single-store cells.
func strip(v ssa.Value) ssa.Value {
	for i := 0; i < 16; i++ {
		switch x := v.(type) {
		case *ssa.ChangeType:
			v = x.X
		case *ssa.ChangeInterface:
			v = x.X
		case *ssa.MakeInterface:
			v = x.X
		case *ssa.UnOp:
			w := unwrapCell(v)
			if w == v {
				return v
			}
			v = w
		case *ssa.Parameter:
			b, ok := boundParam(x)
			if !ok {
				return v
			}
			v = b
		case *ssa.Call:
			a, ok := accessorValue(x)
			if !ok {
				return v
			}
			v = a
		default:
			return v
		}
	}
	return v
}

// ---------------------------------------------------------------------------------------------
// canonical expressions

type exprCtx struct {
	depth int
	seen  map[ssa.Value]bool
}

// expr renders an SSA value as a canonical string: two values with the same string are computed by
// the same expression over parameters, globals, fields and constants (modulo the purity of calls).
func expr(v ssa.Value) string {
	return (&exprCtx{seen: map[ssa.Value]bool{}}).render(v)
}

func (c *exprCtx) render(v ssa.Value) string {
	if v == nil {
		return "<nil>"
	}
	if c.depth > 24 {
		return "…"
	}
	c.depth++
	defer func() { c.depth-- }()
	switch x := v.(type) {
	case *ssa.Const:
		if x.Value == nil {
			return "nil"
		}
		if x.Value.Kind() == constant.String {
			return fmt.Sprintf("%q", constant.StringVal(x.Value))
		}
		return x.Value.ExactString()
	case *ssa.Parameter:
		if b, ok := boundParam(x); ok && !c.seen[x] {
			c.seen[x] = true
			r := c.render(b)
			delete(c.seen, x)
			return r
		}
		for i, p := range x.Parent().Params {
			if p == x {
				return fmt.Sprintf("param%d<%s>", i, x.Name())
			}
		}
		return "param<" + x.Name() + ">"
	case *ssa.FreeVar:
		return "free<" + x.Name() + ">"
	case *ssa.Global:
		return x.Pkg.Pkg.Path() + "." + x.Name()
	case *ssa.Function:
		return "func<" + fnKey(x) + ">"
	case *ssa.Builtin:
		return "builtin<" + x.Name() + ">"
	case *ssa.Alloc:
		st := cellStores(x)
		if len(st) == 1 {
			return "&cell(" + c.render(st[0].Val) + ")"
		}
		return "&local<" + x.Comment + ">"
	case *ssa.UnOp:
		if x.Op == token.MUL {
			if a, ok := x.X.(*ssa.Alloc); ok {
				st := cellStores(a)
				if len(st) == 1 {
					return c.render(st[0].Val)
				}
				return "local<" + a.Comment + ">"
			}
			if fa, ok := x.X.(*ssa.FieldAddr); ok {
				return c.render(fa.X) + "." + fieldName(fa.X.Type(), fa.Field)
			}
			if ia, ok := x.X.(*ssa.IndexAddr); ok {
				return c.render(ia.X) + "[" + c.render(ia.Index) + "]"
			}
			return "*" + c.render(x.X)
		}
		return x.Op.String() + c.render(x.X)
	case *ssa.FieldAddr:
		return "&" + c.render(x.X) + "." + fieldName(x.X.Type(), x.Field)
	case *ssa.Field:
		return c.render(x.X) + "." + fieldName(x.X.Type(), x.Field)
	case *ssa.IndexAddr:
		return "&" + c.render(x.X) + "[" + c.render(x.Index) + "]"
	case *ssa.Index:
		return c.render(x.X) + "[" + c.render(x.Index) + "]"
	case *ssa.Lookup:
		return c.render(x.X) + "[" + c.render(x.Index) + "]"
	case *ssa.BinOp:
		return "(" + c.render(x.X) + " " + x.Op.String() + " " + c.render(x.Y) + ")"
	case *ssa.Call:
		if a, ok := accessorValue(x); ok && !c.seen[x] {
			c.seen[x] = true
			r := c.render(a)
			delete(c.seen, x)
			return r
		}
		return c.renderCall(&x.Call)
	case *ssa.Extract:
		return c.render(x.Tuple) + "#" + fmt.Sprint(x.Index)
	case *ssa.Phi:
		if c.seen[x] {
			return "phi<" + x.Comment + ">"
		}
		c.seen[x] = true
		var parts []string
		for _, e := range x.Edges {
			parts = append(parts, c.render(e))
		}
		delete(c.seen, x)
		sort.Strings(parts)
		return "phi<" + x.Comment + ">(" + strings.Join(parts, "|") + ")"
	case *ssa.Slice:
		lo, hi := "", ""
		if x.Low != nil {
			lo = c.render(x.Low)
		}
		if x.High != nil {
			hi = c.render(x.High)
		}
		return c.render(x.X) + "[" + lo + ":" + hi + "]"
	case *ssa.Convert:
		return "conv<" + x.Type().String() + ">(" + c.render(x.X) + ")"
	case *ssa.ChangeType:
		return c.render(x.X)
	case *ssa.ChangeInterface:
		return c.render(x.X)
	case *ssa.MakeInterface:
		return c.render(x.X)
	case *ssa.TypeAssert:
		return c.render(x.X) + ".(" + x.AssertedType.String() + ")"
	case *ssa.MakeMap:
		return "makemap<" + x.Type().String() + ">"
	case *ssa.MakeSlice:
		return "makeslice<" + x.Type().String() + ">(" + c.render(x.Len) + ")"
	case *ssa.MakeClosure:
		if f, ok := x.Fn.(*ssa.Function); ok {
			return "closure<" + fnKey(f) + ">"
		}
		return "closure"
	case *ssa.Range:
		return "range(" + c.render(x.X) + ")"
	case *ssa.Next:
		return "next(" + c.render(x.Iter) + ")"
	case *ssa.SliceToArrayPointer:
		return c.render(x.X)
	}
	return fmt.Sprintf("<%T %s>", v, v.Name())
}

func (c *exprCtx) renderCall(cc *ssa.CallCommon) string {
	var args []string
	for _, a := range cc.Args {
		args = append(args, c.render(a))
	}
	if cc.IsInvoke() {
		return "invoke<" + cc.Method.Name() + ">(" + c.render(cc.Value) + strings.Join(append([]string{""}, args...), ", ") + ")"
	}
	name := staticCalleeName(cc)
	if name == "" {
		name = "dyn:" + c.render(cc.Value)
	}
	return name + "(" + strings.Join(args, ", ") + ")"
}

func fieldName(t types.Type, idx int) string {
	if p, ok := t.Underlying().(*types.Pointer); ok {
		t = p.Elem()
	}
	st, ok := t.Underlying().(*types.Struct)
	if !ok || idx >= st.NumFields() {
		return fmt.Sprintf("f%d", idx)
	}
	return st.Field(idx).Name()
}

func fieldVar(t types.Type, idx int) *types.Var {
	if p, ok := t.Underlying().(*types.Pointer); ok {
		t = p.Elem()
	}
	st, ok := t.Underlying().(*types.Struct)
	if !ok || idx >= st.NumFields() {
		return nil
	}
	return st.Field(idx)
}

// ---------------------------------------------------------------------------------------------
// pattern helpers

// fieldLoad matches a load of field f (through a pointer or from a struct value) and returns the base.
func fieldLoad(v ssa.Value, f *types.Var) (base ssa.Value, ok bool) {
	v = strip(v)
	switch x := v.(type) {
	case *ssa.UnOp:
		if x.Op != token.MUL {
			return nil, false
		}
		if fa, ok := x.X.(*ssa.FieldAddr); ok && fieldVar(fa.X.Type(), fa.Field) == f {
			return fa.X, true
		}
	case *ssa.Field:
		if fieldVar(x.X.Type(), x.Field) == f {
			return x.X, true
		}
	}
	return nil, false
}

// anyFieldLoad returns the field object when v is a load of some struct field.
func anyFieldLoad(v ssa.Value) (*types.Var, ssa.Value, bool) {
	v = strip(v)
	switch x := v.(type) {
	case *ssa.UnOp:
		if x.Op == token.MUL {
			if fa, ok := x.X.(*ssa.FieldAddr); ok {
				return fieldVar(fa.X.Type(), fa.Field), fa.X, true
			}
		}
	case *ssa.Field:
		return fieldVar(x.X.Type(), x.Field), x.X, true
	}
	return nil, nil, false
}

func constInt(v ssa.Value) (int64, bool) {
	c, ok := strip(v).(*ssa.Const)
	if !ok || c.Value == nil {
		return 0, false
	}
	if c.Value.Kind() != constant.Int {
		return 0, false
	}
	return c.Int64(), true
}

func constString(v ssa.Value) (string, bool) {
	c, ok := strip(v).(*ssa.Const)
	if !ok || c.Value == nil || c.Value.Kind() != constant.String {
		return "", false
	}
	return constant.StringVal(c.Value), true
}

func isNilConst(v ssa.Value) bool {
	c, ok := v.(*ssa.Const)
	return ok && c.Value == nil
}

// ---------------------------------------------------------------------------------------------
// guards (E4)

// Guard is a branch condition together with the outcome that holds at some program point.
type Guard struct {
	Cond  ssa.Value // the condition with leading negations removed
	Truth bool
	If    *ssa.If
}

func (g Guard) String() string {
	if g.Truth {
		return expr(g.Cond)
	}
	return "!(" + expr(g.Cond) + ")"
}

// edgeDominates reports whether every path from the entry to b goes through the CFG edge d→s.
func edgeDominates(d, s, b *ssa.BasicBlock) bool {
	if !s.Dominates(b) {
		return false
	}
	for _, pr := range s.Preds {
		if pr == d {
			continue
		}
		// another way into s is acceptable only if it comes from inside s's dominance region (a back edge)
		if !s.Dominates(pr) {
			return false
		}
	}
	return true
}

// guardsAt lists the branch outcomes that hold whenever control is in block b. The lowering of
// `a || b` / `a && b` gives the guarded block two predecessors; such a block is guarded by neither
// disjunct (sound, and exactly what rule C12.1 needs).
func guardsAt(b *ssa.BasicBlock) []Guard {
	raw := guardsAtRaw(b)
	out := append([]Guard{}, raw...)
	for _, g := range raw {
		out = append(out, boolOutcomeFacts(g.Cond, g.Truth, g.If.Block(), 0)...)
		if x, op, y, ok := cmpGuard(g); ok && (op == token.EQL || op == token.NEQ) && isNilConst(y) {
			out = append(out, nilOutcomeFacts(x, op == token.EQL)...)
		}
	}
	return out
}

func guardsAtRaw(b *ssa.BasicBlock) []Guard {
	var out []Guard
	for d := b.Idom(); d != nil; d = d.Idom() {
		n := len(d.Instrs)
		if n == 0 {
			continue
		}
		ifi, ok := d.Instrs[n-1].(*ssa.If)
		if !ok || len(d.Succs) != 2 || d.Succs[0] == d.Succs[1] {
			continue
		}
		for i, s := range d.Succs {
			if edgeDominates(d, s, b) {
				cond, truth := ifi.Cond, i == 0
				for {
					u, ok := cond.(*ssa.UnOp)
					if !ok || u.Op != token.NOT {
						break
					}
					cond, truth = u.X, !truth
				}
				out = append(out, Guard{Cond: cond, Truth: truth, If: ifi})
			}
		}
	}
	return out
}

func guardStrings(gs []Guard) []string {
	var out []string
	for _, g := range gs {
		out = append(out, g.String())
	}
	return out
}

// cmpGuard decomposes a guard whose condition is a comparison into (x, op, y) with the outcome folded
// in: a false `x < y` becomes `x >= y`.
func cmpGuard(g Guard) (x ssa.Value, op token.Token, y ssa.Value, ok bool) {
	b, isBin := g.Cond.(*ssa.BinOp)
	if !isBin {
		return nil, 0, nil, false
	}
	op = b.Op
	switch op {
	case token.EQL, token.NEQ, token.LSS, token.LEQ, token.GTR, token.GEQ:
	default:
		return nil, 0, nil, false
	}
	if !g.Truth {
		op = negateCmp(op)
	}
	return b.X, op, b.Y, true
}

func negateCmp(op token.Token) token.Token {
	switch op {
	case token.EQL:
		return token.NEQ
	case token.NEQ:
		return token.EQL
	case token.LSS:
		return token.GEQ
	case token.LEQ:
		return token.GTR
	case token.GTR:
		return token.LEQ
	case token.GEQ:
		return token.LSS
	}
	return op
}

func flipCmp(op token.Token) token.Token {
	switch op {
	case token.LSS:
		return token.GTR
	case token.LEQ:
		return token.GEQ
	case token.GTR:
		return token.LSS
	case token.GEQ:
		return token.LEQ
	}
	return op
}

// ---------------------------------------------------------------------------------------------
// CFG path queries (E3)

// reachableBlocks returns the set of blocks reachable from b by one or more edges, never entering a
// block for which stop returns true (stop blocks are neither included nor expanded).
func reachableBlocks(b *ssa.BasicBlock, stop func(*ssa.BasicBlock) bool) map[*ssa.BasicBlock]bool {
	seen := map[*ssa.BasicBlock]bool{}
	var work []*ssa.BasicBlock
	push := func(x *ssa.BasicBlock) {
		if seen[x] || (stop != nil && stop(x)) {
			return
		}
		seen[x] = true
		work = append(work, x)
	}
	for _, s := range b.Succs {
		push(s)
	}
	for len(work) > 0 {
		x := work[len(work)-1]
		work = work[:len(work)-1]
		for _, s := range x.Succs {
			push(s)
		}
	}
	return seen
}

// canReach reports whether execution can proceed from just after instruction a to instruction b.
func canReach(a, b ssa.Instruction) bool {
	if a.Parent() != b.Parent() {
		if lb := lift(b, a.Parent()); lb != nil && lb != b {
			return lb == a || canReach(a, lb)
		}
		if la := lift(a, b.Parent()); la != nil && la != a {
			return la == b || canReach(la, b)
		}
		return false
	}
	if a.Block() == b.Block() && instrIndex(a) < instrIndex(b) {
		return true
	}
	return reachableBlocks(a.Block(), nil)[b.Block()]
}

// pathFrom explores every path that starts right after instruction `from`. visit is called for each
// instruction met; it returns true to cut the path there (the instruction "absorbs" the path).
// pathFrom returns the instructions at which an uncut path reached a Return or Panic.
func pathFrom(from ssa.Instruction, visit func(ssa.Instruction) bool) []ssa.Instruction {
	var exits []ssa.Instruction
	seen := map[*ssa.BasicBlock]bool{}
	var walk func(b *ssa.BasicBlock, start int)
	walk = func(b *ssa.BasicBlock, start int) {
		for i := start; i < len(b.Instrs); i++ {
			in := b.Instrs[i]
			if visit(in) {
				return
			}
			switch in.(type) {
			case *ssa.Return, *ssa.Panic:
				exits = append(exits, in)
				return
			}
		}
		for _, s := range b.Succs {
			if !seen[s] {
				seen[s] = true
				walk(s, 0)
			}
		}
	}
	walk(from.Block(), instrIndex(from)+1)
	return exits
}

// pathFromEntry is pathFrom starting at the function entry.
func pathFromEntry(fn *ssa.Function, visit func(ssa.Instruction) bool) []ssa.Instruction {
	var exits []ssa.Instruction
	seen := map[*ssa.BasicBlock]bool{fn.Blocks[0]: true}
	var walk func(b *ssa.BasicBlock)
	walk = func(b *ssa.BasicBlock) {
		for _, in := range b.Instrs {
			if visit(in) {
				return
			}
			switch in.(type) {
			case *ssa.Return, *ssa.Panic:
				exits = append(exits, in)
				return
			}
		}
		for _, s := range b.Succs {
			if !seen[s] {
				seen[s] = true
				walk(s)
			}
		}
	}
	walk(fn.Blocks[0])
	return exits
}

// dominatesInstr: a executes before b on every path that reaches b.
func dominatesInstr(a, b ssa.Instruction) bool {
	if a.Parent() != b.Parent() {
		// one of them sits in a helper of the other's function: compare at the call site
		if lb := lift(b, a.Parent()); lb != nil && lb != b {
			return lb == a || dominatesInstr(a, lb)
		}
		if la := lift(a, b.Parent()); la != nil && la != a {
			return onEveryPath(a) && (la == b || dominatesInstr(la, b))
		}
		return false
	}
	if a.Block() == b.Block() {
		return instrIndex(a) < instrIndex(b)
	}
	return a.Block().Dominates(b.Block())
}

// Loop is a natural loop.
type Loop struct {
	Header *ssa.BasicBlock
	Blocks map[*ssa.BasicBlock]bool
}

func loopsOf(fn *ssa.Function) []*Loop {
	byHeader := map[*ssa.BasicBlock]*Loop{}
	var order []*ssa.BasicBlock
	for _, b := range fn.Blocks {
		for _, s := range b.Succs {
			if s.Dominates(b) { // back edge b→s
				l := byHeader[s]
				if l == nil {
					l = &Loop{Header: s, Blocks: map[*ssa.BasicBlock]bool{s: true}}
					byHeader[s] = l
					order = append(order, s)
				}
				// all blocks that reach b without passing s
				work := []*ssa.BasicBlock{b}
				for len(work) > 0 {
					x := work[len(work)-1]
					work = work[:len(work)-1]
					if l.Blocks[x] {
						continue
					}
					l.Blocks[x] = true
					work = append(work, x.Preds...)
				}
			}
		}
	}
	var out []*Loop
	for _, h := range order {
		out = append(out, byHeader[h])
	}
	return out
}

// innermostLoop returns the smallest loop containing b, or nil.
func innermostLoop(loops []*Loop, b *ssa.BasicBlock) *Loop {
	var best *Loop
	for _, l := range loops {
		if l.Blocks[b] && (best == nil || len(l.Blocks) < len(best.Blocks)) {
			best = l
		}
	}
	return best
}

// exitsOf lists the CFG edges leaving the loop.
func (l *Loop) exitEdges() [][2]*ssa.BasicBlock {
	var out [][2]*ssa.BasicBlock
	for b := range l.Blocks {
		for _, s := range b.Succs {
			if !l.Blocks[s] {
				out = append(out, [2]*ssa.BasicBlock{b, s})
			}
		}
	}
	sort.Slice(out, func(i, j int) bool {
		if out[i][0].Index != out[j][0].Index {
			return out[i][0].Index < out[j][0].Index
		}
		return out[i][1].Index < out[j][1].Index
	})
	return out
}

// ---------------------------------------------------------------------------------------------
// stores to struct fields (E2)

// FieldWrite is a store to a struct field, or an update through it (map update, element store).
type FieldWrite struct {
	Fn    *ssa.Function
	Instr ssa.Instruction
	Base  ssa.Value // the struct (pointer) whose field is written
	Val   ssa.Value // stored value (nil for map/element updates: see Key/Elem)
	Kind  string    // "store", "mapupdate", "elemstore"
	Key   ssa.Value
}

// fieldWrites enumerates, over the whole module, the stores to field f, the map updates on a map loaded
// from f, and element stores into a slice/array loaded from f.
func (p *Prog) fieldWrites(f *types.Var) []FieldWrite {
	var out []FieldWrite
	for _, fn := range p.Funcs {
		if fn.Synthetic != "" {
			continue
		}
		allInstrs(fn, func(in ssa.Instruction) {
			switch x := in.(type) {
			case *ssa.Store:
				if fa, ok := x.Addr.(*ssa.FieldAddr); ok && fieldVar(fa.X.Type(), fa.Field) == f {
					out = append(out, FieldWrite{Fn: fn, Instr: in, Base: fa.X, Val: x.Val, Kind: "store"})
				}
				if ia, ok := x.Addr.(*ssa.IndexAddr); ok {
					if base, ok := fieldLoad(ia.X, f); ok {
						out = append(out, FieldWrite{Fn: fn, Instr: in, Base: base, Val: x.Val, Kind: "elemstore", Key: ia.Index})
					}
				}
			case *ssa.MapUpdate:
				if base, ok := fieldLoad(x.Map, f); ok {
					out = append(out, FieldWrite{Fn: fn, Instr: in, Base: base, Val: x.Value, Kind: "mapupdate", Key: x.Key})
				}
			}
		})
	}
	sort.Slice(out, func(i, j int) bool {
		if fnKey(out[i].Fn) != fnKey(out[j].Fn) {
			return fnKey(out[i].Fn) < fnKey(out[j].Fn)
		}
		return out[i].Instr.Pos() < out[j].Instr.Pos()
	})
	return out
}

// fieldReads enumerates loads of field f in fn (and its closures when deep).
func fieldReads(fn *ssa.Function, f *types.Var, deep bool) []ssa.Instruction {
	var out []ssa.Instruction
	visit := func(g *ssa.Function) {
		allInstrs(g, func(in ssa.Instruction) {
			switch x := in.(type) {
			case *ssa.UnOp:
				if x.Op == token.MUL {
					if fa, ok := x.X.(*ssa.FieldAddr); ok && fieldVar(fa.X.Type(), fa.Field) == f {
						out = append(out, in)
					}
				}
			case *ssa.Field:
				if fieldVar(x.X.Type(), x.Field) == f {
					out = append(out, in)
				}
			}
		})
	}
	if deep {
		withClosures(fn, visit)
	} else {
		visit(fn)
	}
	return out
}

// ---------------------------------------------------------------------------------------------
// value flow (E8)

// flowRoots follows v backwards through value-preserving or value-carrying instructions (phi, slice,
// conversion, extract, append, single-store cells, loads of multi-store cells via their stores) and
// returns the values at which the walk stops. through decides, for a call, which arguments carry
// into the result (nil: a call is a root).
func flowRoots(v ssa.Value, through func(c *ssa.Call) []ssa.Value) []ssa.Value {
	seen := map[ssa.Value]bool{}
	var roots []ssa.Value
	var walk func(ssa.Value)
	walk = func(v ssa.Value) {
		if v == nil || seen[v] {
			return
		}
		seen[v] = true
		switch x := v.(type) {
		case *ssa.Phi:
			for _, e := range x.Edges {
				walk(e)
			}
		case *ssa.Slice:
			walk(x.X)
		case *ssa.Convert:
			walk(x.X)
		case *ssa.ChangeType:
			walk(x.X)
		case *ssa.ChangeInterface:
			walk(x.X)
		case *ssa.MakeInterface:
			walk(x.X)
		case *ssa.Extract:
			// extract of a call result: the call is the carrier; components of next/lookup/select tuples stay roots
			if _, isCall := x.Tuple.(*ssa.Call); isCall {
				walk(x.Tuple)
			} else {
				roots = append(roots, v)
			}
		case *ssa.UnOp:
			if x.Op == token.MUL {
				if a, ok := x.X.(*ssa.Alloc); ok {
					st := cellStores(a)
					if len(st) > 0 {
						for _, s := range st {
							walk(s.Val)
						}
						return
					}
				}
				// a field of a local struct (`got := f(); … got.conn`): what was stored into that field, and what was
				// stored into the struct as a whole (the carrier: a call, another local struct)
				if fa, ok := x.X.(*ssa.FieldAddr); ok {
					if a, ok := fa.X.(*ssa.Alloc); ok {
						if fs, ws, okc := localStructStores(a, fa.Field); okc && len(fs)+len(ws) > 0 {
							for _, s := range fs {
								walk(s.Val)
							}
							for _, s := range ws {
								if ld, isLoad := s.Val.(*ssa.UnOp); isLoad && ld.Op == token.MUL {
									if b, isA := ld.X.(*ssa.Alloc); isA {
										// whole copy of another local struct: the same field of that one
										if fs2, ws2, ok2 := localStructStores(b, fa.Field); ok2 {
											for _, s2 := range fs2 {
												walk(s2.Val)
											}
											for _, s2 := range ws2 {
												walk(s2.Val)
											}
											continue
										}
									}
								}
								walk(s.Val)
							}
							return
						}
					}
				}
			}
			roots = append(roots, v)
		case *ssa.Call:
			if b, ok := x.Call.Value.(*ssa.Builtin); ok && b.Name() == "append" {
				for _, a := range x.Call.Args {
					walk(a)
				}
				return
			}
			if through != nil {
				if args := through(x); args != nil {
					for _, a := range args {
						walk(a)
					}
					return
				}
			}
			roots = append(roots, v)
		default:
			roots = append(roots, v)
		}
	}
	walk(v)
	return roots
}

func rootStrings(rs []ssa.Value) []string {
	var out []string
	for _, r := range rs {
		out = append(out, expr(r))
	}
	sort.Strings(out)
	return out
}

// results returns the operands of a Return, seeing through the spill that go/ssa inserts in functions
// with defers (results are stored to locals before `rundefers` and re-loaded for the Return).
func results(r *ssa.Return) []ssa.Value {
	out := make([]ssa.Value, len(r.Results))
	b := r.Block()
	idx := instrIndex(r)
	for i, v := range r.Results {
		out[i] = v
		u, ok := v.(*ssa.UnOp)
		if !ok || u.Op != token.MUL {
			continue
		}
		a, ok := u.X.(*ssa.Alloc)
		if !ok || a.Heap {
			// named results captured by closures are heap cells: use the last store in this block if any
			if !ok {
				continue
			}
		}
		for j := idx - 1; j >= 0; j-- {
			if st, ok := b.Instrs[j].(*ssa.Store); ok && st.Addr == ssa.Value(a) {
				out[i] = st.Val
				break
			}
		}
	}
	return out
}

// feasiblePaths enumerates the acyclic block paths from `from` to a block accepted by `stop` (the path
// ends there). Branches are pruned when their outcome is fixed by the path itself: the same condition
// decided earlier on the path, or a condition that is a phi of boolean constants (a flag such as
// `allOk := true; for … { if bad { allOk = false; break } }; if allOk {…}`) whose value follows from the
// predecessor through which the phi's block was entered.
func feasiblePaths(from *ssa.BasicBlock, stop func(*ssa.BasicBlock) bool, limit int) ([][]*ssa.BasicBlock, bool) {
	var out [][]*ssa.BasicBlock
	complete := true
	var path []*ssa.BasicBlock
	onPath := map[*ssa.BasicBlock]bool{}
	facts := map[string]bool{}
	phiValue := func(ph *ssa.Phi) (bool, bool) {
		pb := ph.Block()
		for i := len(path) - 1; i > 0; i-- {
			if path[i] == pb {
				for k, pr := range pb.Preds {
					if pr == path[i-1] {
						if cst, ok := ph.Edges[k].(*ssa.Const); ok && cst.Value != nil {
							return constBoolValue(cst), true
						}
						if inner, ok := ph.Edges[k].(*ssa.Phi); ok {
							_ = inner
						}
						return false, false
					}
				}
			}
		}
		return false, false
	}
	var walk func(b *ssa.BasicBlock)
	walk = func(b *ssa.BasicBlock) {
		if len(out) >= limit {
			complete = false
			return
		}
		if onPath[b] {
			return
		}
		path = append(path, b)
		onPath[b] = true
		defer func() { path = path[:len(path)-1]; delete(onPath, b) }()
		if len(path) > 1 && stop(b) {
			out = append(out, append([]*ssa.BasicBlock{}, path...))
			return
		}
		last := b.Instrs[len(b.Instrs)-1]
		if ifi, ok := last.(*ssa.If); ok && len(b.Succs) == 2 {
			cond, flip := ifi.Cond, false
			for {
				u, ok := cond.(*ssa.UnOp)
				if !ok || u.Op != token.NOT {
					break
				}
				cond, flip = u.X, !flip
			}
			var fixed, known bool
			if ph, ok := cond.(*ssa.Phi); ok {
				fixed, known = phiValue(ph)
			}
			key := canonCondKey(cond)
			for i, s := range b.Succs {
				truth := (i == 0) != flip
				if known && fixed != truth {
					continue
				}
				if old, had := facts[key]; had && old != truth {
					continue
				}
				_, had := facts[key]
				facts[key] = truth
				walk(s)
				if !had {
					delete(facts, key)
				}
			}
			return
		}
		for _, s := range b.Succs {
			walk(s)
		}
	}
	walk(from)
	return out, complete
}

func constBoolValue(c *ssa.Const) bool { return c.Value != nil && c.Value.String() == "true" }

// feasiblePathsVia: the feasible acyclic paths that start with the edge first→second and end at a block accepted by stop.
func feasiblePathsVia(first, second *ssa.BasicBlock, stop func(*ssa.BasicBlock) bool, limit int) ([][]*ssa.BasicBlock, bool) {
	all, complete := feasiblePaths(first, stop, limit*4)
	var out [][]*ssa.BasicBlock
	for _, pa := range all {
		if len(pa) > 1 && pa[1] == second {
			out = append(out, pa)
		}
	}
	return out, complete
}

// valueOnPath resolves v along a block path: a phi is replaced by the edge value of the predecessor through
// which the path entered the phi's block (repeatedly).
func valueOnPath(v ssa.Value, path []*ssa.BasicBlock) ssa.Value {
	for i := 0; i < 8; i++ {
		ph, ok := v.(*ssa.Phi)
		if !ok {
			return v
		}
		pb := ph.Block()
		found := false
		for k := len(path) - 1; k > 0 && !found; k-- {
			if path[k] == pb {
				for e, pr := range pb.Preds {
					if pr == path[k-1] {
						v = ph.Edges[e]
						found = true
						break
					}
				}
			}
		}
		if !found {
			return v
		}
	}
	return v
}

// canonCondKey renders a branch condition canonically: `a > b` and `b < a` (likewise >= / <=) get the same key, so a path
// that decides one and later the other the opposite way is recognised as infeasible.
func canonCondKey(cond ssa.Value) string {
	if bo, ok := cond.(*ssa.BinOp); ok {
		switch bo.Op {
		case token.GTR:
			return "(" + expr(bo.Y) + " < " + expr(bo.X) + ")"
		case token.GEQ:
			return "(" + expr(bo.Y) + " <= " + expr(bo.X) + ")"
		case token.LSS:
			return "(" + expr(bo.X) + " < " + expr(bo.Y) + ")"
		case token.LEQ:
			return "(" + expr(bo.X) + " <= " + expr(bo.Y) + ")"
		}
	}
	return expr(cond)
}

// localStructStores: for a local (non-escaping) struct allocation a, the stores into its field `field` and the
// stores of a whole struct value into a. ok is false when a is used in any other way than through field addresses
// that are only loaded/stored and whole loads/stores (then nothing can be said about its contents).
func localStructStores(a *ssa.Alloc, field int) (fieldStores, wholeStores []*ssa.Store, ok bool) {
	if _, isStruct := a.Type().Underlying().(*types.Pointer).Elem().Underlying().(*types.Struct); !isStruct {
		return nil, nil, false
	}
	refs := a.Referrers()
	if refs == nil {
		return nil, nil, false
	}
	for _, r := range *refs {
		switch x := r.(type) {
		case *ssa.Store:
			if x.Addr != ssa.Value(a) {
				return nil, nil, false // the address itself is stored somewhere
			}
			wholeStores = append(wholeStores, x)
		case *ssa.UnOp:
			if x.Op != token.MUL {
				return nil, nil, false
			}
		case *ssa.FieldAddr:
			frefs := x.Referrers()
			if frefs == nil {
				return nil, nil, false
			}
			for _, fr := range *frefs {
				switch y := fr.(type) {
				case *ssa.Store:
					if y.Addr != ssa.Value(x) {
						return nil, nil, false
					}
					if x.Field == field {
						fieldStores = append(fieldStores, y)
					}
				case *ssa.UnOp:
					if y.Op != token.MUL {
						return nil, nil, false
					}
				case *ssa.DebugRef:
				default:
					return nil, nil, false
				}
			}
		case *ssa.DebugRef:
		default:
			return nil, nil, false
		}
	}
	return fieldStores, wholeStores, true
}

// retComponents returns the components of a return: the results of a multi-result function, or - for a function
// that returns one local struct built in place (`return T{a: x, b: y}`) - the value of each field at the return
// (the store that dominates it; the zero value when the literal leaves the field out).
func retComponents(r *ssa.Return) []ssa.Value {
	rs := results(r)
	if len(rs) != 1 {
		return rs
	}
	ld, ok := rs[0].(*ssa.UnOp)
	if !ok || ld.Op != token.MUL {
		return rs
	}
	a, ok := ld.X.(*ssa.Alloc)
	if !ok {
		return rs
	}
	st, ok := a.Type().Underlying().(*types.Pointer).Elem().Underlying().(*types.Struct)
	if !ok {
		return rs
	}
	out := make([]ssa.Value, st.NumFields())
	for i := 0; i < st.NumFields(); i++ {
		fs, ws, okc := localStructStores(a, i)
		if !okc || len(ws) > 0 {
			return rs
		}
		var last *ssa.Store
		for _, s := range fs {
			if dominatesInstr(s, ld) && (last == nil || dominatesInstr(last, s)) {
				last = s
			}
		}
		if last != nil {
			out[i] = last.Val
		} else if len(fs) == 0 {
			out[i] = zeroConst(st.Field(i).Type())
		} else {
			return rs // set on some paths only
		}
	}
	return out
}

func zeroConst(t types.Type) ssa.Value {
	switch u := t.Underlying().(type) {
	case *types.Basic:
		switch {
		case u.Info()&types.IsBoolean != 0:
			return ssa.NewConst(constant.MakeBool(false), t)
		case u.Info()&types.IsString != 0:
			return ssa.NewConst(constant.MakeString(""), t)
		case u.Info()&types.IsNumeric != 0:
			return ssa.NewConst(constant.MakeInt64(0), t)
		}
	}
	return ssa.NewConst(nil, t)
}

// localArrayElem: arr is a local array whose elements are only written through constant indices and never through
// an escaping pointer; returns the single value stored at constant index idx.
func localArrayElem(arr *ssa.Alloc, idx ssa.Value) (ssa.Value, bool) {
	want, ok := constInt(idx)
	if !ok {
		return nil, false
	}
	if _, isArr := arr.Type().Underlying().(*types.Pointer).Elem().Underlying().(*types.Array); !isArr {
		return nil, false
	}
	refs := arr.Referrers()
	if refs == nil {
		return nil, false
	}
	var val ssa.Value
	n := 0
	for _, r := range *refs {
		switch x := r.(type) {
		case *ssa.IndexAddr:
			k, isK := constInt(x.Index)
			er := x.Referrers()
			if er == nil {
				return nil, false
			}
			for _, rr := range *er {
				switch y := rr.(type) {
				case *ssa.Store:
					if y.Addr != ssa.Value(x) || !isK {
						return nil, false
					}
					if k == want {
						val = y.Val
						n++
					}
				case *ssa.UnOp:
				case *ssa.DebugRef:
				default:
					return nil, false
				}
			}
		case *ssa.UnOp, *ssa.DebugRef:
		case *ssa.Slice:
			return nil, false
		case *ssa.Store:
			return nil, false
		default:
			return nil, false
		}
	}
	if n != 1 {
		return nil, false
	}
	return val, true
}

package main

import (
	"fmt"
	"go/constant"
	"go/token"
	"go/types"
	"strings"

	"golang.org/x/tools/go/ssa"
)

func init() {
	rule("C06.1", "E3+E8", "Frag1/Frag2 file every key occurrence (MSET: with its own value) exactly once, at the end of the group of its slot, and record it in Keys", 10, ruleC06_1)
	rule("C06.2", "E8", "the re-encoders emit, per slot group, one command whose count and elements cover the whole group: '*' count name, then '$' len CRLF bytes CRLF per element", 12, ruleC06_2)
	rule("C06.3", "E6", "the command-name literals of the re-encoders are well-formed bulk strings of the command they serve", 3, ruleC06_3)
	rule("C06.4", "E6+E4", "arity preconditions: MGET/DEL need >= 1 key, MSET an even number >= 2 of arguments (so no group is empty and every key has its value)", 5, ruleC06_4)
}

// sliceLoop describes a `for i, v := range coll` loop over a slice or array as lowered by go/ssa.
type sliceLoop struct {
	loop  *Loop
	coll  ssa.Value // the collection ranged over
	index ssa.Value // the index value inside the body (phi+1)
}

// rangeIndexLoops recognises rangeindex loops: idx = phi(-1, idx+1); cond idx+1 < len(coll) | const.
func rangeIndexLoops(fn *ssa.Function) []sliceLoop {
	var out []sliceLoop
	for _, l := range loopsOf(fn) {
		h := l.Header
		if len(h.Instrs) == 0 {
			continue
		}
		ifi, ok := h.Instrs[len(h.Instrs)-1].(*ssa.If)
		if !ok {
			continue
		}
		cmp, ok := ifi.Cond.(*ssa.BinOp)
		if !ok || cmp.Op != token.LSS {
			continue
		}
		// classic form: for i := 0; i < len(coll); i++  -  i = phi(0, i+1), cond i < len(coll)
		if ph0, isPhi := cmp.X.(*ssa.Phi); isPhi && ph0.Block() == h {
			starts0, steps := false, false
			for _, e := range ph0.Edges {
				if k, ok := constInt(e); ok && k == 0 {
					starts0 = true
				} else if bo, ok := e.(*ssa.BinOp); ok && bo.Op == token.ADD && bo.X == ssa.Value(ph0) && isOne(bo.Y) {
					steps = true
				} else {
					starts0 = false
					break
				}
			}
			if starts0 && steps {
				if call, ok := cmp.Y.(*ssa.Call); ok {
					if b, ok := call.Call.Value.(*ssa.Builtin); ok && b.Name() == "len" {
						out = append(out, sliceLoop{loop: l, index: ph0, coll: call.Call.Args[0]})
					}
				}
			}
			continue
		}
		inc, ok := cmp.X.(*ssa.BinOp)
		if !ok || inc.Op != token.ADD || !isOne(inc.Y) {
			continue
		}
		ph, ok := inc.X.(*ssa.Phi)
		if !ok || ph.Block() != h {
			continue
		}
		startsMinus1, steps := false, false
		for _, e := range ph.Edges {
			if k, ok := constInt(e); ok && k == -1 {
				startsMinus1 = true
			}
			if e == ssa.Value(inc) {
				steps = true
			}
		}
		if !startsMinus1 || !steps {
			continue
		}
		sl := sliceLoop{loop: l, index: inc}
		// bound: len(coll) or a constant (array)
		if call, ok := cmp.Y.(*ssa.Call); ok {
			if b, ok := call.Call.Value.(*ssa.Builtin); ok && b.Name() == "len" {
				sl.coll = call.Call.Args[0]
			}
		}
		if sl.coll == nil {
			// array: find Index(arrayValue, inc) in the loop
			for b := range l.Blocks {
				for _, in := range b.Instrs {
					if ix, ok := in.(*ssa.Index); ok && ix.Index == ssa.Value(inc) {
						if at, ok := ix.X.Type().Underlying().(*types.Array); ok {
							if k, isK := constInt(cmp.Y); isK && k == at.Len() {
								sl.coll = ix.X
							}
						}
					}
				}
			}
		}
		if sl.coll != nil {
			out = append(out, sl)
		}
	}
	return out
}

// elemOf reports whether v is coll[idx] for the loop (slice: load of &coll[idx]; array value: Index).
func (sl sliceLoop) isElem(v ssa.Value) bool {
	v = strip(v)
	switch x := v.(type) {
	case *ssa.UnOp:
		if ia, ok := x.X.(*ssa.IndexAddr); ok {
			return ia.Index == sl.index && strip(ia.X) == strip(sl.coll)
		}
	case *ssa.Index:
		return x.Index == sl.index && strip(x.X) == strip(sl.coll)
	}
	return false
}

// arrayLit returns the element values of a small array built by a composite literal: *alloc with
// stores to &alloc[i].
func arrayLit(v ssa.Value) map[int64]ssa.Value {
	ld, ok := v.(*ssa.UnOp)
	if !ok || ld.Op != token.MUL {
		return nil
	}
	a, ok := ld.X.(*ssa.Alloc)
	if !ok {
		return nil
	}
	out := map[int64]ssa.Value{}
	for _, r := range *a.Referrers() {
		ia, ok := r.(*ssa.IndexAddr)
		if !ok {
			continue
		}
		k, isK := constInt(ia.Index)
		if !isK {
			return nil
		}
		for _, rr := range *ia.Referrers() {
			if st, ok := rr.(*ssa.Store); ok && st.Addr == ssa.Value(ia) {
				out[k] = st.Val
			}
		}
	}
	return out
}

// ---------------------------------------------------------------------------------------------

func ruleC06_1(c *Ctx) {
	p := c.P
	parseLine := c.needMethod(pkgCore, "CRespCodec", "parseLine")
	hash := c.need(pkgHash + ".Hash")
	keysF := p.Field(pkgCore, "Msg", "Keys")
	if parseLine == nil || hash == nil || keysF == nil {
		return
	}
	for _, spec := range []struct {
		fn    string
		field string
		k     int64
	}{{"Frag1", "Frags", 1}, {"Frag2", "Frags2", 2}} {
		fn := c.needMethod(pkgCore, "CRespCodec", spec.fn)
		f := p.Field(pkgCore, "Msg", spec.field)
		if fn == nil || f == nil {
			continue
		}
		c.examined(len(fn.Blocks))
		tag := spec.fn
		resp := fn.Params[3]
		loops := loopsOf(fn)
		pls := p.callsIn(fn, parseLine)
		if int64(len(pls)) != spec.k {
			c.bad(tag+": parseLine calls per iteration", p.pos(fn.Pos()), fmt.Sprintf("expected %d, found %d: arguments would be skipped or read twice", spec.k, len(pls)))
			continue
		}
		loop := innermostLoop(loops, pls[0].Block())
		if loop == nil {
			c.undecided(tag+": argument loop", p.pos(fn.Pos()), "parseLine is not called in a loop")
			continue
		}
		// (a) counter: phi(0, i+k), cond i < n
		okCnt := false
		if ifi, ok := loop.Header.Instrs[len(loop.Header.Instrs)-1].(*ssa.If); ok {
			if cmp, ok := ifi.Cond.(*ssa.BinOp); ok && cmp.Op == token.LSS && strip(cmp.Y) == ssa.Value(fn.Params[2]) {
				if ph, ok := cmp.X.(*ssa.Phi); ok {
					z, st := false, false
					for _, e := range ph.Edges {
						if k, ok := constInt(e); ok && k == 0 {
							z = true
						}
						if b, ok := e.(*ssa.BinOp); ok && b.Op == token.ADD && b.X == ssa.Value(ph) {
							if k, ok := constInt(b.Y); ok && k == spec.k {
								st = true
							}
						}
					}
					okCnt = z && st
				}
			}
		}
		c.check(okCnt, tag+": loop covers arguments 0..n-1 in steps of "+fmt.Sprint(spec.k), c.at(pls[0]), "for i := 0; i < n; i += k",
			"the loop over the request's arguments does not run i = 0, k, 2k, … < n: keys are skipped or an argument is read that is not there")
		// segs
		seg := func(call ssa.CallInstruction) (ssa.Value, bool) {
			var out ssa.Value
			for _, r := range *call.Value().Referrers() {
				if ex, ok := r.(*ssa.Extract); ok && ex.Index == 0 {
					for _, rr := range *ex.Referrers() {
						if cv, ok := rr.(*ssa.Convert); ok {
							out = cv
						}
					}
				}
			}
			return out, out != nil
		}
		// order the parseLine calls by dominance
		first, second := pls[0], pls[0]
		if spec.k == 2 {
			if dominatesInstr(pls[1].(ssa.Instruction), pls[0].(ssa.Instruction)) {
				first, second = pls[1], pls[0]
			} else {
				second = pls[1]
			}
		}
		keySeg, ok1 := seg(first)
		valSeg, ok2 := seg(second)
		if !ok1 || !ok2 {
			c.undecided(tag+": string(parseLine result)", c.at(first), "the conversion of the parsed argument to a string was not found")
			continue
		}
		// (c) Keys append
		var keyAppends []*ssa.Store
		okKeys := true
		// (the append may sit in a helper such as resp.addKey(key): it is looked at under this function's call site)
		p.virtualInstrs(fn, func(in ssa.Instruction) {
			st, ok := in.(*ssa.Store)
			if !ok {
				return
			}
			fa, ok := st.Addr.(*ssa.FieldAddr)
			if !ok || fieldVar(fa.X.Type(), fa.Field) != keysF || strip(fa.X) != ssa.Value(resp) {
				return
			}
			keyAppends = append(keyAppends, st)
			call, isCall := st.Val.(*ssa.Call)
			if !isCall || len(call.Call.Args) != 2 {
				okKeys = false
				return
			}
			_, base := fieldLoad(call.Call.Args[0], keysF)
			els := varargElems(call.Call.Args[1])
			at := lift(in, fn)
			if at == nil {
				at = in
			}
			if !(base && len(els) == 1 && strip(els[0]) == keySeg && loop.Blocks[at.Block()]) {
				okKeys = false
			}
			if at != in && !onEveryPath(in) {
				okKeys = false
			}
			// on every path of the iteration that reaches the back edge
			for _, pr := range loop.Header.Preds {
				if loop.Blocks[pr] && !at.Block().Dominates(pr) {
					okKeys = false
				}
			}
		})
		okKeys = okKeys && len(keyAppends) == 1
		pos := p.pos(fn.Pos())
		if len(keyAppends) > 0 {
			pos = c.at(keyAppends[0])
		}
		c.check(okKeys, tag+": Keys records each key once, in order", pos, "resp.Keys = append(resp.Keys, key) once per iteration",
			fmt.Sprintf("resp.Keys is not extended by exactly the iteration's key at its end (%d stores): the MGET reply is assembled with missing, duplicated or reordered elements", len(keyAppends)))
		// (d) map updates
		var ups []FieldWrite
		for _, w := range p.fieldWrites(f) {
			if w.Kind == "mapupdate" && homeFn(w.Fn) == fn {
				ups = append(ups, w)
			}
		}
		if len(ups) != 2 && len(ups) != 1 {
			c.bad(tag+": group update", p.pos(fn.Pos()), fmt.Sprintf("expected the append-to-existing and the new-group update of %s (or the single m[slot] = append(m[slot], x)), found %d map updates", spec.field, len(ups)))
			continue
		}
		elemOK := func(v ssa.Value) (bool, string) {
			if spec.k == 1 {
				return v == keySeg, expr(v)
			}
			arr := arrayLit(v)
			if arr == nil || len(arr) != 2 {
				return false, expr(v)
			}
			return arr[0] == keySeg && arr[1] == valSeg, fmt.Sprintf("{%s, %s}", expr(arr[0]), expr(arr[1]))
		}
		for _, w := range ups {
			// key = Hash(keySeg)
			hc, isH := p.isCallTo(through(w.Key), hash)
			okKey := isH && strip(hc.Call.Args[0]) == keySeg
			c.check(okKey, tag+": group key is Hash(key)", c.at(w.Instr), "slot of the iteration's key", "a key is filed under "+expr(w.Key)+", which is not the slot of that key")
			var elem ssa.Value
			kind := ""
			if call, ok := w.Val.(*ssa.Call); ok {
				if b, ok := call.Call.Value.(*ssa.Builtin); ok && b.Name() == "append" && len(call.Call.Args) == 2 {
					els := varargElems(call.Call.Args[1])
					// existing group must be the lookup result of the same map and key
					if ex, ok := call.Call.Args[0].(*ssa.Extract); ok && ex.Index == 0 {
						if lk, ok := ex.Tuple.(*ssa.Lookup); ok && expr(lk.Index) == expr(w.Key) {
							if _, is := fieldLoad(lk.X, f); is && len(els) == 1 {
								elem, kind = els[0], "append"
							}
						}
					}
					// single-statement form: m[slot] = append(m[slot], x) (a missing group is the nil slice)
					if lk, ok := call.Call.Args[0].(*ssa.Lookup); ok && !lk.CommaOk && expr(lk.Index) == expr(w.Key) {
						if _, is := fieldLoad(lk.X, f); is && len(els) == 1 {
							elem, kind = els[0], "append-or-create"
						}
					}
				}
			} else if sl, ok := w.Val.(*ssa.Slice); ok {
				els := varargElems(sl)
				if len(els) == 1 {
					elem, kind = els[0], "new"
				}
			}
			if elem == nil {
				c.bad(tag+": group update shape", c.at(w.Instr), "the group is neither extended at its end (append(existing, x)) nor created as a one-element slice: "+expr(w.Val))
				continue
			}
			ok, desc := elemOK(elem)
			what := "key"
			if spec.k == 2 {
				what = "{key, value} pair in that order"
			}
			c.check(ok, tag+": group element ("+kind+")", c.at(w.Instr), "the iteration's own "+what,
				"the element filed in the slot group is "+desc+", not the iteration's own "+what+": a key is lost, duplicated, or an MSET value is attached to the wrong key")
		}
		if len(ups) == 1 {
			// one update per iteration: it must be on every path of the iteration
			okDom := true
			for _, pr := range loop.Header.Preds {
				if loop.Blocks[pr] && !ups[0].Instr.Block().Dominates(pr) {
					okDom = false
				}
			}
			c.check(okDom, tag+": one group update per iteration", c.at(ups[0].Instr), "the single update dominates the loop's back edge", "the group update is skipped on some path of the iteration: a key is dropped")
			goto errorExits
		}
		{
			// the two updates are on the two edges of the presence test
			excl := !ups[0].Instr.Block().Dominates(ups[1].Instr.Block()) && !ups[1].Instr.Block().Dominates(ups[0].Instr.Block()) &&
				!reachableBlocks(ups[0].Instr.Block(), func(b *ssa.BasicBlock) bool { return b == loop.Header })[ups[1].Instr.Block()]
			c.check(excl, tag+": one group update per iteration", c.at(ups[0].Instr), "append and create are on exclusive branches", "both group updates can run in one iteration: a key is filed twice")
		}
	errorExits:
		// (e) error exits leave before anything is recorded
		if len(keyAppends) == 1 {
			allInstrs(fn, func(in ssa.Instruction) {
				r, ok := in.(*ssa.Return)
				if !ok || isNilConst(results(r)[0]) {
					return
				}
				if loop.Blocks[r.Block()] || true {
					c.check(!canReachWithin(keyAppends[0], r, loop), tag+": error exit before recording", c.at(r), "no partial record on error",
						"an error return is reachable after the key was recorded in the same iteration")
				}
			})
		}
	}
}

// canReachWithin: b reachable from a without passing the loop header again.
func canReachWithin(a, b ssa.Instruction, l *Loop) bool {
	if a.Block() == b.Block() && instrIndex(a) < instrIndex(b) {
		return true
	}
	return reachableBlocks(a.Block(), func(x *ssa.BasicBlock) bool { return x == l.Header })[b.Block()]
}

// ---------------------------------------------------------------------------------------------

// emitted returns, per block, the tokens appended to field f of any object in that block, in order.
type token_ struct {
	kind  string // byte, lit, itoa, crlf, val
	text  string
	v     ssa.Value
	lenOf ssa.Value // itoa(len(x)): x, resolved where the token was created (inside a helper: with the call's arguments)
	at    ssa.Instruction
}

func (c *Ctx) emissions(fn *ssa.Function, f *types.Var) map[*ssa.BasicBlock][]token_ {
	out := map[*ssa.BasicBlock][]token_{}
	isSelf := func(v ssa.Value) bool { _, self := fieldLoad(v, f); return self }
	for _, b := range fn.Blocks {
		for _, in := range b.Instrs {
			switch x := in.(type) {
			case *ssa.Store:
				fa, ok := x.Addr.(*ssa.FieldAddr)
				if !ok || fieldVar(fa.X.Type(), fa.Field) != f {
					continue
				}
				out[b] = append(out[b], c.tokensOf(x.Val, isSelf, in, 0)...)
			case *ssa.Call:
				// a helper that appends to the same field of an object it is given (`frag.appendBulk(s)`): its tokens,
				// in its own order, take the place of the call
				h := x.Call.StaticCallee()
				if h == nil || !c.P.isHelper(h) || len(h.Blocks) != 1 {
					continue
				}
				var ts []token_
				withBinding(h, x.Call.Args, func() {
					for _, hin := range h.Blocks[0].Instrs {
						st, ok := hin.(*ssa.Store)
						if !ok {
							continue
						}
						fa, ok := st.Addr.(*ssa.FieldAddr)
						if !ok || fieldVar(fa.X.Type(), fa.Field) != f {
							continue
						}
						for _, t := range c.tokensOf(st.Val, isSelf, in, 1) {
							t.at = in
							ts = append(ts, t)
						}
					}
				})
				out[b] = append(out[b], ts...)
			}
		}
	}
	return out
}

// tokensOf lists what is appended to a byte buffer to obtain v, walking back through append calls and
// through helper functions of the form  func h(dst []byte, …) []byte  that only append to dst.
func (c *Ctx) tokensOf(v ssa.Value, isSelf func(ssa.Value) bool, at ssa.Instruction, depth int) []token_ {
	if isSelf(v) {
		return nil
	}
	if sl, ok := v.(*ssa.Slice); ok && sl.High != nil && isZero(sl.High) && isSelf(sl.X) {
		return []token_{{kind: "reset", at: at}}
	}
	call, ok := v.(*ssa.Call)
	if !ok || depth > 2 {
		return []token_{{kind: "other", text: expr(v), at: at}}
	}
	if bi, ok := call.Call.Value.(*ssa.Builtin); ok {
		if bi.Name() != "append" || len(call.Call.Args) != 2 {
			return []token_{{kind: "other", text: expr(v), at: at}}
		}
		return append(c.tokensOf(call.Call.Args[0], isSelf, at, depth), tokenize(call.Call.Args[1], at)...)
	}
	// strconv.AppendInt(dst, int64(x), 10) is append(dst, strconv.Itoa(x)...)
	if staticCalleeName(&call.Call) == "strconv.AppendInt" && len(call.Call.Args) == 3 {
		if base, ok := constInt(call.Call.Args[2]); ok && base == 10 {
			x := strip(call.Call.Args[1])
			if cv, ok := x.(*ssa.Convert); ok {
				x = strip(cv.X)
			}
			return append(c.tokensOf(call.Call.Args[0], isSelf, at, depth), itoaToken(x, at))
		}
	}
	// helper: result is its first parameter with things appended
	h := call.Call.StaticCallee()
	if h == nil || h.Blocks == nil || !c.P.ownFunc(h) || len(call.Call.Args) == 0 || len(h.Params) == 0 {
		return []token_{{kind: "other", text: expr(v), at: at}}
	}
	rets := returnsReachable(h)
	if len(rets) != 1 {
		return []token_{{kind: "other", text: expr(v), at: at}}
	}
	bindCall(h, call.Call.Args)
	dst := h.Params[0]
	inner := c.tokensOf(results(rets[0].(*ssa.Return))[0], func(x ssa.Value) bool { return x == ssa.Value(dst) }, at, depth+1)
	return append(c.tokensOf(call.Call.Args[0], isSelf, at, depth), inner...)
}

func tokenize(a ssa.Value, at ssa.Instruction) []token_ {
	if els := varargElems(a); len(els) > 0 {
		var out []token_
		for _, e := range els {
			if k, ok := constInt(e); ok {
				out = append(out, token_{kind: "byte", text: string(rune(k)), at: at})
			} else {
				out = append(out, token_{kind: "val", text: expr(e), v: e, at: at})
			}
		}
		return out
	}
	if s, ok := constString(a); ok {
		return []token_{{kind: "lit", text: s, at: at}}
	}
	sa := strip(a)
	if cl, ok := sa.(*ssa.Call); ok && staticCalleeName(&cl.Call) == "strconv.Itoa" {
		return []token_{itoaToken(cl.Call.Args[0], at)}
	}
	if ld, ok := sa.(*ssa.UnOp); ok {
		if g, ok := ld.X.(*ssa.Global); ok && g.Name() == "LFCRByte" {
			return []token_{{kind: "crlf", at: at}}
		}
	}
	return []token_{{kind: "val", text: expr(sa), v: sa, at: at}}
}

func itoaToken(x ssa.Value, at ssa.Instruction) token_ {
	t := token_{kind: "itoa", text: expr(x), v: x, at: at}
	if lc, ok := strip(x).(*ssa.Call); ok && len(lc.Call.Args) == 1 {
		if b, ok := lc.Call.Value.(*ssa.Builtin); ok && b.Name() == "len" {
			t.lenOf = strip(lc.Call.Args[0])
		}
	}
	return t
}

func tokString(ts []token_) string {
	var parts []string
	for _, t := range ts {
		switch t.kind {
		case "byte":
			parts = append(parts, "'"+t.text+"'")
		case "lit":
			parts = append(parts, fmt.Sprintf("%q", t.text))
		case "itoa":
			parts = append(parts, "itoa("+t.text+")")
		case "crlf":
			parts = append(parts, "CRLF")
		default:
			parts = append(parts, t.kind+"("+t.text+")")
		}
	}
	return strings.Join(parts, " ")
}

func ruleC06_2(c *Ctx) {
	p := c.P
	req := p.Field(pkgCore, "Frag", "Req")
	body := p.Field(pkgCore, "Msg", "Body")
	fragGet := p.Method(pkgCore, "fragPool", "Get")
	if req == nil || body == nil || fragGet == nil {
		c.undecided("Frag.Req / Msg.Body / fragPool.Get", "-", "not found")
		return
	}
	for _, spec := range []struct {
		fn, field, cmd string
		pair           bool
	}{{"MGet", "Frags", "ReqMget", false}, {"Del", "Frags", "ReqDel", false}, {"MSet", "Frags2", "ReqMset", true}} {
		fn := c.needMethod(pkgCore, "CRespCodec", spec.fn)
		f := p.Field(pkgCore, "Msg", spec.field)
		if fn == nil || f == nil {
			continue
		}
		tag := "CRespCodec." + spec.fn
		resp := fn.Params[1]
		// a wrapper that hands the work to a shared helper (MGet/Del → splitByKeys(resp, literal)) is analysed in the helper
		if h, r := p.delegateOf(fn, resp); h != fn && r != nil {
			fn, resp = h, r
			delete(paramBind, r) // the request parameter itself stays symbolic
		}
		c.examined(len(fn.Blocks))
		// outer loop: range resp.<field>
		var next *ssa.Next
		allInstrs(fn, func(in ssa.Instruction) {
			if nx, ok := in.(*ssa.Next); ok {
				if rg, ok := nx.Iter.(*ssa.Range); ok {
					if base, ok := fieldLoad(rg.X, f); ok && strip(base) == ssa.Value(resp) {
						next = nx
					}
				}
			}
		})
		if next == nil {
			c.undecided(tag+": loop over slot groups", p.pos(fn.Pos()), "no `for slot, group := range resp."+spec.field+"` found")
			continue
		}
		var slotK, group ssa.Value
		for _, r := range *next.Referrers() {
			if ex, ok := r.(*ssa.Extract); ok {
				switch ex.Index {
				case 1:
					slotK = ex
				case 2:
					group = ex
				}
			}
		}
		if slotK == nil || group == nil {
			c.bad(tag+": loop over slot groups", c.at(next), "the loop does not use both the slot and its group of keys")
			continue
		}
		em := c.emissions(fn, req)
		sls := rangeIndexLoops(fn)
		// header tokens: the block of the outer body (where group is extracted)
		hdr := em[group.(*ssa.Extract).Block()]
		okHdr := len(hdr) == 3 && hdr[0].kind == "byte" && hdr[0].text == "*" && hdr[1].kind == "itoa" && hdr[2].kind == "lit"
		wantCount := "(builtin:len(" + expr(group) + ") + 1)"
		if spec.pair {
			wantCount = "((builtin:len(" + expr(group) + ") * 2) + 1)"
		}
		pos := c.at(next)
		if len(hdr) > 0 {
			pos = c.at(hdr[0].at)
		}
		c.check(okHdr, tag+": command header shape", pos, "'*' itoa(count) \"\\r\\n$n\\r\\nname\\r\\n\"", "the fragment does not start with '*' count CRLF '$' len CRLF name CRLF: "+tokString(hdr))
		if okHdr {
			got := hdr[1].text
			alt := strings.Replace(wantCount, " * 2)", " + builtin:len("+expr(group)+"))", 1)
			c.check(got == wantCount || got == alt || got == "(1 + "+strings.TrimSuffix(strings.TrimPrefix(wantCount, "("), " + 1)")+")", tag+": element count covers the whole group", c.at(hdr[1].at), "count = "+wantCount,
				"the array header announces "+got+" elements but the group contributes "+wantCount+": redis waits for missing arguments or treats the surplus as the next command")
			// literal
			name := ""
			if rows, ok := p.mapLiteral(pkgCodec, "CommandType2Str"); ok {
				want, _ := p.Const(pkgCodec, spec.cmd)
				for _, r := range rows {
					if want != nil && constant.Compare(r.Key, token.EQL, want) {
						name = constant.StringVal(r.Val)
					}
				}
			}
			wantLit := fmt.Sprintf("\r\n$%d\r\n%s\r\n", len(name), name)
			c.check(name != "" && strings.EqualFold(hdr[2].text, wantLit), tag+": command name literal", c.at(hdr[2].at), fmt.Sprintf("%q", hdr[2].text),
				fmt.Sprintf("the command literal is %q but a fragment of %s must carry %q", hdr[2].text, spec.cmd, wantLit))
		}
		// element loop(s)
		var elemLoop, pairLoop *sliceLoop
		for i := range sls {
			if strip(sls[i].coll) == strip(group) {
				elemLoop = &sls[i]
			}
		}
		if elemLoop == nil {
			c.bad(tag+": element loop ranges over the whole group", c.at(next), "no `for _, k := range group` over the group itself (index 0..len(group)-1) was found: keys of the group are left out of the fragment (e.g. a sub-slice or a shifted start)")
			continue
		}
		c.ok(tag+": element loop ranges over the whole group", c.at(next), "index 0..len(group)-1 of "+expr(group))
		var elem func(ssa.Value) bool
		var bodyBlock *ssa.BasicBlock
		if spec.pair {
			for i := range sls {
				if elemLoop.isElem(sls[i].coll) {
					pairLoop = &sls[i]
				}
			}
			if pairLoop == nil {
				// unrolled: the body of the element loop encodes group[i][0] and then group[i][1]
				pairElem := func(v ssa.Value, k int64) bool {
					ld, ok := strip(v).(*ssa.UnOp)
					if !ok || ld.Op != token.MUL {
						return false
					}
					in2, ok := ld.X.(*ssa.IndexAddr)
					if !ok {
						return false
					}
					if kk, isK := constInt(in2.Index); !isK || kk != k {
						return false
					}
					in1, ok := in2.X.(*ssa.IndexAddr)
					return ok && in1.Index == elemLoop.index && strip(in1.X) == strip(elemLoop.coll)
				}
				var ub *ssa.BasicBlock
				for b := range elemLoop.loop.Blocks {
					if len(em[b]) > 0 {
						ub = b
					}
				}
				okU := ub != nil && len(em[ub]) == 10
				if okU {
					for k := int64(0); k < 2; k++ {
						ts := em[ub][k*5 : k*5+5]
						okU = okU && ts[0].kind == "byte" && ts[0].text == "$" && ts[1].kind == "itoa" && ts[2].kind == "crlf" && ts[3].kind == "val" && ts[4].kind == "crlf" &&
							pairElem(ts[3].v, k) && ts[1].lenOf != nil && pairElem(ts[1].lenOf, k)
					}
				}
				if !okU {
					c.bad(tag+": pair loop", c.at(next), "no loop over both elements {key, value} of each pair was found (and the body does not encode pair[0] then pair[1])")
					continue
				}
				c.ok(tag+": pair loop", c.at(next), "both elements of each pair, in order (unrolled)")
				c.ok(tag+": element encoding", c.at(em[ub][0].at), "'$' itoa(len(v)) CRLF v CRLF for pair[0] and pair[1]")
				bodyBlock = ub
				goto afterElem
			}
			c.ok(tag+": pair loop", c.at(next), "both elements of each pair, in order")
			elem = pairLoop.isElem
			for b := range pairLoop.loop.Blocks {
				if len(em[b]) > 0 {
					bodyBlock = b
				}
			}
		} else {
			elem = elemLoop.isElem
			for b := range elemLoop.loop.Blocks {
				if len(em[b]) > 0 {
					bodyBlock = b
				}
			}
		}
		if bodyBlock == nil {
			c.bad(tag+": element encoding", c.at(next), "nothing is appended to Frag.Req per element")
			continue
		}
		{
			ts := em[bodyBlock]
			okEl := len(ts) == 5 && ts[0].kind == "byte" && ts[0].text == "$" && ts[1].kind == "itoa" && ts[2].kind == "crlf" && ts[3].kind == "val" && ts[4].kind == "crlf"
			if okEl {
				okEl = elem(ts[3].v) && ts[1].lenOf != nil && elem(ts[1].lenOf)
			}
			c.check(okEl, tag+": element encoding", c.at(ts[0].at), "'$' itoa(len(v)) CRLF v CRLF with v the element",
				"an element is encoded as "+tokString(ts)+" instead of '$' itoa(len(v)) CRLF v CRLF for the loop's element v: the length prefix and the bytes disagree")
		}
	afterElem:
		// nothing else is appended elsewhere
		extra := 0
		for b, t := range em {
			if b != bodyBlock && b != group.(*ssa.Extract).Block() {
				extra += len(t)
			}
		}
		c.check(extra == 0, tag+": nothing else is emitted", p.pos(fn.Pos()), "header + elements only", fmt.Sprintf("%d further append(s) to Frag.Req outside the header and the element loop", extra))
		// Body[slot] = frag of this iteration, after the element loop
		var filed bool
		for _, w := range p.fieldWrites(body) {
			if w.Kind != "mapupdate" || homeFn(w.Fn) != fn {
				continue
			}
			_, isGet := p.isCallTo(strip(w.Val), fragGet)
			okF := strip(w.Key) == slotK && isGet && strip(w.Base) == ssa.Value(resp)
			// the frag whose Req was written
			sameFrag := true
			for _, t := range hdr {
				if st, ok := t.at.(*ssa.Store); ok {
					if fa, ok := st.Addr.(*ssa.FieldAddr); ok && strip(fa.X) != strip(w.Val) {
						sameFrag = false
					}
				}
			}
			filed = true
			c.check(okF && sameFrag && !elemLoop.loop.Blocks[w.Instr.Block()], tag+": fragment filed under its slot", c.at(w.Instr), "resp.Body[slot] = frag",
				"the fragment is not filed as resp.Body[<the group's slot>] = <the fragment just encoded> after its elements were written")
		}
		if !filed {
			c.bad(tag+": fragment filed under its slot", p.pos(fn.Pos()), "the encoded fragment is never stored in resp.Body")
		}
	}
}

// ---------------------------------------------------------------------------------------------

func ruleC06_3(c *Ctx) {
	// the literals are compared with CommandType2Str in C06.2; here: the three names exist and are distinct
	p := c.P
	rows, ok := p.mapLiteral(pkgCodec, "CommandType2Str")
	if !ok {
		c.undecided("codec.CommandType2Str", "-", "not a constant map literal")
		return
	}
	for _, cmd := range []string{"ReqMget", "ReqDel", "ReqMset"} {
		want, ok := p.Const(pkgCodec, cmd)
		name := ""
		for _, r := range rows {
			if ok && constant.Compare(r.Key, token.EQL, want) {
				name = constant.StringVal(r.Val)
			}
		}
		c.check(strings.EqualFold(name, strings.TrimPrefix(cmd, "Req")), "CommandType2Str["+cmd+"]", "-", name, fmt.Sprintf("CommandType2Str[%s] is %q", cmd, name))
	}
}

// ---------------------------------------------------------------------------------------------

func ruleC06_4(c *Ctx) {
	p := c.P
	rows, ok := p.mapLiteral(pkgCodec, "CommandType2ArgsNumber")
	if !ok {
		c.undecided("codec.CommandType2ArgsNumber", "-", "not a constant map literal")
		return
	}
	want := map[string]string{"ReqMget": "NargsInf", "ReqDel": "NargsInf", "ReqMset": "NargsEvenInf"}
	for cmd, na := range want {
		ck, ok1 := p.Const(pkgCodec, cmd)
		nv, ok2 := p.Const(pkgCodec, na)
		found := false
		for _, r := range rows {
			if ok1 && ok2 && constant.Compare(r.Key, token.EQL, ck) {
				found = true
				c.check(constant.Compare(r.Val, token.EQL, nv), "arity row "+cmd, p.pos(r.Pos), na,
					fmt.Sprintf("%s has arity class %s instead of %s: a request with no key (or an MSET with a key without value) reaches the splitter", cmd, r.Val.ExactString(), na))
			}
		}
		if !found {
			c.bad("arity row "+cmd, "-", "no arity row")
		}
	}
	ca := c.need(pkgCodec + ".checkArgs")
	if ca == nil {
		return
	}
	c.examined(len(ca.Blocks))
	nInf, _ := p.ConstInt(pkgCodec, "NargsInf")
	nEven, _ := p.ConstInt(pkgCodec, "NargsEvenInf")
	byClass, _, complete := c.arityClasses(ca)
	if !complete {
		c.undecided("checkArgs: accept paths", p.pos(ca.Pos()), "path enumeration incomplete")
		return
	}
	n := expr(ssa.Value(ca.Params[1]))
	check := func(class int64, name, want string, alts [][]string, why string) {
		cases := byClass[class]
		if len(cases) == 0 {
			c.bad("checkArgs: "+name, p.pos(ca.Pos()), "no path accepts a command of this arity class: every "+name+" request is rejected")
			return
		}
		okAll := true
		worst := ""
		for _, ac := range cases {
			for _, alt := range alts {
				if !hasFact(ac.facts, alt...) {
					okAll = false
					worst = describeFacts(ac.facts)
				}
			}
		}
		c.check(okAll, "checkArgs: "+name, p.pos(ca.Pos()), want+" on all "+fmt.Sprint(len(cases))+" accepting path(s)", why+" (an accepting path holds only: "+worst+")")
	}
	check(nInf, "NargsInf rejects n < 1", "n >= 1",
		[][]string{{"!(" + n + " < 1)", "(" + n + " >= 1)", "(" + n + " > 0)", "!(" + n + " <= 0)"}},
		"commands with arity class NargsInf (MGET, DEL) are accepted without a key")
	check(nEven, "NargsEvenInf rejects n < 2 and odd n", "n >= 2 and n even",
		[][]string{{"!(" + n + " < 2)", "(" + n + " >= 2)", "(" + n + " > 1)", "!(" + n + " <= 1)"},
			{"!((" + n + " % 2) == 1)", "((" + n + " % 2) != 1)", "((" + n + " % 2) == 0)", "!((" + n + " % 2) != 0)"}},
		"MSET is accepted with fewer than two or an odd number of arguments: Frag2 would read a value that is not there")
}

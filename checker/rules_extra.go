package main

import (
	"fmt"
	"go/token"
	"strings"

	"golang.org/x/tools/go/ssa"
)

func init() {
	rule("C02.7", "E3+E8", "the two-tier outbound buffer stays FIFO: the ring part is written only while the overflow list is empty, and a write that straddles both is split at one point", 5, ruleC02_7)
	rule("C03.7", "E2+E3", "a Msg goes back to the pool only when nothing can still refer to it: after it was flushed and popped, or when it was answered locally and never routed", 2, ruleC03_7)
	rule("C12.3", "E4", "a length taken from the client is compared, itself, with what is left in the buffer before it is used in slice arithmetic", 2, ruleC12_3)
}

func ruleC02_7(c *Ctx) {
	p := c.P
	listEmpty := p.Method(pkgLL, "Buffer", "IsEmpty")
	ringWrite := p.Method(pkgElastic, "RingBuffer", "Write")
	ringReadFrom := p.Method(pkgElastic, "RingBuffer", "ReadFrom")
	pushBack := p.Method(pkgLL, "Buffer", "PushBack")
	if listEmpty == nil || ringWrite == nil || pushBack == nil {
		c.undecided("elastic buffer anchors", "-", "linkedlist.Buffer.IsEmpty / elastic.RingBuffer.Write / linkedlist.Buffer.PushBack not found")
		return
	}
	for _, m := range []string{"Write", "Writev", "ReadFrom"} {
		fn := c.needMethod(pkgElastic, "Buffer", m)
		if fn == nil {
			continue
		}
		c.examined(len(fn.Blocks))
		var ringCalls []ssa.CallInstruction
		ringCalls = append(ringCalls, p.callsIn(fn, ringWrite)...)
		if ringReadFrom != nil {
			ringCalls = append(ringCalls, p.callsIn(fn, ringReadFrom)...)
		}
		if len(ringCalls) == 0 {
			c.undecided("elastic.Buffer."+m+": ring writes", p.pos(fn.Pos()), "no write to the ring part found")
			continue
		}
		for _, rc := range ringCalls {
			gs := guardsOf(rc)
			okG := guardHas(gs, func(g Guard) bool { _, is := p.isCallTo(g.Cond, listEmpty); return is && g.Truth })
			c.check(okG, "elastic.Buffer."+m+": ring written only while the list is empty", c.at(rc), "dominated by listBuffer.IsEmpty()",
				"new bytes can be put into the ring part while older bytes still wait in the overflow list; the ring is drained first, so the newer bytes overtake the older ones (a slow reader receives a later reply spliced into an earlier one; a slow node receives requests out of order)", withGuards(gs))
		}
		// a write that straddles ring and list is split at one point: ring.Write(x[:w]) … list.PushBack(x[w:])
		for _, rc := range ringCalls {
			sl, ok := rc.Common().Args[1].(*ssa.Slice)
			if !ok || sl.High == nil {
				continue
			}
			found := false
			for _, pb := range p.callsIn(fn, pushBack) {
				s2, ok := pb.Common().Args[1].(*ssa.Slice)
				if !ok || s2.Low == nil || s2.X != sl.X {
					continue
				}
				if pb.Block() != rc.Block() {
					continue
				}
				found = true
				lowOK := sl.Low == nil || isZero(sl.Low)
				c.check(lowOK && s2.High == nil && expr(sl.High) == expr(s2.Low) && dominatesInstr(rc.(ssa.Instruction), pb.(ssa.Instruction)), "elastic.Buffer."+m+": straddling write split at one point", c.at(pb),
					"ring gets x[:w], list gets x[w:], same w, in that order",
					"a write that fills the ring and spills into the list is split as "+expr(sl)+" / "+expr(s2)+": bytes are lost or duplicated at the seam")
			}
			if !found {
				c.bad("elastic.Buffer."+m+": straddling write split at one point", c.at(rc), "the ring receives a prefix "+expr(sl)+" but the rest of the slice is not pushed to the list in the same step")
			}
		}
	}
	// Writev: the loop over the elements is left early (break) only after the current element was handed over
	if fn := p.Method(pkgElastic, "Buffer", "Writev"); fn != nil {
		bsP := fn.Params[1]
		for _, sl := range rangeIndexLoops(fn) {
			if strip(sl.coll) != ssa.Value(bsP) {
				continue
			}
			for _, e := range sl.loop.exitEdges() {
				if e[0] == sl.loop.Header {
					continue
				}
				handed := false
				for _, pb := range p.callsToAny(fn, pushBack, ringWrite) {
					li := lift(pb.(ssa.Instruction), fn)
					if li == nil {
						continue
					}
					// in the iteration before the exit, or in the exit branch itself (a block that breaks is not part of the
					// natural loop: `if len(b) > w { ring.Write(b[:w]); list.PushBack(b[w:]); break }`)
					if sl.loop.Blocks[li.Block()] && (li.Block() == e[0] || li.Block().Dominates(e[0])) {
						handed = true
					}
					if li.Block() == e[1] && len(e[1].Preds) == 1 {
						handed = true
					}
				}
				c.check(handed, "elastic.Buffer.Writev: early exit only after the current element was handed over", c.at(e[0].Instrs[len(e[0].Instrs)-1]), "break behind ring.Write / list.PushBack of the element",
					"the loop over the vector is left on a path on which the current element was neither written to the ring nor pushed to the list, and the loop that files the remaining elements starts at the next index: one whole element silently disappears (an exact fit at the ring's limit loses one reply) and the stream is out of step from then on")
			}
		}
	}
	// Writev: the elements after the split one all go to the list, in order
	if fn := p.Method(pkgElastic, "Buffer", "Writev"); fn != nil {
		bs := fn.Params[1]
		okTail := false
		var at ssa.Instruction
		// (the loop may live in a helper `pushBackFrom(bs, from)` called with from = pos+1: each call site is looked at)
		p.virtualCalls(fn, []*ssa.Function{pushBack}, func(pb ssa.CallInstruction) {
			arg := pb.Common().Args[1]
			if ld, ok := arg.(*ssa.UnOp); ok {
				if ia, ok := ld.X.(*ssa.IndexAddr); ok && strip(ia.X) == ssa.Value(bs) {
					if ph, ok := ia.Index.(*ssa.Phi); ok {
						// pos starts at (index of the split element)+1 and steps by one up to len(bs)
						start, step := false, false
						for _, e := range ph.Edges {
							if bo, ok := e.(*ssa.BinOp); ok && bo.Op == token.ADD && isOne(bo.Y) && bo.X == ssa.Value(ph) {
								step = true
								continue
							}
							if bo, ok := strip(e).(*ssa.BinOp); ok && bo.Op == token.ADD && isOne(bo.Y) {
								if _, isPhi := strip(bo.X).(*ssa.Phi); isPhi && strip(bo.X) != ssa.Value(ph) {
									start = true
								}
							}
						}
						if start && step {
							okTail = true
							if li := lift(pb.(ssa.Instruction), fn); li != nil {
								at = li
							}
						}
					}
				}
			}
		})
		c.check(okTail, "elastic.Buffer.Writev: remaining elements follow into the list in order", posOr(c, at, fn), "for pos++; pos < len(bs); pos++ { PushBack(bs[pos]) }",
			"after the element that straddles ring and list, the remaining elements are not appended to the list one by one from the next index: elements are skipped or repeated")
	}
}

func ruleC03_7(c *Ctx) {
	p := c.P
	put := c.needMethod(pkgCore, "msgPool", "Put")
	deq := c.needMethod(pkgCore, "conn", "dequeueInMsg")
	sread := c.needMethod(pkgCore, "eventloop", "sread")
	cread := c.needMethod(pkgCore, "eventloop", "cread")
	writev := c.needMethod(pkgCore, "conn", "writev")
	if put == nil || deq == nil || sread == nil || cread == nil || writev == nil {
		return
	}
	sites := p.SitesOf(put)
	c.examined(len(sites))
	n := 0
	for _, s := range sites {
		if s.Fn.Synthetic != "" {
			continue
		}
		n++
		encl := homeFn(s.Fn)
		c.touch(encl)
		name := "MsgPool.Put in " + shortFn(encl)
		if s.Call == nil {
			c.bad(name, c.at(s.Instr), "MsgPool.Put is taken as a function value")
			continue
		}
		arg := strip(s.Call.Args[len(s.Call.Args)-1])
		switch encl {
		case sread:
			_, popped := p.isCallTo(arg, deq)
			// after the flush wrote: dominated by a writev of the flush on its err == nil edge
			flushed := false
			for _, w := range p.callsIn(sread, writev) {
				if dominatesInstr(w.(ssa.Instruction), s.Instr) {
					if guardHas(guardsOf(s.Instr), func(g Guard) bool {
						x, op, y, ok := cmpGuard(g)
						ex, isEx := x.(*ssa.Extract)
						return ok && op == token.EQL && isNilConst(y) && isEx && ex.Tuple == w.Value()
					}) {
						flushed = true
					}
				}
			}
			c.check(popped && flushed, name, c.at(s.Instr), "recycles a message popped from the client queue after its reply was written",
				"a Msg is recycled in the backend read path although it was not just popped after a successful flush: fragments in flight still point at it and complete whichever request re-uses the object")
		case cread:
			okG := guardHas(guardsOf(s.Instr), func(g Guard) bool {
				x, op, y, ok := cmpGuard(g)
				if !ok || op != token.NEQ || !isNilConst(y) {
					return false
				}
				ex, ok := x.(*ssa.Extract)
				if !ok || ex.Index != 0 {
					return false
				}
				call, ok := ex.Tuple.(*ssa.Call)
				return ok && call.Call.IsInvoke() && call.Call.Method.Name() == "OnCReact"
			})
			c.check(okG, name, c.at(s.Instr), "recycles a request that OnCReact answered locally (out != nil; C03.1: none of its fragments was routed)",
				"MsgPool.Put(r) in cread is not confined to the out != nil edge: a forwarded request would be recycled while queued and in flight", withGuards(guardsOf(s.Instr)))
		default:
			c.bad(name, c.at(s.Instr), "a Msg is returned to the pool outside the two places where nothing can refer to it any more (post-flush pop in eventloop.sread, locally answered request in eventloop.cread): e.g. recycling the queued requests of a closing client leaves their in-flight fragments pointing at objects that the next requests re-use, so a late reply completes (and is delivered to) another client's request")
		}
	}
	if n < 2 {
		c.undecided("MsgPool.Put sites", "-", fmt.Sprintf("%d sites found (the flush and the local-reply path expected)", n))
	}
}

func ruleC12_3(c *Ctx) {
	p := c.P
	bufF := p.Field(pkgCodec, "Buffer", "buf")
	for _, m := range []string{"ReadN", "PeekN"} {
		fn := c.needMethod(pkgCodec, "Buffer", m)
		if fn == nil {
			continue
		}
		c.examined(len(fn.Blocks))
		n := ssa.Value(fn.Params[1])
		dependsOnN := func(v ssa.Value) bool {
			found := false
			seen := map[ssa.Value]bool{}
			var walk func(v ssa.Value)
			walk = func(v ssa.Value) {
				if v == nil || seen[v] || found {
					return
				}
				seen[v] = true
				if v == n {
					found = true
					return
				}
				if in, ok := v.(ssa.Instruction); ok {
					var ops []*ssa.Value
					for _, o := range in.Operands(ops) {
						if o != nil {
							walk(*o)
						}
					}
				}
			}
			walk(v)
			return found
		}
		nSl := 0
		rF := p.Field(pkgCodec, "Buffer", "r")
		allInstrs(fn, func(in ssa.Instruction) {
			var blk *ssa.BasicBlock
			switch x := in.(type) {
			case *ssa.Slice:
				if _, is := fieldLoad(x.X, bufF); !is {
					return
				}
				if !(x.High != nil && dependsOnN(x.High)) && !(x.Low != nil && dependsOnN(x.Low)) {
					return
				}
				blk = x.Block()
			case *ssa.Store:
				// the read cursor advanced by n
				fa, ok := x.Addr.(*ssa.FieldAddr)
				if !ok || fieldVar(fa.X.Type(), fa.Field) != rF || !dependsOnN(x.Val) {
					return
				}
				blk = x.Block()
			default:
				return
			}
			sl := in
			nSl++
			gs := guardsAt(blk)
			delegated := false
			// `bs, err := b.PeekN(n); if err != nil { return }`: on err == nil the sibling's own (checked) comparison holds
			for _, g := range append([]Guard{}, gs...) {
				x, op, y, ok := cmpGuard(g)
				if !ok || op != token.EQL || !isNilConst(y) {
					continue
				}
				ex, ok := x.(*ssa.Extract)
				if !ok {
					continue
				}
				call, ok := ex.Tuple.(*ssa.Call)
				if !ok {
					continue
				}
				sib := call.Call.StaticCallee()
				if sib == nil || sib == fn || (sib != p.Method(pkgCodec, "Buffer", "ReadN") && sib != p.Method(pkgCodec, "Buffer", "PeekN")) {
					continue
				}
				if len(call.Call.Args) < 2 || strip(call.Call.Args[0]) != ssa.Value(fn.Params[0]) || strip(call.Call.Args[1]) != n {
					continue
				}
				var extra []Guard
				withBinding(sib, call.Call.Args, func() {
					var sel []retCase
					for _, rcase := range returnCases(sib, ex.Index) {
						if !isNilConst(rcase.val) {
							nonNil := false
							for _, f := range rcase.facts {
								if fx, fop, fy, ok := cmpGuard(f); ok && fop == token.NEQ && isNilConst(fy) && fx == rcase.val {
									nonNil = true
								}
							}
							if nonNil || p.nonNilGlobalLoad(rcase.val) {
								continue
							}
						}
						sel = append(sel, rcase)
					}
					for _, f := range intersectFacts(sel) {
						extra = append(extra, f)
						if fx, fop, fy, ok := cmpGuard(f); ok && fop == token.EQL && isNilConst(fy) {
							extra = append(extra, nilOutcomeFacts(fx, true)...)
						}
					}
					// decide under the binding: the sibling's n is this function's n
					for _, f := range extra {
						x, op, y, ok := cmpGuard(f)
						if !ok {
							continue
						}
						if strip(x) == n && (op == token.LEQ || op == token.LSS) && !dependsOnN(y) {
							delegated = true
						}
						if strip(y) == n && (op == token.GEQ || op == token.GTR) && !dependsOnN(x) {
							delegated = true
						}
					}
				})
				gs = append(gs, extra...)
			}
			okG := guardHas(gs, func(g Guard) bool {
				x, op, y, ok := cmpGuard(g)
				if !ok {
					return false
				}
				// n <= E  /  E >= n   with E independent of n
				if strip(x) == n && (op == token.LEQ || op == token.LSS) && !dependsOnN(y) {
					return true
				}
				if strip(y) == n && (op == token.GEQ || op == token.GTR) && !dependsOnN(x) {
					return true
				}
				return false
			})
			c.check(okG || delegated, "codec.Buffer."+m+": length checked before slicing", c.at(sl), "guarded by n <= remaining (n itself compared, no arithmetic on n)",
				"the buffer is sliced with a bound computed from the client-supplied length n without a guard that compares n itself with the number of bytes left: with n close to the maximum integer the sum wraps negative, the check passes and the slice expression panics (no recover: the proxy exits)", withGuards(gs))
		})
		if nSl == 0 {
			c.undecided("codec.Buffer."+m+": slicing", p.pos(fn.Pos()), "no slice of the buffer by n found")
		}
	}
	_ = strings.TrimSpace
}

// nonNilGlobalLoad: v is a load of a package-level error variable that is assigned only by its initialiser, with a
// freshly made error (errors.New / fmt.Errorf): `return nil, ShortLine` returns a non-nil error.
func (p *Prog) nonNilGlobalLoad(v ssa.Value) bool {
	ld, ok := v.(*ssa.UnOp)
	if !ok || ld.Op != token.MUL {
		return false
	}
	g, ok := ld.X.(*ssa.Global)
	if !ok {
		return false
	}
	n := 0
	good := true
	for _, fn := range p.Funcs {
		allInstrs(fn, func(in ssa.Instruction) {
			st, ok := in.(*ssa.Store)
			if !ok || st.Addr != ssa.Value(g) {
				return
			}
			n++
			call, isCall := st.Val.(*ssa.Call)
			if fn.Name() != "init" || !isCall {
				good = false
				return
			}
			switch staticCalleeName(&call.Call) {
			case "errors.New", "fmt.Errorf":
			default:
				good = false
			}
		})
	}
	// the address must not be taken otherwise
	if refs := g.Referrers(); refs != nil {
		_ = refs
	}
	return good && n == 1 && !p.globalAddressEscapes(g)
}

// globalAddressEscapes: g is used other than as the operand of a load or the address of a store.
func (p *Prog) globalAddressEscapes(g *ssa.Global) bool {
	esc := false
	for _, fn := range p.Funcs {
		allInstrs(fn, func(in ssa.Instruction) {
			for _, op := range in.Operands(nil) {
				if op == nil || *op != ssa.Value(g) {
					continue
				}
				switch x := in.(type) {
				case *ssa.UnOp:
					if x.Op != token.MUL {
						esc = true
					}
				case *ssa.Store:
					if x.Addr != ssa.Value(g) {
						esc = true
					}
				default:
					esc = true
				}
			}
		})
	}
	return esc
}

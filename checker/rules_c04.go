package main

import (
	"fmt"
	"go/ast"
	"go/constant"
	"go/token"
	"go/types"
	"sort"
	"strconv"
	"strings"

	"golang.org/x/tools/go/ssa"
)

func init() {
	rule("C04.1", "E6", "every command whose constant lies below ReqWriteCmdStart (and may therefore be sent to a replica) is a read-only Redis command", 30, ruleC04_1)
	rule("C04.2", "E3+E4+E8", "route returns a replica address only under !DisableSlave, Type <= ReqWriteCmdStart and Type not a cursor scan; every other return is the master of the same slot", 5, ruleC04_2)
	rule("C04.3", "E8", "OnCReact sends each fragment to the connection chosen for that fragment's own slot; getConn routes, looks up and draws from the pool of the routed address", 3, ruleC04_3)
	rule("C04.4", "E8", "every key of Msg.Body is a slot computed by hashkit.Hash from a key of the request", 5, ruleC04_4)
	rule("C04.5", "E2+E3+E6", "backend handshake: AUTH (if configured) and READONLY (on replicas) are well formed, counted, written before the connection is handed out, and the same password reaches both halves", 10, ruleC04_5)
	rule("C04.6", "E8", "a pool is registered under the address it dials", 3, ruleC04_6)

	rule("C20.1", "E3", "the replica is picked after the whole candidate list has been built (the pick is not reachable from inside the collecting loop)", 2, ruleC20_1)
	rule("C20.2", "E8", "the pick is liveSlaves[rand.Intn(len(liveSlaves))]: a uniform index over the slice being indexed", 1, ruleC20_2)
	rule("C20.3", "E3+E8", "candidates are the pooled replicas of the slot's replica set, each appended once with its own address, and the list is reset per call", 3, ruleC20_3)
}

// readonlyCommands: commands that never write (Redis command table, flag `readonly`, up to 7.x), lower case.
var readonlyCommands = func() map[string]bool {
	m := map[string]bool{}
	for _, s := range strings.Fields(`
	exists ttl pttl expiretime pexpiretime type dump object randomkey keys scan touch memory dbsize
	get getrange substr getbit bitcount bitpos bitfield_ro mget strlen lcs
	hexists hget hgetall hkeys hlen hmget hscan hvals hstrlen hrandfield
	lindex llen lrange lpos
	scard sismember smismember smembers srandmember sscan sdiff sinter sunion sintercard
	zcard zcount zlexcount zrange zrangebylex zrangebyscore zrank zrevrange zrevrangebylex zrevrangebyscore zrevrank zscore zmscore zscan zrandmember zdiff zinter zunion zintercard
	pfcount geodist geohash geopos georadius_ro georadiusbymember_ro geosearch
	xlen xrange xrevrange xread xpending xinfo
	`) {
		m[s] = true
	}
	// PFCOUNT may mutate its cached cardinality on the node it runs on; rcproxy lists it as a write anyway.
	return m
}()

// mapLiteral evaluates a package-level map composite literal whose keys and values are constants.
type kvConst struct {
	Key, Val constant.Value
	KeyExpr  ast.Expr
	Pos      token.Pos
}

func (p *Prog) mapLiteral(pkg, name string) ([]kvConst, bool) {
	vs, idx, pk := p.VarDecl(pkg, name)
	if vs == nil || idx >= len(vs.Values) {
		return nil, false
	}
	cl, ok := vs.Values[idx].(*ast.CompositeLit)
	if !ok {
		return nil, false
	}
	var out []kvConst
	for _, e := range cl.Elts {
		kv, ok := e.(*ast.KeyValueExpr)
		if !ok {
			return nil, false
		}
		k, v := pk.TypesInfo.Types[kv.Key], pk.TypesInfo.Types[kv.Value]
		if k.Value == nil || v.Value == nil {
			return nil, false
		}
		out = append(out, kvConst{Key: k.Value, Val: v.Value, KeyExpr: kv.Key, Pos: kv.Pos()})
	}
	return out, true
}

func ruleC04_1(c *Ctx) {
	p := c.P
	marker, ok := p.ConstInt(pkgCodec, "ReqWriteCmdStart")
	rows, ok2 := p.mapLiteral(pkgCodec, "CommandStr2Type")
	if !ok || !ok2 {
		c.undecided("codec.CommandStr2Type / ReqWriteCmdStart", "-", "table or marker constant not found or not a constant map literal")
		return
	}
	c.examined(len(rows))
	for _, r := range rows {
		name := constant.StringVal(r.Key)
		v, _ := constant.Int64Val(constant.ToInt(r.Val))
		if v >= marker {
			continue
		}
		c.check(readonlyCommands[strings.ToLower(name)], "replica-eligible command "+name, p.pos(r.Pos),
			"read-only in the Redis command table",
			fmt.Sprintf("command %q has constant %d < ReqWriteCmdStart (%d): with replica reads enabled it is routed to a replica, but it is not a read-only Redis command (READONLY error, or a write that never reaches the master)", name, v, marker))
	}
}

// ---------------------------------------------------------------------------------------------

// masterAddrOf matches  Slots2Node.Get(slot).Master.Addr  and returns the slot argument.
func (c *Ctx) masterAddrOf(v ssa.Value) (slot ssa.Value, ok bool) {
	p := c.P
	addr := p.Field(pkgCore, "ClusterNode", "Addr")
	master := p.Field(pkgCore, "replicaset", "Master")
	get := p.Method(pkgCore, "slotReplicaset", "Get")
	base, ok := fieldLoad(v, addr)
	if !ok {
		return nil, false
	}
	rs, ok := fieldLoad(base, master)
	if !ok {
		return nil, false
	}
	call, ok := p.isCallTo(rs, get)
	if !ok {
		return nil, false
	}
	return call.Call.Args[1], true
}

func ruleC04_2(c *Ctx) {
	p := c.P
	route := c.needMethod(pkgServer, "listenServer", "route")
	if route == nil {
		return
	}
	c.examined(len(route.Blocks))
	marker, _ := p.ConstInt(pkgCodec, "ReqWriteCmdStart")
	scans := map[int64]string{}
	for _, n := range []string{"ReqHscan", "ReqSscan", "ReqZscan"} {
		if v, ok := p.ConstInt(pkgCodec, n); ok {
			scans[v] = n
		} else {
			c.undecided("constant codec."+n, "-", "not found")
		}
	}
	typeF := p.Field(pkgCore, "Msg", "Type")
	disable := p.Field(pkgServer, "Options", "DisableSlave")
	slotParam := route.Params[2]
	get := p.Method(pkgCore, "slotReplicaset", "Get")
	// every Slots2Node.Get in route uses the slot parameter
	for _, call := range p.callsIn(route, get) {
		c.check(strip(call.Common().Args[1]) == ssa.Value(slotParam), "route: Slots2Node.Get(slot)", c.at(call), "indexed by the slot parameter",
			"route consults the replica set of "+expr(call.Common().Args[1])+" instead of the slot it was asked to route: the request goes to a node that does not own the key")
	}
	nret := 0
	replicaReturns := 0
	allInstrs(route, func(in ssa.Instruction) {
		r, ok := in.(*ssa.Return)
		if !ok || len(r.Results) != 2 {
			return
		}
		nret++
		name := fmt.Sprintf("route: return #%d", nret)
		if slot, ok := c.masterAddrOf(results(r)[0]); ok {
			okSlot := strip(slot) == ssa.Value(slotParam)
			flag, isConst := results(r)[1].(*ssa.Const)
			c.check(okSlot && isConst && flag.Value.String() == "false", name+" (master)", c.at(r), "Slots2Node.Get(slot).Master.Addr, isSlave=false",
				"a master return uses another slot or reports isSlave=true")
			return
		}
		replicaReturns++
		gs := guardsOf(r)
		var missing []string
		if !guardHas(gs, func(g Guard) bool { _, ok := fieldLoad(g.Cond, disable); return ok && !g.Truth }) {
			missing = append(missing, "!DisableSlave")
		}
		if !guardHas(gs, func(g Guard) bool {
			x, op, y, ok := cmpGuard(g)
			if !ok {
				return false
			}
			if _, isT := fieldLoad(x, typeF); !isT {
				return false
			}
			k, isK := constInt(y)
			// Type <= marker (false edge of Type > marker) or Type < marker
			return isK && ((op == token.LEQ && k == marker) || (op == token.LSS && k == marker))
		}) {
			missing = append(missing, "Type <= ReqWriteCmdStart")
		}
		for k, n := range scans {
			kk := k
			if !guardHas(gs, func(g Guard) bool {
				x, op, y, ok := cmpGuard(g)
				if !ok || op != token.NEQ {
					return false
				}
				if _, isT := fieldLoad(x, typeF); !isT {
					return false
				}
				v, isK := constInt(y)
				return isK && v == kk
			}) {
				missing = append(missing, "Type != "+n)
			}
		}
		sort.Strings(missing)
		c.check(len(missing) == 0, name+" (replica)", c.at(r), "guarded by !DisableSlave, Type <= ReqWriteCmdStart, Type ∉ {HSCAN,SSCAN,ZSCAN}",
			"a replica address can be returned without the guard(s) "+strings.Join(missing, ", ")+": writes, scripts or cursor scans (or any request when replica reads are disabled) are sent to a replica", withGuards(gs))
	})
	c.check(replicaReturns >= 1, "route: replica return exists", p.pos(route.Pos()), fmt.Sprintf("%d", replicaReturns), "no replica return found in route (anchors changed)")
	if replicaReturns == 0 {
		c.obs[len(c.obs)-1].Verdict = UNDECIDED
	}
}

// ---------------------------------------------------------------------------------------------

func ruleC04_3(c *Ctx) {
	p := c.P
	on := c.needMethod(pkgServer, "listenServer", "OnCReact")
	getConn := c.needMethod(pkgServer, "listenServer", "getConn")
	route := c.needMethod(pkgServer, "listenServer", "route")
	enq := c.needMethod(pkgCore, "conn", "EnqueueOutFrag")
	if on == nil || getConn == nil || route == nil || enq == nil {
		return
	}
	body := p.Field(pkgCore, "Msg", "Body")
	c.examined(len(on.Blocks) + len(getConn.Blocks))

	// provenance of a (connection, fragment) pair at the enqueue: either directly (conn from getConn(r, slot)
	// with slot/frag the key/value of one iteration over r.Body) or through a struct filed in one place.
	isBodyRange := func(v ssa.Value) (*ssa.Next, int, bool) {
		ex, ok := strip(v).(*ssa.Extract)
		if !ok {
			return nil, 0, false
		}
		nx, ok := ex.Tuple.(*ssa.Next)
		if !ok {
			return nil, 0, false
		}
		rg, ok := nx.Iter.(*ssa.Range)
		if !ok {
			return nil, 0, false
		}
		if base, ok := fieldLoad(rg.X, body); !ok || strip(base) != ssa.Value(on.Params[1]) {
			return nil, 0, false
		}
		return nx, ex.Index, true
	}
	connFromGetConn := func(v ssa.Value) (slots []ssa.Value, ok bool) {
		roots := flowRoots(v, nil)
		if len(roots) == 0 {
			return nil, false
		}
		for _, r := range roots {
			call, isCall := p.isCallTo(r, getConn)
			if !isCall {
				return nil, false
			}
			slots = append(slots, call.Call.Args[2])
		}
		return slots, true
	}
	pairOK := func(connV, fragV ssa.Value) (bool, string) {
		nxF, idxF, okF := isBodyRange(fragV)
		if !okF || idxF != 2 {
			return false, "the fragment is not the value of the iteration over r.Body (" + expr(fragV) + ")"
		}
		slots, okC := connFromGetConn(connV)
		if !okC {
			return false, "the connection is not the result of getConn (" + expr(connV) + ")"
		}
		for _, s := range slots {
			nxS, idxS, okS := isBodyRange(s)
			if !okS || idxS != 1 || nxS != nxF {
				return false, "getConn is asked for slot " + expr(s) + ", which is not the key of the iteration that yields the fragment"
			}
		}
		return true, ""
	}
	calls := p.callsIn(on, enq)
	if len(calls) == 0 {
		c.undecided("OnCReact: EnqueueOutFrag", p.pos(on.Pos()), "no call found")
		return
	}
	for _, call := range calls {
		connV, fragV := strip(call.Common().Value), strip(call.Common().Args[0])
		if ok, why := pairOK(connV, fragV); ok {
			c.ok("OnCReact: fragment/slot/connection pairing", c.at(call), "direct: conn = getConn(r, slot), (slot, frag) one iteration of r.Body")
			continue
		} else if _, _, isField := anyFieldLoad(connV); !isField {
			c.bad("OnCReact: fragment/slot/connection pairing", c.at(call), why)
			continue
		}
		// through a record: both are fields of the same struct value
		fc, baseC, _ := anyFieldLoad(connV)
		ff, baseF, okF := anyFieldLoad(fragV)
		if !okF || expr(baseC) != expr(baseF) {
			c.bad("OnCReact: fragment/slot/connection pairing", c.at(call), "the connection and the fragment handed to EnqueueOutFrag are read from different records ("+expr(connV)+" vs "+expr(fragV)+"): a fragment is sent to the connection chosen for another slot")
			continue
		}
		// find where records of that struct type get their fields in OnCReact
		var stConn, stFrag ssa.Value
		var stBaseC, stBaseF string
		allInstrs(on, func(in ssa.Instruction) {
			st, ok := in.(*ssa.Store)
			if !ok {
				return
			}
			fa, ok := st.Addr.(*ssa.FieldAddr)
			if !ok {
				return
			}
			switch fieldVar(fa.X.Type(), fa.Field) {
			case fc:
				stConn, stBaseC = st.Val, expr(fa.X)
			case ff:
				stFrag, stBaseF = st.Val, expr(fa.X)
			}
		})
		if stConn == nil || stFrag == nil || stBaseC != stBaseF {
			c.undecided("OnCReact: fragment/slot/connection pairing", c.at(call), "the record holding (fragment, connection) is not filled in one composite literal in OnCReact")
			continue
		}
		ok, why := pairOK(stConn, stFrag)
		c.check(ok, "OnCReact: fragment/slot/connection pairing", c.at(call), "record{frag, sConn} filled from one iteration of r.Body with sConn = getConn(r, slot); enqueue uses both fields of one record",
			"a fragment is queued on a connection that was not chosen for its own slot: "+why)
	}

	// getConn: route(r, slot) → ProxyPool[addr] → pool.Get()
	proxyPool := p.Field(pkgCore, "Engine", "ProxyPool")
	poolGet := p.Method(pkgCore, "Pool", "Get")
	rc := p.callsIn(getConn, route)
	okRoute := len(rc) == 1 && strip(rc[0].Common().Args[1]) == ssa.Value(getConn.Params[1]) && strip(rc[0].Common().Args[2]) == ssa.Value(getConn.Params[2])
	if len(rc) == 1 {
		c.check(okRoute, "getConn: route(r, slot)", c.at(rc[0]), "own parameters", "getConn routes another request or slot than the one it was given")
	} else {
		c.bad("getConn: route(r, slot)", p.pos(getConn.Pos()), fmt.Sprintf("expected one route call, found %d", len(rc)))
	}
	nret := 0
	allInstrs(getConn, func(in ssa.Instruction) {
		r, ok := in.(*ssa.Return)
		if !ok {
			return
		}
		// the connection among what is returned: result #0 of the tuple, or the SConn field of a returned struct
		connV := componentOfType(retComponents(r), func(t types.Type) bool { n, ok := t.(*types.Named); return ok && n.Obj().Name() == "SConn" })
		if connV == nil || isNilConst(connV) {
			return
		}
		nret++
		okConn := false
		desc := expr(connV)
		if call, ok := p.isCallTo(strip(connV), poolGet); ok {
			if ex, ok := strip(call.Call.Args[0]).(*ssa.Extract); ok && ex.Index == 0 {
				if lk, ok := ex.Tuple.(*ssa.Lookup); ok {
					if _, isPP := fieldLoad(lk.X, proxyPool); isPP {
						if kx, ok := strip(lk.Index).(*ssa.Extract); ok && kx.Index == 0 && len(rc) == 1 && kx.Tuple == rc[0].Value() {
							okConn = true
						}
					}
				}
			}
		}
		c.check(okConn, "getConn: returned connection", c.at(r), "ProxyPool[route(r, slot).addr].Get()",
			"getConn returns "+desc+", which is not a connection drawn from the pool of the routed address")
	})
	if nret == 0 {
		c.undecided("getConn: returned connection", p.pos(getConn.Pos()), "no success return found")
	}
}

// ---------------------------------------------------------------------------------------------

func ruleC04_4(c *Ctx) {
	p := c.P
	body := p.Field(pkgCore, "Msg", "Body")
	hash := p.PkgFunc(pkgHash, "Hash")
	if body == nil || hash == nil {
		c.undecided("Msg.Body / hashkit.Hash", "-", "not found")
		return
	}
	frags := p.Field(pkgCore, "Msg", "Frags")
	frags2 := p.Field(pkgCore, "Msg", "Frags2")
	// a helper with a single return (`slot := resp.addKey(key)`, which records the key and returns its slot) is seen through
	helperRet := func(call *ssa.Call) []ssa.Value {
		h := call.Call.StaticCallee()
		if h == nil || !p.isHelper(h) || h.Signature.Results().Len() != 1 {
			return nil
		}
		rets := returnsReachable(h)
		if len(rets) != 1 {
			return nil
		}
		bindCall(h, call.Call.Args)
		return []ssa.Value{results(rets[0].(*ssa.Return))[0]}
	}
	keyIsHash := func(fn *ssa.Function, k ssa.Value) (bool, string) {
		roots := flowRoots(k, helperRet)
		var why []string
		for _, r := range roots {
			if _, ok := p.isCallTo(r, hash); ok {
				continue
			}
			if cst, ok := r.(*ssa.Const); ok && cst.Value != nil && cst.Int64() == 0 {
				continue // zero value of `var slot int32` before the key argument is seen
			}
			// range key of Frags / Frags2
			if ex, ok := r.(*ssa.Extract); ok && ex.Index == 1 {
				if nx, ok := ex.Tuple.(*ssa.Next); ok {
					if rg, ok := nx.Iter.(*ssa.Range); ok {
						if _, is := fieldLoad(rg.X, frags); is {
							continue
						}
						if _, is := fieldLoad(rg.X, frags2); is {
							continue
						}
					}
				}
			}
			why = append(why, expr(r))
		}
		return len(why) == 0, strings.Join(why, "; ")
	}
	n := 0
	for _, f := range []*types.Var{body, frags, frags2} {
		for _, w := range p.fieldWrites(f) {
			if w.Kind != "mapupdate" {
				continue
			}
			n++
			c.touch(homeFn(w.Fn))
			ok, why := keyIsHash(w.Fn, w.Key)
			c.check(ok, "Msg."+f.Name()+" key in "+shortFn(homeFn(w.Fn)), c.at(w.Instr), "slot = hashkit.Hash(key) (or the key of a map so keyed)",
				"a fragment is filed under a slot that does not come from hashkit.Hash of a request key ("+why+"): it is routed to a node that does not own its keys")
		}
	}
	c.examined(n)
}

// ---------------------------------------------------------------------------------------------

// parseRESPCommand parses one RESP array of bulk strings and returns its elements; ok is false if s is
// not exactly one well-formed command.
func parseRESPCommand(s string) ([]string, bool) {
	if len(s) == 0 || s[0] != '*' {
		return nil, false
	}
	readLine := func() (string, bool) {
		i := strings.Index(s, "\r\n")
		if i < 0 {
			return "", false
		}
		l := s[:i]
		s = s[i+2:]
		return l, true
	}
	l, ok := readLine()
	if !ok {
		return nil, false
	}
	n, err := strconv.Atoi(l[1:])
	if err != nil || n < 1 {
		return nil, false
	}
	var out []string
	for i := 0; i < n; i++ {
		l, ok := readLine()
		if !ok || len(l) < 2 || l[0] != '$' {
			return nil, false
		}
		k, err := strconv.Atoi(l[1:])
		if err != nil || k < 0 || len(s) < k+2 || s[k:k+2] != "\r\n" {
			return nil, false
		}
		out = append(out, s[:k])
		s = s[k+2:]
	}
	return out, s == ""
}

func ruleC04_5(c *Ctx) {
	p := c.P
	// literals
	if s, ok := p.ConstString(pkgServer, "ReadOnly"); ok {
		args, wf := parseRESPCommand(s)
		c.check(wf && len(args) == 1 && strings.EqualFold(args[0], "READONLY"), "server.ReadOnly literal", "-", fmt.Sprintf("%q parses as [READONLY]", s),
			fmt.Sprintf("%q is not the single well-formed command READONLY: the handshake on replica connections is rejected or desynchronises the reply stream", s))
	} else {
		c.undecided("server.ReadOnly literal", "-", "constant not found")
	}
	if s, ok := p.ConstString(pkgServer, "AuthCmd"); ok {
		inst := strings.Replace(strings.Replace(s, "%s", "6", 1), "%s", "secret", 1)
		args, wf := parseRESPCommand(inst)
		c.check(wf && len(args) == 2 && strings.EqualFold(args[0], "AUTH") && args[1] == "secret" && strings.Count(s, "%s") == 2, "server.AuthCmd template", "-",
			fmt.Sprintf("%q instantiates to [auth <password>]", s), fmt.Sprintf("%q does not instantiate to a well-formed AUTH <password> command", s))
	} else {
		c.undecided("server.AuthCmd template", "-", "constant not found")
	}
	// OnBoot: authCmd = Sprintf(AuthCmd, Itoa(len(Password)), Password)
	authCmd := p.Global(pkgServer, "authCmd")
	onBoot := c.needMethod(pkgServer, "listenServer", "OnBoot")
	password := p.Field(pkgServer, "Options", "Password")
	if authCmd != nil && onBoot != nil {
		nw := 0
		for _, fn := range p.Funcs {
			allInstrs(fn, func(in ssa.Instruction) {
				st, ok := in.(*ssa.Store)
				if !ok || st.Addr != ssa.Value(authCmd) {
					return
				}
				nw++
				okV := false
				if call, ok := st.Val.(*ssa.Call); ok && staticCalleeName(&call.Call) == "fmt.Sprintf" && homeFn(fn) == onBoot {
					els := varargElems(call.Call.Args[1])
					if len(els) == 2 {
						e0, e1 := expr(strip(els[0])), expr(strip(els[1]))
						okV = strings.HasPrefix(e0, "strconv.Itoa(builtin:len(") && strings.Contains(e0, ".Password") && strings.HasSuffix(e1, ".Password")
					}
					if s, ok := constString(call.Call.Args[0]); !ok || !strings.Contains(s, "auth") {
						okV = false
					}
				}
				c.check(okV, "authCmd assignment in "+shortFn(homeFn(fn)), c.at(in), "Sprintf(AuthCmd, Itoa(len(Password)), Password) in OnBoot",
					"the AUTH command is not built as AuthCmd(len(password), password) in OnBoot: the length prefix and the password disagree or it is set elsewhere")
			})
		}
		if nw == 0 {
			c.undecided("authCmd assignment", "-", "no store to server.authCmd found")
		}
	}
	_ = password
	// OnSOpened: step++ paired with each appended command, guarded correctly
	if so := c.needMethod(pkgServer, "listenServer", "OnSOpened"); so != nil && authCmd != nil {
		c.examined(len(so.Blocks))
		isSlave := p.Method(pkgCore, "conn", "IsSlave")
		type part struct {
			name  string
			block *ssa.BasicBlock
			pos   ssa.Instruction
		}
		var parts []part
		// (the command string and the counter may be computed in a helper of OnSOpened: `initSequence(s.IsSlave())`)
		resolve := func(v ssa.Value) ssa.Value {
			if b, ok := boundParam(v); ok {
				return strip(b)
			}
			return v
		}
		p.allInstrsDeep(so, func(in ssa.Instruction) {
			bo, ok := in.(*ssa.BinOp)
			if !ok || bo.Op != token.ADD {
				return
			}
			if b, ok := bo.Type().Underlying().(*types.Basic); !ok || b.Kind() != types.String {
				return
			}
			switch {
			case strings.Contains(expr(bo.Y), "server.authCmd"):
				parts = append(parts, part{"AUTH", bo.Block(), in})
			case func() bool { s, ok := constString(bo.Y); return ok && strings.Contains(s, "READONLY") }():
				parts = append(parts, part{"READONLY", bo.Block(), in})
			}
		})
		for _, pt := range parts {
			// exactly one `step + 1` in the same block
			incs := 0
			for _, in := range pt.block.Instrs {
				if bo, ok := in.(*ssa.BinOp); ok && bo.Op == token.ADD && isOne(bo.Y) {
					if b, ok := bo.Type().Underlying().(*types.Basic); ok && b.Kind() == types.Int8 {
						incs++
					}
				}
			}
			c.check(incs == 1, "OnSOpened: "+pt.name+" counted once", c.at(pt.pos), "step++ next to the appended command",
				fmt.Sprintf("the %s command is appended to the handshake with %d step increments in its block: InitializingDecode waits for the wrong number of +OK and the first real reply is swallowed or the connection never initialises", pt.name, incs))
			gs := guardsOf(pt.pos)
			switch pt.name {
			case "AUTH":
				okG := guardHas(gs, func(g Guard) bool {
					x, op, y, ok := cmpGuard(g)
					k, isK := constInt(y)
					return ok && op == token.GTR && isK && k == 0 && strings.Contains(expr(x), "server.authCmd")
				})
				c.check(okG, "OnSOpened: AUTH only with a password", c.at(pt.pos), "len(authCmd) > 0", "AUTH is sent without the len(authCmd) > 0 guard", withGuards(gs))
			case "READONLY":
				okG := guardHas(gs, func(g Guard) bool {
					call, ok := resolve(g.Cond).(*ssa.Call)
					return ok && g.Truth && call.Call.IsInvoke() && call.Call.Method.Name() == "IsSlave" && strip(call.Call.Value) == ssa.Value(so.Params[1])
				})
				c.check(okG, "OnSOpened: READONLY exactly on replica connections", c.at(pt.pos), "s.IsSlave()", "READONLY is not guarded by s.IsSlave(): replica connections would refuse reads (MOVED) or masters get a pointless command", withGuards(gs))
			}
			// the two parts are independent: READONLY does not depend on the password test and AUTH not on the role
			cross := ""
			for _, g := range guardsAtRaw(pt.block) {
				e := expr(resolve(g.Cond))
				if pt.name == "READONLY" && strings.Contains(e, "server.authCmd") {
					cross = g.String()
				}
				if pt.name == "AUTH" && strings.Contains(e, "IsSlave") {
					cross = g.String()
				}
			}
			c.check(cross == "", "OnSOpened: "+pt.name+" does not depend on the other part", c.at(pt.pos), "independent conditions",
				"the "+pt.name+" part of the handshake is sent only under "+cross+" (e.g. AUTH and READONLY as alternative cases of one switch): with a password configured replica connections get no READONLY, every replica answers reads with -MOVED and the master serves them all")
		}
		_ = isSlave
		c.check(len(parts) == 2, "OnSOpened: handshake parts", p.pos(so.Pos()), "AUTH and READONLY", fmt.Sprintf("expected the AUTH and READONLY parts, found %d", len(parts)))
		// the step handed to the connection is the counter
		okStep := false
		allInstrs(so, func(in ssa.Instruction) {
			if call, ok := in.(*ssa.Call); ok && call.Call.IsInvoke() && call.Call.Method.Name() == "SetInitializeStep" {
				if _, isPhi := throughTuple(call.Call.Args[0]).(*ssa.Phi); isPhi {
					okStep = true
				}
			}
		})
		c.check(okStep, "OnSOpened: SetInitializeStep(step)", p.pos(so.Pos()), "the counted steps are recorded on the connection", "the number of expected handshake replies recorded on the connection is not the counter")
	}
	// InitializingDecode discards step * len(OK)
	if id := c.needMethod(pkgCore, "SRespCodec", "InitializingDecode"); id != nil {
		okD := false
		var at ssa.Instruction
		allInstrs(id, func(in ssa.Instruction) {
			if call, ok := in.(*ssa.Call); ok && call.Call.IsInvoke() && call.Call.Method.Name() == "Discard" {
				at = in
				e := expr(call.Call.Args[0])
				okD = strings.Contains(e, "invoke<InitializeStep>") && (strings.Contains(e, "(rcproxy/core/codec.Status).Len(\"+OK\\r\\n\")") || strings.Contains(e, "builtin:len(\"+OK\\r\\n\")")) && strings.Contains(e, " * ")
			}
		})
		if at == nil {
			c.bad("InitializingDecode: discard", p.pos(id.Pos()), "the handshake replies are never consumed")
		} else {
			c.check(okD, "InitializingDecode: discard", c.at(at), "Discard(step * len(+OK))", "the handshake decoder does not discard exactly step × len(\"+OK\\r\\n\") bytes: the first client reply on the connection is shifted")
		}
	}
	// engine.Dial: success return dominated by el.open(conn)
	if dial := c.needMethod(pkgCore, "engine", "Dial"); dial != nil {
		open := p.Method(pkgCore, "eventloop", "open")
		oc := p.callsIn(dial, open)
		allInstrs(dial, func(in ssa.Instruction) {
			r, ok := in.(*ssa.Return)
			if !ok || len(r.Results) != 2 || !isNilConst(results(r)[1]) {
				return
			}
			dom := false
			for _, o := range oc {
				if dominatesInstr(o.(ssa.Instruction), r) {
					dom = true
				}
			}
			// or: the return is on the err == nil edge of a helper (eventloop.register) all of whose possibly-nil
			// returns come after / are the result of el.open
			for _, g := range guardsAt(r.Block()) {
				x, op, y, ok := cmpGuard(g)
				if !ok || op != token.EQL || !isNilConst(y) {
					continue
				}
				if ex, isEx := x.(*ssa.Extract); isEx {
					x = ex.Tuple
				}
				if call, isCall := x.(*ssa.Call); isCall {
					if h := call.Call.StaticCallee(); h != nil && p.isHelper(h) && calledOnNilPaths(p, h, open, 2) {
						dom = true
					}
				}
			}
			c.check(dom, "engine.Dial: handshake before hand-out", c.at(r), "the success return is dominated by el.open(conn), which writes or buffers the handshake",
				"a backend connection can be returned to the pool user before el.open wrote the handshake: the first request precedes AUTH/READONLY")
		})
	}
	// serve: OnBoot precedes the creation of pools and the start of the engine
	if serve := c.need(pkgCore + ".serve"); serve != nil {
		var boot ssa.Instruction
		allInstrs(serve, func(in ssa.Instruction) {
			if call, ok := in.(*ssa.Call); ok && call.Call.IsInvoke() && call.Call.Method.Name() == "OnBoot" {
				boot = in
			}
		})
		newPool := p.Method(pkgCore, "engine", "newPool")
		start := p.Method(pkgCore, "engine", "start")
		if boot == nil {
			c.bad("serve: OnBoot", p.pos(serve.Pos()), "OnBoot is never called: the AUTH command is never built")
		} else {
			okOrder := true
			for _, x := range p.callsToAny(serve, newPool, start) {
				if !dominatesInstr(boot, x.(ssa.Instruction)) {
					okOrder = false
				}
			}
			c.check(okOrder, "serve: OnBoot before pools", c.at(boot), "OnBoot dominates newPool and engine.start", "pools are created or the engine started before OnBoot built the AUTH command: preconnected connections skip authentication")
		}
	}
	// main: same password to both halves
	if m := c.need(pkgMain + ".main"); m != nil {
		var a, b ssa.Value
		allInstrs(m, func(in ssa.Instruction) {
			if call, ok := in.(*ssa.Call); ok {
				switch staticCalleeName(&call.Call) {
				case "rcproxy/core/server.WithRedisPassword":
					a = call.Call.Args[0]
				case "rcproxy/core.WithRedisPasswd":
					b = call.Call.Args[0]
				}
			}
		})
		if a == nil || b == nil {
			c.undecided("main: password options", p.pos(m.Pos()), "WithRedisPassword / WithRedisPasswd call not found")
		} else {
			c.check(expr(a) == expr(b), "main: one password for handler and engine", p.pos(m.Pos()), expr(a),
				"the handler (AUTH command) and the engine (handshake accounting, probes) are configured from different values: "+expr(a)+" vs "+expr(b))
		}
	}
	// Pool.isSlave writers
	if f := p.Field(pkgCore, "Pool", "isSlave"); f != nil {
		release := p.Method(pkgCore, "Pool", "Release")
		for _, w := range p.fieldWrites(f) {
			encl := homeFn(w.Fn)
			name := "Pool.isSlave write in " + shortFn(encl)
			switch encl.Name() {
			case "newPool":
				c.ok(name, c.at(w.Instr), "initial role")
			case "SetIsSlave":
				// a role change drops the existing connections so that new ones handshake for the new role
				rel := false
				for _, rc := range p.callsIn(encl, release) {
					if canReach(w.Instr, rc.(ssa.Instruction)) || dominatesInstr(rc.(ssa.Instruction), w.Instr) {
						rel = true
					}
				}
				c.check(rel, name, c.at(w.Instr), "role change releases the pooled connections", "a pool changes role without releasing its connections: connections opened for a master keep serving a replica without READONLY")
			default:
				c.bad(name, c.at(w.Instr), "the role of a pool is changed outside newPool/SetIsSlave")
			}
		}
	}
}

// ---------------------------------------------------------------------------------------------

func ruleC04_6(c *Ctx) {
	p := c.P
	proxyPool := p.Field(pkgCore, "Engine", "ProxyPool")
	newPool := p.Method(pkgCore, "engine", "newPool")
	if proxyPool == nil || newPool == nil {
		c.undecided("Engine.ProxyPool / newPool", "-", "not found")
		return
	}
	n := 0
	for _, w := range p.fieldWrites(proxyPool) {
		if w.Kind != "mapupdate" {
			continue
		}
		n++
		call, ok := p.isCallTo(strip(w.Val), newPool)
		okK := ok && expr(strip(call.Call.Args[1])) == expr(strip(w.Key))
		c.check(okK, "ProxyPool registration in "+shortFn(homeFn(w.Fn)), c.at(w.Instr), "ProxyPool[a] = newPool(a, …)",
			"a pool is registered under a key that differs from the address it dials: requests routed to one node are sent to another")
	}
	c.examined(n)
	if n == 0 {
		c.undecided("ProxyPool registration", "-", "no ProxyPool[...] = ... found")
	}
	// newPool stores its addr parameter; dial uses p.Addr
	addr := p.Field(pkgCore, "Pool", "Addr")
	for _, w := range p.fieldWrites(addr) {
		if homeFn(w.Fn) == newPool {
			c.check(strip(w.Val) == ssa.Value(newPool.Params[1]), "newPool: Pool.Addr", c.at(w.Instr), "the addr parameter", "newPool records another address than the one it was given")
		}
	}
	if d := c.needMethod(pkgCore, "Pool", "dial"); d != nil {
		okD := false
		allInstrs(d, func(in ssa.Instruction) {
			if call, ok := in.(*ssa.Call); ok && !call.Call.IsInvoke() && call.Call.StaticCallee() == nil && len(call.Call.Args) == 2 {
				if base, ok := fieldLoad(call.Call.Args[0], addr); ok && strip(base) == ssa.Value(d.Params[0]) {
					okD = true
				}
			}
		})
		c.check(okD, "Pool.dial dials p.Addr", p.pos(d.Pos()), "p.Dial(p.Addr, p.isSlave)", "Pool.dial does not dial the pool's own address")
	}
}

// ---------------------------------------------------------------------------------------------
// C20

func routePick(c *Ctx) (route *ssa.Function, pick *ssa.Call, ret *ssa.Return) {
	route = c.needMethod(pkgServer, "listenServer", "route")
	if route == nil {
		return
	}
	allInstrs(route, func(in ssa.Instruction) {
		if call, ok := in.(*ssa.Call); ok && strings.HasPrefix(staticCalleeName(&call.Call), "math/rand.Int") {
			pick = call
		}
	})
	if pick == nil {
		c.undecided("route: random pick", c.P.pos(route.Pos()), "no math/rand call found in route")
		return
	}
	allInstrs(route, func(in ssa.Instruction) {
		if r, ok := in.(*ssa.Return); ok && r.Block() == pick.Block() {
			ret = r
		}
	})
	return
}

func ruleC20_1(c *Ctx) {
	route, pick, _ := routePick(c)
	if route == nil || pick == nil {
		return
	}
	c.examined(len(route.Blocks))
	ls := c.P.Global(pkgServer, "liveSlaves")
	// the loop(s) that append to liveSlaves
	loops := loopsOf(route)
	var collect *Loop
	allInstrs(route, func(in ssa.Instruction) {
		if st, ok := in.(*ssa.Store); ok && st.Addr == ssa.Value(ls) {
			if l := innermostLoop(loops, st.Block()); l != nil {
				collect = l
			}
		}
	})
	if collect == nil {
		c.undecided("route: collecting loop", c.P.pos(route.Pos()), "no loop appending to liveSlaves found")
		return
	}
	c.check(!collect.Blocks[pick.Block()], "route: pick outside the collecting loop", c.at(pick),
		"the pick is evaluated after the loop over the replicas has finished",
		"the random pick is inside the loop that builds the candidate list: after the first admissible replica the list has one element and is returned, so the first healthy replica serves all reads")
	// and it is only reachable through the loop's exhaustion edge
	viaExit := false
	for _, e := range collect.exitEdges() {
		if e[0] == collect.Header && e[1].Dominates(pick.Block()) {
			viaExit = true
		}
	}
	// no other way out of the loop (break, goto) may lead to the pick
	for _, e := range collect.exitEdges() {
		if e[0] != collect.Header && (e[1] == pick.Block() || reachableBlocks(e[1], nil)[pick.Block()]) {
			viaExit = false
		}
	}
	c.check(viaExit, "route: pick dominated by loop exhaustion", c.at(pick), "reached only after every replica was examined",
		"the pick can be reached by leaving the collecting loop early (break/return inside an iteration): later replicas are never candidates")
}

func ruleC20_2(c *Ctx) {
	route, pick, ret := routePick(c)
	if route == nil || pick == nil {
		return
	}
	if ret == nil {
		c.undecided("route: pick is returned", c.at(pick), "the block of the pick does not return")
		return
	}
	// return X[rand.Intn(len(X))]
	okP := false
	desc := expr(ret.Results[0])
	if ld, ok := ret.Results[0].(*ssa.UnOp); ok {
		if ia, ok := ld.X.(*ssa.IndexAddr); ok && ia.Index == ssa.Value(pick) && staticCalleeName(&pick.Call) == "math/rand.Intn" {
			arg := expr(pick.Call.Args[0])
			okP = arg == "builtin:len("+expr(ia.X)+")"
		}
	}
	c.check(okP, "route: uniform index over the candidate slice", c.at(pick), "X[rand.Intn(len(X))]",
		"the replica is picked as "+desc+": the index is not rand.Intn(len(x)) of the slice being indexed, so some candidates can never (or disproportionately) be chosen")
}

func ruleC20_3(c *Ctx) {
	p := c.P
	route := c.needMethod(pkgServer, "listenServer", "route")
	if route == nil {
		return
	}
	ls := p.Global(pkgServer, "liveSlaves")
	slaves := p.Field(pkgCore, "replicaset", "Slaves")
	addr := p.Field(pkgCore, "ClusterNode", "Addr")
	proxyPool := p.Field(pkgCore, "Engine", "ProxyPool")
	get := p.Method(pkgCore, "slotReplicaset", "Get")
	if ls == nil {
		c.undecided("server.liveSlaves", "-", "not found")
		return
	}
	loops := loopsOf(route)
	resets, appends := 0, 0
	allInstrs(route, func(in ssa.Instruction) {
		st, ok := in.(*ssa.Store)
		if !ok || st.Addr != ssa.Value(ls) {
			return
		}
		if sl, ok := st.Val.(*ssa.Slice); ok && sl.High != nil && isZero(sl.High) {
			resets++
			c.check(innermostLoop(loops, st.Block()) == nil, "route: candidate list reset once per call", c.at(in), "liveSlaves = liveSlaves[:0] before the loop",
				"the candidate list is reset inside the loop")
			return
		}
		call, ok := st.Val.(*ssa.Call)
		if !ok {
			c.bad("route: liveSlaves assignment", c.at(in), "unexpected assignment to the candidate list: "+expr(st.Val))
			return
		}
		appends++
		els := varargElems(call.Call.Args[len(call.Call.Args)-1])
		okE := false
		desc := "?"
		if len(els) == 1 {
			desc = expr(els[0])
			if node, ok := fieldLoad(els[0], addr); ok {
				// node is an element of Slots2Node.Get(slot).Slaves
				if ld, ok := strip(node).(*ssa.UnOp); ok {
					if ia, ok := ld.X.(*ssa.IndexAddr); ok {
						if rs, ok := fieldLoad(ia.X, slaves); ok {
							if gc, ok := p.isCallTo(rs, get); ok && strip(gc.Call.Args[1]) == ssa.Value(route.Params[2]) {
								okE = true
							}
						}
					}
				}
				// and the pool presence test for the same node dominates
				gs := guardsOf(st)
				present := guardHas(gs, func(g Guard) bool {
					ex, ok := g.Cond.(*ssa.Extract)
					if !ok || ex.Index != 1 || !g.Truth {
						return false
					}
					lk, ok := ex.Tuple.(*ssa.Lookup)
					if !ok {
						return false
					}
					if _, isPP := fieldLoad(lk.X, proxyPool); !isPP {
						return false
					}
					n2, ok := fieldLoad(lk.Index, addr)
					return ok && expr(n2) == expr(node)
				})
				c.check(present, "route: candidate has a pool", c.at(in), "dominated by ProxyPool[v.Addr] present", "a replica without a connection pool becomes a candidate: reads routed to it fail with 'unknown proxy pool'", withGuards(gs))
			}
		}
		c.check(okE, "route: candidate is a replica of the slot's set", c.at(in), "append(liveSlaves, v.Addr) with v ∈ Slots2Node.Get(slot).Slaves",
			"the address appended to the candidate list is "+desc+", not the address of the replica being examined for this slot")
	})
	c.examined(len(route.Blocks))
	c.check(resets == 1, "route: candidate list reset", p.pos(route.Pos()), "one reset", fmt.Sprintf("expected one reset of liveSlaves per call, found %d: candidates of earlier requests (other slots) leak into this pick", resets))
	// every element of the list that is returned was put there by this call: the reset dominates every read of an element
	var reset ssa.Instruction
	allInstrs(route, func(in ssa.Instruction) {
		if st, ok := in.(*ssa.Store); ok && st.Addr == ssa.Value(ls) {
			if sl, ok := st.Val.(*ssa.Slice); ok && sl.High != nil && isZero(sl.High) {
				reset = in
			}
		}
	})
	stale := ""
	allInstrs(route, func(in ssa.Instruction) {
		ia, ok := in.(*ssa.IndexAddr)
		if !ok {
			return
		}
		if ld, ok := strip(ia.X).(*ssa.UnOp); ok && ld.X == ssa.Value(ls) {
			if reset == nil || !dominatesInstr(reset, in) {
				stale = c.at(in)
			}
		}
	})
	pos := p.pos(route.Pos())
	if stale != "" {
		pos = stale
	}
	c.check(stale == "", "route: a candidate is picked only from this call's list", pos, "the reset dominates every liveSlaves[i]",
		"an element of the candidate list is read on a path that did not rebuild the list for this slot (e.g. a per-request cache keyed by Msg.Id): the second fragment of an MGET is sent to a replica of the first fragment's replica set")
	if appends == 0 {
		c.undecided("route: candidates", p.pos(route.Pos()), "no append to liveSlaves found")
	}
}

// calledOnNilPaths: every return of helper h whose (last) error result may be nil is preceded by - or is the
// result of - a call of target (directly or through a further helper with the same property).
func calledOnNilPaths(p *Prog, h, target *ssa.Function, depth int) bool {
	if h == nil || h.Blocks == nil || depth < 0 {
		return false
	}
	var calls []ssa.Instruction
	allInstrs(h, func(in ssa.Instruction) {
		if ci, ok := in.(ssa.CallInstruction); ok {
			callee := ci.Common().StaticCallee()
			if callee == nil {
				return
			}
			if p.declared(callee) == p.declared(target) || (p.isHelper(callee) && calledOnNilPaths(p, callee, target, depth-1)) {
				calls = append(calls, in)
			}
		}
	})
	rets := returnsReachable(h)
	if len(rets) == 0 {
		return false
	}
	for _, r := range rets {
		rs := results(r.(*ssa.Return))
		if len(rs) == 0 {
			return false
		}
		rv := rs[len(rs)-1]
		nonNil := false
		for _, g := range guardsAtRaw(r.Block()) {
			if x, op, y, ok := cmpGuard(g); ok && op == token.NEQ && isNilConst(y) && x == rv {
				nonNil = true
			}
		}
		if nonNil {
			continue
		}
		okR := false
		for _, cl := range calls {
			if dominatesInstr(cl, r) {
				okR = true
			}
		}
		if !okR {
			return false
		}
	}
	return true
}

// componentOfType picks the (first) returned component whose type satisfies pred.
func componentOfType(comps []ssa.Value, pred func(types.Type) bool) ssa.Value {
	for _, v := range comps {
		if v != nil && pred(v.Type()) {
			return v
		}
	}
	return nil
}

package main

import (
	"fmt"
	"go/token"
	"go/types"
	"strings"

	"golang.org/x/tools/go/ssa"
)

func init() {
	rule("C08.1", "E3", "the event loop keeps the unconsumed bytes exactly on the 'incomplete' exit of its read loops", 4, ruleC08_1)
	rule("C08.2", "E3+E4+E8", "'invalid RESP' is decided only from content that is present (a byte, or a number parsed from a complete line), never from how many bytes have arrived", 8, ruleC08_2)
	rule("C08.3", "E8", "every decode attempt starts from the first unconsumed byte: Peek(0) of the connection, read cursor reset to 0", 4, ruleC08_3)
	rule("C08.4", "E3", "a pooled inbound ring buffer is emptied before it is handed to the next connection", 2, ruleC08_4)

	rule("C09.1", "E3+E4", "the flush gate is a prefix predicate on the head of the queue, never a scan of the whole queue", 2, ruleC09_1)
	rule("C09.2", "E3", "after a completed fragment the flush gate is reached unless the reply belongs to nobody, the client is gone, or its queue is empty", 3, ruleC09_2)

	rule("C10.1", "E5c", "FragQueue: PushTail links the new element on the link that PopHead follows from the popped end", 3, func(c *Ctx) { queueOrientation(c, "FragQueue", "Frag") })
	rule("C10.2", "E3+E8", "the write drain moves each fragment from the out queue to the in-flight queue and appends its bytes, in queue order, and writes the vector front to back", 5, ruleC10_2)
	rule("C10.3", "E2", "routing enqueues synchronously: EnqueueOutFrag pushes in its own body before signalling; only EnqueueOutFrag and enqueueInFrag push on a FragQueue", 3, ruleC10_3)
}

// ---------------------------------------------------------------------------------------------

func ruleC08_1(c *Ctx) {
	p := c.P
	rbWrite := p.Method(pkgElastic, "RingBuffer", "Write")
	inb := p.Field(pkgCore, "conn", "inboundBuffer")
	bufF := p.Field(pkgCore, "conn", "buffer")
	if rbWrite == nil || inb == nil || bufF == nil {
		c.undecided("anchors RingBuffer.Write / conn.inboundBuffer / conn.buffer", "-", "not found")
		return
	}
	for _, spec := range []struct{ fn, rd string }{{"cread", "cread"}, {"sread", "sread"}} {
		fn := c.needMethod(pkgCore, "eventloop", spec.fn)
		rd := c.needMethod(pkgCore, "conn", spec.rd)
		if fn == nil || rd == nil {
			continue
		}
		c.examined(len(fn.Blocks))
		tag := "eventloop." + spec.fn
		conn := ssa.Value(fn.Params[1])
		// the save may sit in a helper shared by both read paths (`c.saveLeftover()`): each call site is looked at
		type save struct {
			sv     ssa.CallInstruction
			at     ssa.Instruction // in fn
			okArgs bool
			guards []Guard
		}
		var saves []save
		p.virtualCalls(fn, []*ssa.Function{rbWrite}, func(sv ssa.CallInstruction) {
			x := save{sv: sv, guards: guardsOf(sv)}
			x.at = lift(sv.(ssa.Instruction), fn)
			if x.at == nil {
				x.at = sv.(ssa.Instruction)
			}
			// receiver &c.inboundBuffer, argument c.buffer, same connection
			if fa, ok := sv.Common().Args[0].(*ssa.FieldAddr); ok && fieldVar(fa.X.Type(), fa.Field) == inb && strip(fa.X) == conn {
				if base, ok := fieldLoad(sv.Common().Args[1], bufF); ok && strip(base) == conn {
					x.okArgs = true
				}
			}
			saves = append(saves, x)
		})
		if len(saves) != 1 {
			c.bad(tag+": leftover saved once", p.pos(fn.Pos()), fmt.Sprintf("expected one inboundBuffer.Write(c.buffer), found %d: unconsumed bytes of a request cut by TCP are lost or stored twice", len(saves)))
			continue
		}
		sv, at := saves[0].sv, saves[0].at
		c.check(saves[0].okArgs, tag+": leftover is c.buffer into c.inboundBuffer", c.at(sv), "c.inboundBuffer.Write(c.buffer)", "what is saved for the next round is not the connection's own unconsumed bytes")
		// only on the incomplete edge: guarded by err != nil of the reader's result, and not the invalid edge
		gs := saves[0].guards
		errNotNil := guardHas(gs, func(g Guard) bool {
			x, op, y, ok := cmpGuard(g)
			if !ok || op != token.NEQ || !isNilConst(y) {
				return false
			}
			ex, ok := x.(*ssa.Extract)
			if !ok || ex.Index != 1 {
				return false
			}
			_, is := p.isCallTo(ex.Tuple, rd)
			return is
		})
		c.check(errNotNil, tag+": leftover saved only when the decoder wants more bytes", c.at(sv), "dominated by err != nil of conn."+spec.rd+"()",
			"the unconsumed bytes are saved on a path that is not the decoder's 'incomplete' exit: bytes already handed to a request are parsed again (duplicated request) ", withGuards(gs))
		// once: not inside the loop body that iterates
		if l := innermostLoop(loopsOf(fn), at.Block()); l != nil {
			c.bad(tag+": leftover saved once per read", c.at(sv), "the save is inside the decode loop")
		}
		// after the save the function returns without decoding again
		exits := pathFrom(at, func(in ssa.Instruction) bool { return false })
		again := false
		pathFrom(at, func(in ssa.Instruction) bool {
			if call, ok := in.(*ssa.Call); ok {
				if _, is := p.isCallTo(call, rd); is {
					again = true
				}
			}
			return false
		})
		c.check(len(exits) > 0 && !again, tag+": returns after saving", c.at(sv), "no further decode in this round", "decoding continues after the leftover was copied: the same bytes are consumed from two places")
		// every return nil reachable from the reader's error edge passes the save, except close/shutdown paths: checked by
		// the must-pass rule: from the `err != nil` default edge (not Invalid, not redirect…) all paths to return pass the save
	}
}

// ---------------------------------------------------------------------------------------------

// contentDerived: v is computed from bytes that are present: an element of a byte slice/string, or the
// numeric result of parseLen on a line.
func (c *Ctx) contentDerived(v ssa.Value) bool {
	p := c.P
	parseLen := p.PkgFunc(pkgCore, "parseLen")
	seen := map[ssa.Value]bool{}
	var walk func(v ssa.Value) bool
	walk = func(v ssa.Value) bool {
		if v == nil || seen[v] {
			return false
		}
		seen[v] = true
		switch x := v.(type) {
		case *ssa.UnOp:
			if x.Op == token.MUL {
				if ia, ok := x.X.(*ssa.IndexAddr); ok {
					return isBytes(ia.X.Type())
				}
				return false
			}
			return walk(x.X)
		case *ssa.Index:
			return isBytes(x.X.Type())
		case *ssa.Lookup:
			return isBytes(x.X.Type())
		case *ssa.Extract:
			if call, ok := x.Tuple.(*ssa.Call); ok && x.Index == 0 && parseLen != nil && call.Call.StaticCallee() == parseLen {
				return true
			}
			// range over a byte slice: element
			if nx, ok := x.Tuple.(*ssa.Next); ok && x.Index == 2 {
				if rg, ok := nx.Iter.(*ssa.Range); ok {
					return isBytes(rg.X.Type())
				}
			}
			return false
		case *ssa.Convert:
			return walk(x.X)
		case *ssa.BinOp:
			return walk(x.X) || walk(x.Y)
		case *ssa.Phi:
			for _, e := range x.Edges {
				if walk(e) {
					return true
				}
			}
		case *ssa.Call:
			// a pure predicate/classifier of the module applied to content (`isDigit(p[i])`) looks at content
			if callee := x.Call.StaticCallee(); callee != nil && p.ownFunc(callee) && callee.Blocks != nil && p.isPure(callee, 0) {
				for _, a := range x.Call.Args {
					if walk(a) {
						return true
					}
				}
			}
		}
		return false
	}
	return walk(v)
}

// decidingConds returns the branch outcomes through which control enters b: one per incoming edge
// (the lowering of `a || b` gives the guarded block two incoming If edges). Plain jumps are followed
// backwards up to a small depth.
func decidingConds(b *ssa.BasicBlock, depth int) []Guard {
	var out []Guard
	if depth > 3 {
		return nil
	}
	for _, pr := range b.Preds {
		last := pr.Instrs[len(pr.Instrs)-1]
		if ifi, ok := last.(*ssa.If); ok && len(pr.Succs) == 2 && pr.Succs[0] != pr.Succs[1] {
			cond, truth := ifi.Cond, pr.Succs[0] == b
			for {
				u, ok := cond.(*ssa.UnOp)
				if !ok || u.Op != token.NOT {
					break
				}
				cond, truth = u.X, !truth
			}
			out = append(out, Guard{Cond: cond, Truth: truth, If: ifi})
			continue
		}
		sub := decidingConds(pr, depth+1)
		if len(sub) == 0 {
			return nil
		}
		out = append(out, sub...)
	}
	return out
}

func isBytes(t types.Type) bool {
	switch u := t.Underlying().(type) {
	case *types.Slice:
		b, ok := u.Elem().Underlying().(*types.Basic)
		return ok && b.Kind() == types.Uint8
	case *types.Basic:
		return u.Kind() == types.String
	case *types.Pointer:
		if a, ok := u.Elem().Underlying().(*types.Array); ok {
			b, ok := a.Elem().Underlying().(*types.Basic)
			return ok && b.Kind() == types.Uint8
		}
	case *types.Array:
		b, ok := u.Elem().Underlying().(*types.Basic)
		return ok && b.Kind() == types.Uint8
	}
	return false
}

func ruleC08_2(c *Ctx) {
	p := c.P
	invalid := p.Global(pkgCodec, "ErrInvalidResp")
	if invalid == nil {
		c.undecided("codec.ErrInvalidResp", "-", "not found")
		return
	}
	var fns []*ssa.Function
	for _, m := range []string{"Decode", "parseLine", "Frag1", "Frag2", "Eval", "Default"} {
		if f := c.needMethod(pkgCore, "CRespCodec", m); f != nil {
			fns = append(fns, f)
		}
	}
	if f := c.needMethod(pkgCore, "SRespCodec", "readReply"); f != nil {
		fns = append(fns, f)
	}
	if f := c.need(pkgCore + ".parseLen"); f != nil {
		fns = append(fns, f)
	}
	for _, m := range []string{"ReadLine", "ReadN", "PeekN"} {
		if f := c.needMethod(pkgCodec, "Buffer", m); f != nil {
			fns = append(fns, f)
		}
	}
	n := 0
	for _, fn := range fns {
		c.examined(len(fn.Blocks))
		nret := 0
		allInstrs(fn, func(in ssa.Instruction) {
			r, ok := in.(*ssa.Return)
			if !ok {
				return
			}
			rs := results(r)
			if len(rs) == 0 {
				return
			}
			last := rs[len(rs)-1]
			ld, ok := last.(*ssa.UnOp)
			if !ok || ld.X != ssa.Value(invalid) {
				return
			}
			nret++
			n++
			name := fmt.Sprintf("%s: ErrInvalidResp return #%d", shortFn(fn), nret)
			gs := decidingConds(r.Block(), 0)
			if len(gs) == 0 {
				c.undecided(name, c.at(r), "the return is not reached through a branch: cannot decide what the verdict 'invalid' is based on")
				return
			}
			okAll := true
			var whys []string
			for _, g := range gs {
				okG := false
				if x, _, y, ok := cmpGuard(g); ok {
					if c.contentDerived(x) || c.contentDerived(y) {
						okG = true
					}
					// err == ErrInvalidResp (propagating a callee's verdict)
					if ldx, ok := y.(*ssa.UnOp); ok && ldx.X == ssa.Value(invalid) && g.Truth {
						okG = true
					}
				} else if c.contentDerived(g.Cond) {
					// a pure predicate of the module applied to content that is present (`!isDigit(p[i])`)
					okG = true
				}
				if !okG {
					okAll = false
					whys = append(whys, g.String())
				}
			}
			c.check(okAll, name, c.at(r), fmt.Sprintf("decided by %d content comparison(s)", len(gs)),
				"the verdict 'invalid RESP' (which closes the client) is taken on the condition "+strings.Join(whys, " / ")+", which does not look at content that is present (a byte, or a number parsed from a complete line): a request that is merely cut by TCP at this point is treated as an error instead of waiting for the rest", withGuards(gs))
		})
	}
	if n < 7 {
		c.undecided("ErrInvalidResp return sites", "-", fmt.Sprintf("only %d direct ErrInvalidResp returns found in the decoder closure (7 on the pinned tree)", n))
	}
	// the event loop closes the client only on ErrInvalidResp
	cread := c.needMethod(pkgCore, "eventloop", "cread")
	rd := c.needMethod(pkgCore, "conn", "cread")
	closeConn := p.Method(pkgCore, "eventloop", "closeConn")
	if cread == nil || rd == nil || closeConn == nil {
		return
	}
	// classify closeConn calls that depend on the decoder's error
	for _, cc := range p.callsIn(cread, closeConn) {
		gs := guardsOf(cc)
		isErr := func(v ssa.Value) bool {
			ex, ok := v.(*ssa.Extract)
			if !ok || ex.Index != 1 {
				return false
			}
			_, is := p.isCallTo(ex.Tuple, rd)
			return is
		}
		decoded := guardHas(gs, func(g Guard) bool {
			x, op, y, ok := cmpGuard(g)
			return ok && isErr(x) && isNilConst(y) && op == token.EQL
		})
		if decoded {
			continue // a request was decoded: later closes are driven by the handler's action
		}
		okInv := guardHas(gs, func(g Guard) bool {
			x, op, y, ok := cmpGuard(g)
			if !ok || !isErr(x) || op != token.EQL {
				return false
			}
			ldx, ok := y.(*ssa.UnOp)
			return ok && ldx.X == ssa.Value(invalid)
		})
		c.check(okInv, "eventloop.cread: close on decoder error only if invalid", c.at(cc), "err == codec.ErrInvalidResp",
			"the client is closed on a decoder error other than ErrInvalidResp: every 'need more bytes' error (request cut by TCP) kills the connection", withGuards(gs))
	}
	// conn.cread must pass the decoder's error through unchanged
	okPass := true
	allInstrs(rd, func(in ssa.Instruction) {
		if r, ok := in.(*ssa.Return); ok {
			rs := results(r)
			if len(rs) == 2 && !isNilConst(rs[1]) {
				if ex, ok := rs[1].(*ssa.Extract); !ok || ex.Index != 1 {
					okPass = false
				}
			}
		}
	})
	c.check(okPass, "conn.cread passes the decoder's error through", p.pos(rd.Pos()), "return nil, err", "conn.cread rewrites the decoder's error: the wait/invalid classification is lost")
}

// ---------------------------------------------------------------------------------------------

func ruleC08_3(c *Ctx) {
	p := c.P
	nb := c.need(pkgCodec + ".NewBuffer")
	if nb == nil {
		return
	}
	rF := p.Field(pkgCodec, "Buffer", "r")
	bufF := p.Field(pkgCodec, "Buffer", "buf")
	c.examined(len(nb.Blocks))
	// r = 0 on every path; buf = bs or nil
	reset := false
	allInstrs(nb, func(in ssa.Instruction) {
		if st, ok := in.(*ssa.Store); ok {
			if fa, ok := st.Addr.(*ssa.FieldAddr); ok && fieldVar(fa.X.Type(), fa.Field) == rF && isZero(st.Val) {
				if st.Block() == nb.Blocks[0] {
					reset = true
				}
			}
		}
	})
	c.check(reset, "codec.NewBuffer resets the read cursor", p.pos(nb.Pos()), "r = 0 in the entry block", "NewBuffer does not reset the shared buffer's read cursor on every call: a decode attempt starts in the middle of the bytes")
	okBuf := true
	nst := 0
	allInstrs(nb, func(in ssa.Instruction) {
		if st, ok := in.(*ssa.Store); ok {
			if fa, ok := st.Addr.(*ssa.FieldAddr); ok && fieldVar(fa.X.Type(), fa.Field) == bufF {
				nst++
				if !(strip(st.Val) == ssa.Value(nb.Params[0]) || isNilConst(st.Val)) {
					okBuf = false
				}
			}
		}
	})
	c.check(okBuf && nst >= 1, "codec.NewBuffer wraps its argument", p.pos(nb.Pos()), "buf = bs (or nil when empty)", "NewBuffer does not wrap exactly the bytes it was given")
	// Decode's buffer is NewBuffer(c.Peek(0)#0): part of C02.4; here: nothing else feeds the decoders
	for _, d := range []string{"CRespCodec", "SRespCodec"} {
		fn := c.needMethod(pkgCore, d, "Decode")
		if fn == nil {
			continue
		}
		calls := p.callsIn(fn, nb)
		okOne := len(calls) == 1
		if okOne {
			arg := strip(calls[0].Common().Args[0])
			ex, ok := arg.(*ssa.Extract)
			okOne = ok && ex.Index == 0
			if okOne {
				pk, ok := ex.Tuple.(*ssa.Call)
				okOne = ok && pk.Call.IsInvoke() && pk.Call.Method.Name() == "Peek" && len(pk.Call.Args) == 1 && isZero(pk.Call.Args[0]) && strip(pk.Call.Value) == ssa.Value(fn.Params[1])
			}
		}
		c.check(okOne, d+".Decode parses c.Peek(0)", p.pos(fn.Pos()), "all unconsumed bytes (leftover + fresh), from their start",
			"the decoder is not fed with Peek(0) of its connection (everything unconsumed, from the start): after a partial request the continuation is parsed without its beginning")
	}
}

// ---------------------------------------------------------------------------------------------

func ruleC08_4(c *Ctx) {
	p := c.P
	put := p.Method("rcproxy/core/pkg/pool/ringbuffer", "Pool", "Put")
	reset := p.Method(pkgRing, "Buffer", "Reset")
	if put == nil || reset == nil {
		c.undecided("ringbuffer.Pool.Put / ring.Buffer.Reset", "-", "not found")
		return
	}
	c.touch(put)
	c.examined(len(put.Blocks))
	// every sync.Pool.Put of the buffer is dominated by b.Reset()
	n := 0
	allInstrs(put, func(in ssa.Instruction) {
		call, ok := in.(*ssa.Call)
		if !ok || staticCalleeName(&call.Call) != "(*sync.Pool).Put" {
			return
		}
		n++
		dom := false
		for _, rc := range p.callsIn(put, reset) {
			if dominatesInstr(rc.(ssa.Instruction), in) && strip(rc.Common().Args[0]) == ssa.Value(put.Params[1]) {
				dom = true
			}
		}
		c.check(dom, "ringbuffer.Pool.Put resets before pooling", c.at(in), "b.Reset() dominates sync.Pool.Put",
			"a ring buffer goes back to the pool without being emptied: a connection that closed with a partial request leaves its bytes to the next connection that gets this buffer, whose request stream is then parsed behind a stranger's prefix")
	})
	if n == 0 {
		c.undecided("ringbuffer.Pool.Put", p.pos(put.Pos()), "no sync.Pool.Put found")
	}
	// elastic.RingBuffer hands its buffer back through that Put (Done / done)
	for _, m := range []string{"Done", "done"} {
		if f := p.Method(pkgElastic, "RingBuffer", m); f != nil {
			c.touch(f)
			okP := false
			allInstrs(f, func(in ssa.Instruction) {
				if call, ok := in.(*ssa.Call); ok && strings.HasSuffix(staticCalleeName(&call.Call), "pool/ringbuffer.Put") {
					okP = true
				}
			})
			c.check(okP, "elastic.RingBuffer."+m+" returns the buffer through the pool's Put", p.pos(f.Pos()), "rbPool.Put(b.rb)", "the ring buffer is released without going through the pool's Put (which empties it)")
		}
	}
}

// ---------------------------------------------------------------------------------------------

func flushGate(c *Ctx) (sread *ssa.Function, writes []ssa.CallInstruction) {
	sread = c.needMethod(pkgCore, "eventloop", "sread")
	writev := c.needMethod(pkgCore, "conn", "writev")
	if sread == nil || writev == nil {
		return nil, nil
	}
	return sread, c.P.callsIn(sread, writev)
}

func ruleC09_1(c *Ctx) {
	p := c.P
	sread, writes := flushGate(c)
	if sread == nil {
		return
	}
	if len(writes) == 0 {
		c.undecided("eventloop.sread: flush", p.pos(sread.Pos()), "no writev found")
		return
	}
	c.examined(len(sread.Blocks))
	msg := p.Named(pkgCore, "Msg")
	links := map[*types.Var]bool{}
	for _, l := range linkFields(msg) {
		links[l] = true
	}
	doneF := p.Field(pkgCore, "Msg", "Done")
	headF := p.Field(pkgCore, "MsgQueue", "head")
	for i, w := range writes {
		gs := guardsOf(w)
		var scans []string
		headDone := false
		for _, g := range gs {
			if call, ok := g.Cond.(*ssa.Call); ok {
				fns, _ := p.calleesOf(&call.Call)
				for _, f := range fns {
					if f.Blocks != nil && len(chainTraversals(f, msg, links)) > 0 {
						scans = append(scans, shortFn(f))
					}
				}
			}
			if base, ok := fieldLoad(g.Cond, doneF); ok && g.Truth {
				if _, isHead := fieldLoad(base, headF); isHead {
					headDone = true
				}
			}
		}
		name := fmt.Sprintf("eventloop.sread: gate of flush write #%d", i+1)
		if len(scans) > 0 {
			c.bad(name, c.at(w), "the flush is gated by "+strings.Join(scans, ", ")+", which scans the whole queue: as long as the client has any newer unfinished request nothing is flushed, so a client that keeps sending never receives a reply", withGuards(gs))
			continue
		}
		c.check(headDone, name, c.at(w), "gated by inMsgQueue.head.Done", "the flush is not gated by the completion of the request at the head of the queue", withGuards(gs))
	}
}

func ruleC09_2(c *Ctx) {
	p := c.P
	sread, writes := flushGate(c)
	if sread == nil || len(writes) == 0 {
		return
	}
	rd := c.needMethod(pkgCore, "conn", "sread")
	if rd == nil {
		return
	}
	doneF := p.Field(pkgCore, "Msg", "Done")
	headF := p.Field(pkgCore, "MsgQueue", "head")
	discardF := p.Field(pkgCore, "Frag", "Discard")
	ownerF := p.Field(pkgCore, "Frag", "Owner")
	openedF := p.Field(pkgCore, "conn", "opened")
	typeF := p.Field(pkgCore, "Frag", "Type")
	empty := p.Method(pkgCore, "MsgQueue", "Empty")
	// the gate block
	var gate *ssa.BasicBlock
	for _, b := range sread.Blocks {
		if ifi, ok := b.Instrs[len(b.Instrs)-1].(*ssa.If); ok {
			if base, ok := fieldLoad(ifi.Cond, doneF); ok {
				if _, isHead := fieldLoad(base, headF); isHead {
					gate = b
				}
			}
		}
	}
	if gate == nil {
		c.undecided("eventloop.sread: gate block", p.pos(sread.Pos()), "no test of inMsgQueue.head.Done found (see C09.1)")
		return
	}
	// start: the err == nil edge of s.sread()
	var start *ssa.BasicBlock
	for _, b := range sread.Blocks {
		if ifi, ok := b.Instrs[len(b.Instrs)-1].(*ssa.If); ok {
			if bo, ok := ifi.Cond.(*ssa.BinOp); ok && bo.Op == token.NEQ && isNilConst(bo.Y) {
				if ex, ok := bo.X.(*ssa.Extract); ok && ex.Index == 1 {
					if _, is := p.isCallTo(ex.Tuple, rd); is {
						start = b.Succs[1]
					}
				}
			}
		}
	}
	if start == nil {
		c.undecided("eventloop.sread: success edge", p.pos(sread.Pos()), "the err == nil edge of s.sread() was not found")
		return
	}
	allowed := func(ifi *ssa.If, edge int) string {
		cond := ifi.Cond
		truth := edge == 0
		for {
			u, ok := cond.(*ssa.UnOp)
			if !ok || u.Op != token.NOT {
				break
			}
			cond, truth = u.X, !truth
		}
		if _, ok := fieldLoad(cond, discardF); ok && truth {
			return "reply to a proxy-internal command (Discard)"
		}
		if _, ok := fieldLoad(cond, openedF); ok && !truth {
			return "client already closed"
		}
		if _, ok := p.isCallTo(cond, empty); ok && truth {
			return "client queue empty"
		}
		if bo, ok := cond.(*ssa.BinOp); ok {
			if _, isOwner := fieldLoad(bo.X, ownerF); isOwner && isNilConst(bo.Y) && ((bo.Op == token.EQL && truth) || (bo.Op == token.NEQ && !truth)) {
				return "topology probe reply (no owner)"
			}
			if _, isType := fieldLoad(bo.X, typeF); isType && bo.Op == token.EQL && truth {
				return "authentication failure (shutdown)"
			}
		}
		return ""
	}
	// enumerate paths from start that reach the loop header or a return without passing the gate
	header := sread.Blocks[1]
	for _, l := range loopsOf(sread) {
		if l.Blocks[start] && l.Blocks[gate] {
			header = l.Header
		}
	}
	type frame struct {
		b      *ssa.BasicBlock
		reason string
		trail  []string
	}
	seen := map[string]bool{}
	var bad []string
	paths := 0
	var walk func(f frame)
	walk = func(f frame) {
		if f.b == gate {
			return
		}
		key := fmt.Sprintf("%d|%s", f.b.Index, f.reason)
		if seen[key] {
			return
		}
		seen[key] = true
		last := f.b.Instrs[len(f.b.Instrs)-1]
		switch x := last.(type) {
		case *ssa.Return:
			paths++
			// leaving the loop to shut the engine down is not a withheld reply
			shutdown := false
			if rs := results(x); len(rs) == 1 {
				if ld, ok := rs[0].(*ssa.UnOp); ok {
					if g, ok := ld.X.(*ssa.Global); ok && g.Name() == "ErrEngineShutdown" {
						shutdown = true
					}
				}
			}
			if f.reason == "" && !shutdown {
				bad = append(bad, "return at "+c.at(x)+" via "+strings.Join(f.trail, " → "))
			}
			return
		case *ssa.If:
			for i, s := range f.b.Succs {
				r := f.reason
				if a := allowed(x, i); a != "" && r == "" {
					r = a
				}
				nf := frame{s, r, append(append([]string{}, f.trail...), fmt.Sprintf("b%d", s.Index))}
				if s == header {
					paths++
					if r == "" || strings.HasPrefix(r, "authentication") {
						bad = append(bad, "continue at "+c.at(x)+" via "+strings.Join(nf.trail, " → "))
					}
					continue
				}
				walk(nf)
			}
			return
		}
		for _, s := range f.b.Succs {
			nf := frame{s, f.reason, append(append([]string{}, f.trail...), fmt.Sprintf("b%d", s.Index))}
			if s == header {
				paths++
				if f.reason == "" || strings.HasPrefix(f.reason, "authentication") {
					bad = append(bad, "continue at "+c.at(last)+" via "+strings.Join(nf.trail, " → "))
				}
				continue
			}
			walk(nf)
		}
	}
	walk(frame{start, "", []string{fmt.Sprintf("b%d", start.Index)}})
	c.examined(paths)
	c.check(len(bad) == 0, "eventloop.sread: every completed fragment reaches the flush gate", c.at(gate.Instrs[0]),
		fmt.Sprintf("%d bypassing paths, all through an enumerated exit (internal reply, probe, closed client, empty queue, auth shutdown)", paths),
		"after a fragment completed, the loop can continue/return before the flush gate for a reason that is not one of the enumerated ones: a completed reply at the head of the client's queue stays undelivered until some other event: "+strings.Join(bad, "; "))
	c.ok("eventloop.sread: gate block found", c.at(gate.Instrs[0]), "inMsgQueue.head.Done")
	c.ok("eventloop.sread: success edge found", c.at(start.Instrs[0]), "err == nil of s.sread()")
}

// ---------------------------------------------------------------------------------------------

func ruleC10_2(c *Ctx) {
	p := c.P
	hws := c.needMethod(pkgCore, "conn", "handleWriteSignal")
	deqOut := c.needMethod(pkgCore, "conn", "dequeueOutFrag")
	enqIn := c.needMethod(pkgCore, "conn", "enqueueInFrag")
	writev := c.needMethod(pkgCore, "conn", "writev")
	if hws == nil || deqOut == nil || enqIn == nil || writev == nil {
		return
	}
	c.examined(len(hws.Blocks))
	outQ := p.Field(pkgCore, "conn", "outFragQueue")
	headF := p.Field(pkgCore, "FragQueue", "head")
	reqF := p.Field(pkgCore, "Frag", "Req")
	recv := ssa.Value(hws.Params[0])
	d := p.callsIn(hws, deqOut)
	e := p.callsIn(hws, enqIn)
	if len(d) != 1 || len(e) != 1 {
		c.bad("handleWriteSignal: one dequeue and one enqueue per iteration", p.pos(hws.Pos()), fmt.Sprintf("found %d dequeueOutFrag and %d enqueueInFrag calls", len(d), len(e)))
		return
	}
	// the drain loop may have been extracted into a helper of handleWriteSignal
	loops := loopsOf(d[0].Parent())
	l := innermostLoop(loops, d[0].Block())
	c.check(l != nil && d[0].Parent() == e[0].Parent() && l == innermostLoop(loops, e[0].Block()), "handleWriteSignal: drain loop", c.at(d[0]), "dequeue and enqueue in the same loop", "the out queue is not drained in a loop that moves each fragment to the in-flight queue")
	if l == nil {
		return
	}
	// head = c.outFragQueue.head read before the dequeue
	arg := strip(e[0].Common().Args[1])
	isHead := false
	var headLoad ssa.Instruction
	isHeadLoad := func(v ssa.Value) bool {
		if q, ok := fieldLoad(v, headF); ok {
			if base, ok := fieldLoad(q, outQ); ok && strip(base) == recv {
				return true
			}
		}
		return false
	}
	if isHeadLoad(arg) {
		isHead = true
		headLoad, _ = arg.(ssa.Instruction)
	} else if ph, ok := arg.(*ssa.Phi); ok {
		// loop variable re-loaded from the queue head on every iteration: for h := q.head; h != nil; h = q.head
		all := len(ph.Edges) > 0
		for _, e := range ph.Edges {
			if !isHeadLoad(strip(e)) {
				all = false
			}
		}
		if all {
			isHead = true
			headLoad = ph
		}
	}
	c.check(isHead, "handleWriteSignal: the fragment moved is the head of the out queue", c.at(e[0]), "head := c.outFragQueue.head", "the fragment put in flight is "+expr(arg)+", not the head of the out queue: fragments are sent in another order than they were queued")
	if headLoad != nil {
		c.check(dominatesInstr(headLoad, d[0].(ssa.Instruction)) && dominatesInstr(d[0].(ssa.Instruction), e[0].(ssa.Instruction)), "handleWriteSignal: read head, pop it, then put it in flight", c.at(d[0]),
			"head read before dequeueOutFrag, enqueueInFrag after it", "the head is read after it was popped, or it is linked into the in-flight queue while still linked in the out queue (the link fields are shared): the queues are corrupted and replies matched to the wrong fragment")
	}
	// bytes appended: head.Req of the same head, once, at the end of the vector
	var app *ssa.Call
	napp := 0
	for b := range l.Blocks {
		for _, in := range b.Instrs {
			if call, ok := in.(*ssa.Call); ok {
				if bi, ok := call.Call.Value.(*ssa.Builtin); ok && bi.Name() == "append" {
					if st, ok := call.Type().(*types.Slice); ok && isBytes(st.Elem()) {
						app = call
						napp++
					}
				}
			}
		}
	}
	okApp := napp == 1
	if okApp {
		els := varargElems(app.Call.Args[1])
		okApp = len(els) == 1
		if okApp {
			base, is := fieldLoad(els[0], reqF)
			okApp = is && strip(base) == arg
			_, isPhi := app.Call.Args[0].(*ssa.Phi)
			okApp = okApp && isPhi
		}
	}
	pos := c.at(d[0])
	if app != nil {
		pos = c.at(app)
	}
	c.check(okApp, "handleWriteSignal: bytes of the moved fragment appended once, at the end", pos, "bs = append(bs, head.Req)",
		"the write vector does not receive exactly head.Req of the fragment just put in flight, at its end: requests reach the node in another order than their fragments wait for replies")
	// all three on every iteration: what is taken off the out queue goes in flight and onto the wire, whatever its state
	if app != nil {
		for _, step := range []struct {
			in   ssa.Instruction
			what string
		}{{e[0].(ssa.Instruction), "put in flight"}, {app, "added to the write vector"}} {
			every := true
			for _, pr := range l.Header.Preds {
				if l.Blocks[pr] && !step.in.Block().Dominates(pr) {
					every = false
				}
			}
			c.check(every, "handleWriteSignal: every dequeued fragment is "+step.what, c.at(step.in), "on every iteration of the drain loop",
				"a fragment taken off the out queue is not always "+step.what+" (e.g. skipped when its client has gone away): either the node answers a request no fragment waits for, or a fragment waits for a reply the node never sends - "+
					"from then on every reply on this connection is matched to the neighbouring request, which belongs to another client")
		}
	}
	// chunked write: writev(bs[0:r]) ; bs = bs[r:]
	n := 0
	for _, w := range p.callsIn(hws, writev) {
		a := w.Common().Args[1]
		sl, ok := a.(*ssa.Slice)
		if !ok {
			continue
		}
		lw := innermostLoop(loopsOf(w.Parent()), w.Block())
		if lw == nil {
			continue
		}
		for b := range lw.Blocks {
			for _, in := range b.Instrs {
				rs, ok := in.(*ssa.Slice)
				if !ok || rs == sl || rs.X != sl.X || rs.Low == nil {
					continue
				}
				n++
				lowOK := sl.Low == nil || isZero(sl.Low)
				c.check(lowOK && sl.High != nil && expr(sl.High) == expr(rs.Low) && rs.High == nil && dominatesInstr(w.(ssa.Instruction), in), "handleWriteSignal: chunk advance", c.at(in),
					"writev(bs[0:r]) then bs = bs[r:]", "the chunk written is "+expr(sl)+" but the vector is advanced by "+expr(rs)+": requests are skipped or sent twice when more than 1024 are drained at once")
			}
		}
	}
	if n == 0 {
		c.bad("handleWriteSignal: chunk advance", p.pos(hws.Pos()), "no `bs = bs[r:]` after the chunked writev")
	}
}

func ruleC10_3(c *Ctx) {
	p := c.P
	push := c.needMethod(pkgCore, "FragQueue", "PushTail")
	enqOut := c.needMethod(pkgCore, "conn", "EnqueueOutFrag")
	enqIn := c.needMethod(pkgCore, "conn", "enqueueInFrag")
	if push == nil || enqOut == nil || enqIn == nil {
		return
	}
	outQ := p.Field(pkgCore, "conn", "outFragQueue")
	inQ := p.Field(pkgCore, "conn", "inFragQueue")
	for _, s := range p.SitesOf(push) {
		if s.Fn.Synthetic != "" {
			continue
		}
		c.touch(homeFn(s.Fn))
		name := "FragQueue.PushTail in " + shortFn(s.Fn)
		if s.Call == nil {
			c.bad(name, c.at(s.Instr), "PushTail is taken as a function value: the push can be deferred")
			continue
		}
		switch s.Fn {
		case enqOut:
			q, isQ := fieldLoad(s.Call.Args[0], outQ)
			okP := isQ && strip(q) == ssa.Value(enqOut.Params[0]) && strip(s.Call.Args[1]) == ssa.Value(enqOut.Params[1])
			// before the write signal
			sig := p.Method(pkgCore, "conn", "sendWriteSignal")
			for _, sc := range p.callsIn(enqOut, sig) {
				if !dominatesInstr(s.Instr, sc.(ssa.Instruction)) {
					okP = false
				}
			}
			c.check(okP, name, c.at(s.Instr), "c.outFragQueue.PushTail(f) in the function body, before the write signal",
				"EnqueueOutFrag does not push its own argument on its own out queue before signalling the writer")
		case enqIn:
			q, isQ := fieldLoad(s.Call.Args[0], inQ)
			c.check(isQ && strip(q) == ssa.Value(enqIn.Params[0]) && strip(s.Call.Args[1]) == ssa.Value(enqIn.Params[1]), name, c.at(s.Instr), "c.inFragQueue.PushTail(frag)", "enqueueInFrag pushes something else or elsewhere")
		default:
			c.bad(name, c.at(s.Instr), "a fragment is pushed on a FragQueue outside EnqueueOutFrag/enqueueInFrag (for instance from a closure or a deferred task): two requests of one client to one node can be enqueued in another order than they were sent")
		}
	}
	// EnqueueOutFrag itself is called directly (not through Trigger) from the routing code
	for _, s := range p.SitesOf(enqOut) {
		if s.Fn.Synthetic != "" {
			continue
		}
		name := "EnqueueOutFrag used in " + shortFn(homeFn(s.Fn))
		c.check(s.Call != nil && s.Fn.Parent() == nil, name, c.at(s.Instr), "direct call in the handler's body", "EnqueueOutFrag is called from a closure or passed as a value: the enqueue may run later than the routing decision, reordering a client's requests to one node")
	}
}

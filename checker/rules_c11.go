package main

import (
	"fmt"
	"go/ast"
	"go/constant"
	"go/token"
	"go/types"
	"strings"

	"golang.org/x/tools/go/ssa"
)

func init() {
	rule("C11.1", "E3+E4", "a fragment reply is parsed as an array / integer only after its reply type was tested; the other edge fails the whole request", 4, ruleC11_1)
	rule("C11.2", "E2", "the reply classifier never writes into the bytes it classifies", 1, ruleC11_2)
	rule("C11.3", "E2+E8", "an error on any fragment completes the whole request with that error: Error, RspBody (the error bytes), Done, FragDoneNumber, and every fragment marked Done", 6, ruleC11_3)
	rule("C11.4", "E3", "the backend read loop continues after a decoder error only for errors raised after the frame was consumed; otherwise it gives up the connection", 3, ruleC11_4)

	rule("C12.1", "E7", "decoder contract: a decoder never returns (nil, nil) - every return has a definitely non-nil result or a definitely non-nil error", 20, ruleC12_1)
	rule("C12.2", "E3", "the fatal branch of the client read loop closes the connection and returns", 1, ruleC12_2)
	rule("C12.5", "E3+E7", "the event loop dereferences a decoded request/fragment only on edges where the decoder contract guarantees it", 3, ruleC12_5)

	rule("C13.1", "E3+E2", "redirect replies are recognised before counting/merging, re-sent through OnMoved, and leave the client queue untouched", 5, ruleC13_1)
	rule("C13.2", "E3+E4+E6", "an ASK redirect is followed with ASKING queued on the target connection right before the re-sent request; its reply is consumed by the proxy", 5, ruleC13_2)
	rule("C13.3", "E2+E3+E4", "redirect handling terminates: the re-send is bounded by a per-fragment counter", 1, ruleC13_3)
	rule("C13.4", "E6", "the offsets used to parse a redirect reply agree with the prefixes the classifier recognises", 2, ruleC13_4)
}

// ---------------------------------------------------------------------------------------------
// C11

func ruleC11_1(c *Ctx) {
	p := c.P
	typeF := p.Field(pkgCore, "Frag", "Type")
	errF := p.Field(pkgCore, "Frag", "Error")
	rspBody := p.Field(pkgCore, "Frag", "RspBody")
	parseMGet := c.needMethod(pkgCore, "SRespCodec", "parseMGet")
	parseLen := c.need(pkgCore + ".parseLen")
	if parseMGet == nil || parseLen == nil || typeF == nil {
		return
	}
	multibulk, _ := p.ConstInt(pkgCodec, "RspMultibulk")
	integer, _ := p.ConstInt(pkgCodec, "RspInteger")
	check := func(site Site, want int64, wantName, what string) {
		encl := homeFn(site.Fn)
		c.touch(encl)
		gs := guardsOf(site.Instr)
		var guardIf *ssa.If
		ok := guardHas(gs, func(g Guard) bool {
			x, op, y, okc := cmpGuard(g)
			k, isK := constInt(y)
			if okc && op == token.EQL && isK && k == want {
				if _, is := fieldLoad(x, typeF); is {
					guardIf = g.If
					return true
				}
			}
			return false
		})
		name := what + " in " + shortFn(encl)
		c.check(ok, name+" guarded by the reply type", c.at(site.Instr), "only when Frag.Type == "+wantName,
			"the fragment's reply is parsed as "+what+" without testing that its type is "+wantName+": an error reply (\"-ERR …\") is turned into a number / crashes the proxy (negative length) instead of failing the request", withGuards(gs))
		if guardIf == nil {
			return
		}
		// the other edge records an error on the fragment
		other := guardIf.Block().Succs[0]
		for _, g := range gs {
			if g.If == guardIf && g.Truth {
				other = guardIf.Block().Succs[1]
			}
		}
		setsErr := false
		seen := map[*ssa.BasicBlock]bool{}
		var walk func(b *ssa.BasicBlock)
		walk = func(b *ssa.BasicBlock) {
			if seen[b] || b == site.Instr.Block() {
				return
			}
			seen[b] = true
			for _, in := range b.Instrs {
				if st, ok := in.(*ssa.Store); ok {
					if fa, ok := st.Addr.(*ssa.FieldAddr); ok && fieldVar(fa.X.Type(), fa.Field) == errF {
						if k, isC := st.Val.(*ssa.Const); !isC || (k.Value != nil && k.Value.String() != `""`) {
							setsErr = true
						}
					}
				}
			}
			if _, isRet := b.Instrs[len(b.Instrs)-1].(*ssa.Return); isRet {
				return
			}
			for _, s := range b.Succs {
				walk(s)
			}
		}
		walk(other)
		c.check(setsErr, name+": other reply types fail the request", c.at(guardIf), "Frag.Error is set on the other edge",
			"when the reply has another type nothing marks the fragment as failed: the request would complete without that fragment's data or hang")
	}
	n := 0
	for _, s := range p.SitesOf(parseMGet) {
		if s.Fn.Synthetic == "" && s.Call != nil {
			n++
			check(s, multibulk, "RspMultibulk", "an array (parseMGet)")
		}
	}
	// parseLen applied to a fragment's RspBody
	for _, s := range p.SitesOf(parseLen) {
		if s.Fn.Synthetic != "" || s.Call == nil {
			continue
		}
		arg := s.Call.Args[0]
		roots := p.resolveParamRoots(flowRoots(arg, nil), 0)
		onRsp := false
		for _, r := range roots {
			if _, is := fieldLoad(r, rspBody); is {
				onRsp = true
			}
		}
		if onRsp && homeFn(s.Fn) != parseMGet {
			n++
			check(s, integer, "RspInteger", "an integer (parseLen of RspBody)")
		}
	}
	c.examined(n)
	if n < 2 {
		c.undecided("typed parse sites", "-", fmt.Sprintf("only %d typed parse sites of fragment replies found (MGET array, DEL count expected)", n))
	}
}

func ruleC11_2(c *Ctx) {
	p := c.P
	rr := c.needMethod(pkgCore, "SRespCodec", "readReply")
	if rr == nil {
		return
	}
	n := 0
	for _, fn := range p.reachableFuncs(rr) {
		if strings.Contains(fnKey(fn), "/logging") {
			continue
		}
		allInstrs(fn, func(in ssa.Instruction) {
			if st, ok := in.(*ssa.Store); ok {
				if ia, ok := st.Addr.(*ssa.IndexAddr); ok && isBytes(ia.X.Type()) {
					n++
					c.bad("byte store in "+shortFn(fn), c.at(in), "the reply classifier (or a helper it calls) overwrites a byte of the reply it is classifying: the client does not receive the backend's bytes")
				}
			}
		})
	}
	c.examined(len(p.reachableFuncs(rr)))
	if n == 0 {
		c.ok("SRespCodec.readReply closure has no byte stores", p.pos(rr.Pos()), "read-only over the reply bytes")
	}
}

func ruleC11_3(c *Ctx) {
	p := c.P
	sread := c.needMethod(pkgCore, "conn", "sread")
	if sread == nil {
		return
	}
	c.examined(len(sread.Blocks))
	notNil := p.Func("(rcproxy/core/codec.Error).NotNil")
	errF := p.Field(pkgCore, "Frag", "Error")
	// the branch: guard  f.Error.NotNil()  true
	isNil := p.Func("(rcproxy/core/codec.Error).Nil")
	inBranch := func(b *ssa.BasicBlock) bool {
		return guardHas(guardsAt(b), func(g Guard) bool {
			call, ok := g.Cond.(*ssa.Call)
			if !ok {
				return false
			}
			if notNil != nil && call.Call.StaticCallee() == notNil && g.Truth || isNil != nil && call.Call.StaticCallee() == isNil && !g.Truth {
				_, is := fieldLoad(call.Call.Args[0], errF)
				return is
			}
			return false
		})
	}
	// the function that holds the branch: conn.sread itself or a helper whose result conn.sread returns as its error
	// (`return f, c.settle(f)`); errIdx is the position of that error among the holder's results
	holder, errIdx := sread, 1
	hasBranch := func(fn *ssa.Function) bool {
		for _, b := range fn.Blocks {
			if inBranch(b) {
				return true
			}
		}
		return false
	}
	if !hasBranch(sread) {
		for _, r := range returnsReachable(sread) {
			rs := results(r.(*ssa.Return))
			if len(rs) != 2 {
				continue
			}
			v, idx := strip(rs[1]), 0
			if ex, ok := v.(*ssa.Extract); ok {
				v, idx = ex.Tuple, ex.Index
			}
			if call, ok := v.(*ssa.Call); ok {
				if h := call.Call.StaticCallee(); h != nil && p.isHelper(h) && hasBranch(h) {
					bindCall(h, call.Call.Args)
					holder, errIdx = h, idx
					c.touch(h)
				}
			}
		}
	}
	want := map[string]bool{"Error": false, "RspBody": false, "Done": false, "FragDoneNumber": false}
	fragDoneAll := false
	doneFrag := p.Field(pkgCore, "Frag", "Done")
	bodyF := p.Field(pkgCore, "Msg", "Body")
	msgErr := p.Field(pkgCore, "Msg", "Error")
	var rspStore *ssa.Store
	// the instructions of the branch, including those of module helpers called from it (the completion
	// may have been extracted into a method of Msg)
	var branchInstrs []ssa.Instruction
	var helperCalls []ssa.Instruction
	var collect func(fn *ssa.Function, depth int)
	collect = func(fn *ssa.Function, depth int) {
		allInstrs(fn, func(in ssa.Instruction) {
			branchInstrs = append(branchInstrs, in)
			if call, ok := in.(*ssa.Call); ok && depth < 2 {
				if h := call.Call.StaticCallee(); h != nil && p.inlinable(h) && !strings.Contains(fnKey(h), "/logging") {
					bindCall(h, call.Call.Args)
					collect(h, depth+1)
				}
			}
		})
	}
	for _, b := range holder.Blocks {
		if !inBranch(b) {
			continue
		}
		for _, in := range b.Instrs {
			branchInstrs = append(branchInstrs, in)
			if call, ok := in.(*ssa.Call); ok {
				if h := call.Call.StaticCallee(); h != nil && p.inlinable(h) && !strings.Contains(fnKey(h), "/logging") {
					bindCall(h, call.Call.Args)
					helperCalls = append(helperCalls, in)
					collect(h, 1)
				}
			}
		}
	}
	{
		for _, in := range branchInstrs {
			st, ok := in.(*ssa.Store)
			if !ok {
				continue
			}
			fa, ok := st.Addr.(*ssa.FieldAddr)
			if !ok {
				continue
			}
			fv := fieldVar(fa.X.Type(), fa.Field)
			owner := fa.X.Type()
			if pt, ok := owner.(*types.Pointer); ok {
				owner = pt.Elem()
			}
			if n, ok := owner.(*types.Named); ok && n.Obj().Name() == "Msg" {
				if _, w := want[fv.Name()]; w {
					want[fv.Name()] = true
					if fv.Name() == "RspBody" {
						rspStore = st
					}
					if fv.Name() == "Done" {
						if k, ok := st.Val.(*ssa.Const); !ok || k.Value.String() != "true" {
							want["Done"] = false
						}
					}
				}
			}
			if fv == doneFrag {
				// v.Done = true for v ranging over msg.Body
				if ex, ok := strip(fa.X).(*ssa.Extract); ok {
					if nx, ok := ex.Tuple.(*ssa.Next); ok {
						if rg, ok := nx.Iter.(*ssa.Range); ok {
							if _, is := fieldLoad(rg.X, bodyF); is {
								fragDoneAll = true
							}
						}
					}
				}
			}
		}
	}
	// the marking loop is unconditional inside the branch, and the branch returns (f, nil) so that the event loop flushes
	var markLoop *Loop
	loops := loopsOf(holder)
	var markHelper ssa.Instruction
	for _, in := range branchInstrs {
		if st, ok := in.(*ssa.Store); ok {
			if fa, ok := st.Addr.(*ssa.FieldAddr); ok && fieldVar(fa.X.Type(), fa.Field) == doneFrag {
				if st.Parent() == holder {
					if l := innermostLoop(loops, st.Block()); l != nil {
						markLoop = l
					}
				} else if l := innermostLoop(loopsOf(st.Parent()), st.Block()); l != nil {
					// in a helper: unconditional there if the loop header dominates every return of the helper
					uncond := true
					for _, r := range returnsReachable(st.Parent()) {
						if !l.Header.Dominates(r.Block()) {
							uncond = false
						}
					}
					if uncond && len(helperCalls) > 0 {
						markHelper = helperCalls[len(helperCalls)-1]
					}
				}
			}
		}
	}
	nret := 0
	for _, b := range holder.Blocks {
		if !inBranch(b) {
			continue
		}
		r, ok := b.Instrs[len(b.Instrs)-1].(*ssa.Return)
		if !ok {
			continue
		}
		nret++
		if markLoop != nil || markHelper != nil {
			okDom := false
			if markLoop != nil {
				okDom = markLoop.Header.Dominates(b)
			} else {
				okDom = dominatesInstr(markHelper, r)
			}
			c.check(okDom, "conn.sread error branch marks every fragment Done on every path", c.at(r), "the marking loop dominates the branch's return",
				"the loop that marks the sibling fragments Done is skipped on some path of the error branch (e.g. only for some command types): late replies of the siblings of a failed request are then merged into the already answered request")
		}
		c.check(errIdx < len(results(r)) && isNilConst(results(r)[errIdx]), "conn.sread error branch returns (f, nil)", c.at(r), "nil error: the event loop goes on to flush the completed request",
			"after completing the request with an error conn.sread returns "+expr(results(r)[len(results(r))-1])+" instead of nil: when that is Continue the event loop skips the flush and the client never receives the error")
	}
	if nret == 0 {
		c.bad("conn.sread error branch returns (f, nil)", p.pos(sread.Pos()), "the error branch does not return by itself: control falls through to a return whose error may be Continue, so the completed request is not flushed and the client stalls")
	}
	for k, v := range want {
		c.check(v, "conn.sread error branch writes Msg."+k, p.pos(sread.Pos()), "on f.Error.NotNil()",
			"when a fragment fails, the whole request is not completed with Msg."+k+": the client gets no error (or waits forever) for a multi-key request one of whose nodes answered with an error")
	}
	c.check(fragDoneAll, "conn.sread error branch marks every fragment Done", p.pos(sread.Pos()), "for v in msg.Body: v.Done = true",
		"sibling fragments of a failed request are not marked Done: their late replies are merged into a request that was already answered (and recycled)")
	if rspStore != nil {
		// RspBody = append(RspBody[:0], msg.Error.Bytes()...)
		okV := false
		if call, ok := rspStore.Val.(*ssa.Call); ok && len(call.Call.Args) == 2 {
			if sl, ok := call.Call.Args[0].(*ssa.Slice); ok && sl.High != nil && isZero(sl.High) {
				if bc, ok := call.Call.Args[1].(*ssa.Call); ok && strings.HasSuffix(staticCalleeName(&bc.Call), "codec.Error).Bytes") {
					if _, is := fieldLoad(bc.Call.Args[0], msgErr); is {
						okV = true
					}
					if _, is := fieldLoad(bc.Call.Args[0], errF); is {
						okV = true
					}
				}
			}
		}
		c.check(okV, "conn.sread error branch: the reply is the error", c.at(rspStore), "RspBody = append(RspBody[:0], Error.Bytes()...)", "the reply stored for a failed request is not the bytes of its error: "+expr(rspStore.Val))
	}
}

func ruleC11_4(c *Ctx) {
	p := c.P
	sread := c.needMethod(pkgCore, "eventloop", "sread")
	rd := c.needMethod(pkgCore, "conn", "sread")
	if sread == nil || rd == nil {
		return
	}
	c.examined(len(sread.Blocks))
	moved := p.Global(pkgCodec, "MovedOrAsk")
	cont := p.Global(pkgCodec, "Continue")
	isErr := func(v ssa.Value) bool {
		ex, ok := v.(*ssa.Extract)
		if !ok || ex.Index != 1 {
			return false
		}
		_, is := p.isCallTo(ex.Tuple, rd)
		return is
	}
	var header *ssa.BasicBlock
	for _, l := range loopsOf(sread) {
		for _, call := range p.callsIn(sread, rd) {
			if l.Header == call.Block() || l.Blocks[call.Block()] {
				if header == nil || len(l.Blocks) > 0 {
					header = l.Header
				}
			}
		}
	}
	if header == nil {
		c.undecided("eventloop.sread: read loop", p.pos(sread.Pos()), "loop around s.sread() not found")
		return
	}
	n := 0
	for _, pr := range header.Preds {
		if !header.Dominates(pr) {
			continue
		}
		// a back edge: is it on the err != nil side?
		gs := guardsAt(pr)
		// the latch block itself may end in the deciding If (if t33 goto header else …)
		if ifi, ok := pr.Instrs[len(pr.Instrs)-1].(*ssa.If); ok {
			cond, truth := ifi.Cond, pr.Succs[0] == header
			gs = append([]Guard{{Cond: cond, Truth: truth, If: ifi}}, gs...)
		}
		onErr := guardHas(gs, func(g Guard) bool {
			x, op, y, ok := cmpGuard(g)
			return ok && isErr(x) && isNilConst(y) && op == token.NEQ
		})
		if !onErr {
			continue
		}
		n++
		okC := guardHas(gs, func(g Guard) bool {
			x, op, y, ok := cmpGuard(g)
			if !ok || !isErr(x) || op != token.EQL {
				return false
			}
			ld, ok := y.(*ssa.UnOp)
			return ok && (ld.X == ssa.Value(moved) || ld.X == ssa.Value(cont))
		})
		c.check(okC, "eventloop.sread: continue after a decoder error", c.at(pr.Instrs[len(pr.Instrs)-1]), "only for MovedOrAsk / Continue (raised after the frame was consumed)",
			"the read loop goes round again after a decoder error that is raised before anything was consumed (unattributable or undecodable reply): the same bytes give the same error forever and the single event loop spins, stalling every client", withGuards(gs))
	}
	if n == 0 {
		c.undecided("eventloop.sread: continue after a decoder error", p.pos(sread.Pos()), "no back edge on the error side found (redirect and Continue must continue the loop)")
	}
	// MovedOrAsk / Continue are returned by conn.sread only after Decode succeeded (which consumed the frame)
	sdec := p.Method(pkgCore, "SRespCodec", "Decode")
	allInstrs(rd, func(in ssa.Instruction) {
		r, ok := in.(*ssa.Return)
		if !ok {
			return
		}
		rs := results(r)
		ld, ok := rs[1].(*ssa.UnOp)
		if !ok || (ld.X != ssa.Value(moved) && ld.X != ssa.Value(cont)) {
			return
		}
		gs := guardsOf(r)
		okD := guardHas(gs, func(g Guard) bool {
			x, op, y, ok := cmpGuard(g)
			if !ok || op != token.EQL || !isNilConst(y) {
				return false
			}
			ex, ok := x.(*ssa.Extract)
			if !ok {
				return false
			}
			_, is := p.isCallTo(ex.Tuple, sdec)
			return is
		})
		c.check(okD, "conn.sread: "+ld.X.Name()+" only after a consumed frame", c.at(r), "dominated by Decode's err == nil", "conn.sread reports "+ld.X.Name()+" without a frame having been decoded and consumed", withGuards(gs))
	})
}

// ---------------------------------------------------------------------------------------------
// C12

// definitelyNonNil decides whether value v cannot be nil at return r.
func (c *Ctx) definitelyNonNil(v ssa.Value, r *ssa.Return, depth int) (bool, string) {
	p := c.P
	if depth > 4 {
		return false, "depth"
	}
	v = strip(v)
	v0 := v
	if _, isSlice := v.Type().Underlying().(*types.Slice); isSlice && !isNilConst(v) {
		// a slice result that is not the nil constant: callers only read it (no nil dereference possible)
		return true, "slice value (not the nil constant)"
	}
	switch x := v.(type) {
	case *ssa.Const:
		if x.Value == nil {
			return false, "nil constant"
		}
		return true, "constant"
	case *ssa.Alloc, *ssa.MakeMap, *ssa.MakeSlice, *ssa.MakeChan, *ssa.MakeClosure:
		return true, "fresh value"
	case *ssa.MakeInterface:
		if _, isPtr := x.X.Type().Underlying().(*types.Pointer); !isPtr {
			return true, "interface holding a non-pointer value"
		}
		return c.definitelyNonNil(x.X, r, depth+1)
	case *ssa.UnOp:
		if g, ok := x.X.(*ssa.Global); ok && x.Op == token.MUL {
			// package-level error variable initialised once and never reassigned
			stores := 0
			for _, fn := range p.Funcs {
				allInstrs(fn, func(in ssa.Instruction) {
					if st, ok := in.(*ssa.Store); ok && st.Addr == ssa.Value(g) {
						if fn.Name() != "init" {
							stores += 100
						}
						stores++
					}
				})
			}
			// globals of packages outside the module (none here) are trusted
			if stores == 1 {
				return true, "package-level error variable assigned once, in init"
			}
			if g.Pkg != nil && !p.ownFunc(g.Pkg.Func("init")) {
				return true, "foreign package-level variable"
			}
			return false, fmt.Sprintf("package-level variable with %d assignments", stores)
		}
	case *ssa.Call:
		n := staticCalleeName(&x.Call)
		switch {
		case n == "errors.New", n == "fmt.Errorf", strings.HasPrefix(n, "github.com/pkg/errors."), n == "os.NewSyscallError" && false:
			return true, "constructor " + n
		case strings.HasSuffix(n, "core.msgPool).Get"), strings.HasSuffix(n, "core.fragPool).Get"):
			return true, "pool Get (type-asserted / allocated)"
		}
		// a module function with one result, each of whose returns is non-nil (`resp := newRequestMsg(c, msg, n)`)
		if h := x.Call.StaticCallee(); h != nil && p.ownFunc(h) && h.Blocks != nil && h.Signature.Results().Len() == 1 {
			all, nr := true, 0
			for _, hr := range returnsReachable(h) {
				nr++
				if ok, _ := c.definitelyNonNil(results(hr.(*ssa.Return))[0], hr.(*ssa.Return), depth+1); !ok {
					all = false
				}
			}
			if all && nr > 0 {
				return true, "every return of " + shortFn(h) + " is non-nil"
			}
		}
	}
	// guarded by v != nil on the way to r
	if guardHas(guardsOf(r), func(g Guard) bool {
		x, op, y, ok := cmpGuard(g)
		return ok && op == token.NEQ && ((strip(x) == v0 && isNilConst(y)) || (strip(y) == v0 && isNilConst(x)))
	}) {
		return true, "on the " + expr(v0) + " != nil edge"
	}
	// dereferenced on every path to r
	deref := false
	if refs := v.Referrers(); refs != nil {
		for _, ref := range *refs {
			switch y := ref.(type) {
			case *ssa.FieldAddr:
				if y.X == v && dominatesInstr(y, r) {
					// the address computation alone does not trap; a load/store through it does
					for _, rr := range *y.Referrers() {
						if dominatesInstr(rr, r) {
							deref = true
						}
					}
				}
			}
		}
	}
	if deref {
		return true, "dereferenced on every path to the return"
	}
	// phi: all edges
	if ph, ok := v.(*ssa.Phi); ok {
		for _, e := range ph.Edges {
			if ok, _ := c.definitelyNonNil(e, r, depth+1); !ok {
				return false, "a phi edge may be nil: " + expr(e)
			}
		}
		return true, "all phi edges non-nil"
	}
	return false, "cannot show that " + expr(v) + " is non-nil here"
}

func ruleC12_1(c *Ctx) {
	p := c.P
	var fns []*ssa.Function
	for _, k := range [][3]string{{pkgCore, "CRespCodec", "Decode"}, {pkgCore, "CRespCodec", "parseLine"}, {pkgCore, "conn", "cread"}, {pkgCore, "SRespCodec", "Decode"}, {pkgCore, "conn", "sread"}} {
		if f := c.needMethod(k[0], k[1], k[2]); f != nil {
			fns = append(fns, f)
		}
	}
	contract := map[*ssa.Function]bool{}
	for _, f := range fns {
		contract[f] = true
	}
	for _, fn := range fns {
		c.examined(len(fn.Blocks))
		nret := 0
		allInstrs(fn, func(in ssa.Instruction) {
			r, ok := in.(*ssa.Return)
			if !ok {
				return
			}
			rs := results(r)
			if len(rs) != 2 {
				return
			}
			nret++
			name := fmt.Sprintf("%s: return #%d", shortFn(fn), nret)
			okV, whyV := c.definitelyNonNil(rs[0], r, 0)
			okE, whyE := c.definitelyNonNil(rs[1], r, 0)
			// results of another contract function, passed through on its err == nil edge
			if !okV {
				if ex, ok := rs[0].(*ssa.Extract); ok && ex.Index == 0 {
					if call, ok := ex.Tuple.(*ssa.Call); ok && call.Call.StaticCallee() != nil && contract[call.Call.StaticCallee()] {
						if guardHas(guardsOf(r), func(g Guard) bool {
							x, op, y, ok := cmpGuard(g)
							e2, isEx := x.(*ssa.Extract)
							return ok && op == token.EQL && isNilConst(y) && isEx && e2.Tuple == ex.Tuple && e2.Index == 1
						}) {
							okV, whyV = true, "result of "+shortFn(call.Call.StaticCallee())+" on its err == nil edge (contract)"
						}
					}
				}
			}
			if okV || okE {
				why := whyV
				if !okV {
					why = "error: " + whyE
				}
				c.ok(name, c.at(r), why)
				return
			}
			c.bad(name, c.at(r), "this return can yield (nil, nil): result - "+whyV+"; error - "+whyE+". The caller treats a nil error as a decoded request/fragment and dereferences it (the event loop has no recover: the proxy exits), or a value that is not a request is forwarded", withGuards(guardsOf(r)))
		})
	}
	_ = p
}

func ruleC12_2(c *Ctx) {
	p := c.P
	cread := c.needMethod(pkgCore, "eventloop", "cread")
	closeConn := p.Method(pkgCore, "eventloop", "closeConn")
	invalid := p.Global(pkgCodec, "ErrInvalidResp")
	if cread == nil || closeConn == nil || invalid == nil {
		return
	}
	found := false
	for _, b := range cread.Blocks {
		ifi, ok := b.Instrs[len(b.Instrs)-1].(*ssa.If)
		if !ok {
			continue
		}
		bo, ok := ifi.Cond.(*ssa.BinOp)
		if !ok || bo.Op != token.EQL {
			continue
		}
		ld, ok := bo.Y.(*ssa.UnOp)
		if !ok || ld.X != ssa.Value(invalid) {
			continue
		}
		found = true
		tb := b.Succs[0]
		closes, returns := false, false
		for _, in := range tb.Instrs {
			if call, ok := in.(*ssa.Call); ok && call.Call.StaticCallee() == closeConn && strip(call.Call.Args[1]) == ssa.Value(cread.Params[1]) {
				closes = true
			}
			if _, ok := in.(*ssa.Return); ok {
				returns = true
			}
		}
		c.check(closes && returns, "eventloop.cread: invalid RESP closes the client and stops reading", c.at(ifi), "closeConn(c) and return",
			"on invalid RESP the client connection is not closed-and-left: the same invalid bytes are decoded again forever, or the connection keeps feeding garbage")
	}
	if !found {
		c.bad("eventloop.cread: invalid RESP closes the client and stops reading", p.pos(cread.Pos()), "no `err == codec.ErrInvalidResp` branch found: malformed input is treated as 'need more bytes' and buffered without bound")
	}
}

func ruleC12_5(c *Ctx) {
	p := c.P
	cread := c.needMethod(pkgCore, "eventloop", "cread")
	sread := c.needMethod(pkgCore, "eventloop", "sread")
	rdC := c.needMethod(pkgCore, "conn", "cread")
	rdS := c.needMethod(pkgCore, "conn", "sread")
	if cread == nil || sread == nil || rdC == nil || rdS == nil {
		return
	}
	// OnCReact(r, c) only on err == nil
	allInstrs(cread, func(in ssa.Instruction) {
		call, ok := in.(*ssa.Call)
		if !ok || !call.Call.IsInvoke() || call.Call.Method.Name() != "OnCReact" {
			return
		}
		gs := guardsOf(call)
		okG := guardHas(gs, func(g Guard) bool {
			x, op, y, ok := cmpGuard(g)
			if !ok || op != token.EQL || !isNilConst(y) {
				return false
			}
			ex, ok := x.(*ssa.Extract)
			if !ok || ex.Index != 1 {
				return false
			}
			_, is := p.isCallTo(ex.Tuple, rdC)
			return is
		})
		arg := call.Call.Args[0]
		okA := false
		if ex, ok := arg.(*ssa.Extract); ok && ex.Index == 0 {
			_, okA = p.isCallTo(ex.Tuple, rdC)
		}
		c.check(okG && okA, "eventloop.cread: OnCReact only for a decoded request", c.at(in), "called with c.cread()'s message on its err == nil edge",
			"the handler is called although the decoder reported an error (its message is nil): nil dereference, the proxy exits", withGuards(gs))
	})
	// in eventloop.sread every dereference of r is on err == nil or err == MovedOrAsk
	var r ssa.Value
	allInstrs(sread, func(in ssa.Instruction) {
		if ex, ok := in.(*ssa.Extract); ok && ex.Index == 0 {
			if _, is := p.isCallTo(ex.Tuple, rdS); is {
				r = ex
			}
		}
	})
	if r == nil {
		c.undecided("eventloop.sread: fragment value", p.pos(sread.Pos()), "result of s.sread() not found")
		return
	}
	moved := p.Global(pkgCodec, "MovedOrAsk")
	bad := 0
	n := 0
	for _, ref := range *r.Referrers() {
		in := ref
		deref := false
		switch x := in.(type) {
		case *ssa.FieldAddr:
			deref = x.X == r
		case *ssa.Call:
			if x.Call.StaticCallee() != nil && len(x.Call.Args) > 0 && x.Call.Args[0] == r && x.Call.StaticCallee().Signature.Recv() != nil {
				deref = true
			}
		}
		if !deref {
			continue
		}
		n++
		gs := guardsOf(in)
		okG := guardHas(gs, func(g Guard) bool {
			x, op, y, ok := cmpGuard(g)
			if !ok || op != token.EQL {
				return false
			}
			ex, ok := x.(*ssa.Extract)
			if !ok || ex.Index != 1 {
				return false
			}
			if _, is := p.isCallTo(ex.Tuple, rdS); !is {
				return false
			}
			if isNilConst(y) {
				return true
			}
			ld, ok := y.(*ssa.UnOp)
			return ok && ld.X == ssa.Value(moved)
		})
		if !okG {
			bad++
			c.bad("eventloop.sread: fragment dereferenced only when the reader returned one", c.at(in), "the fragment returned by s.sread() is used on an edge where the reader may have returned nil (an error other than MovedOrAsk)", withGuards(gs))
		}
	}
	c.examined(n)
	if bad == 0 {
		c.ok("eventloop.sread: fragment dereferenced only when the reader returned one", p.pos(sread.Pos()), fmt.Sprintf("%d uses, all on err == nil or err == MovedOrAsk", n))
	}
	// and conn.sread returns a non-nil fragment together with MovedOrAsk
	allInstrs(rdS, func(in ssa.Instruction) {
		ret, ok := in.(*ssa.Return)
		if !ok {
			return
		}
		rs := results(ret)
		if ld, ok := rs[1].(*ssa.UnOp); ok && ld.X == ssa.Value(moved) {
			okV, why := c.definitelyNonNil(rs[0], ret, 0)
			c.check(okV, "conn.sread: MovedOrAsk comes with its fragment", c.at(ret), why, "conn.sread returns MovedOrAsk with a fragment that may be nil: eventloop.sread calls r.parseMovedOrAsk() on it")
		}
	})
}

// ---------------------------------------------------------------------------------------------
// C13

func ruleC13_1(c *Ctx) {
	p := c.P
	rdS := c.needMethod(pkgCore, "conn", "sread")
	sread := c.needMethod(pkgCore, "eventloop", "sread")
	if rdS == nil || sread == nil {
		return
	}
	typeF := p.Field(pkgCore, "Frag", "Type")
	fdn := p.Field(pkgCore, "Msg", "FragDoneNumber")
	movedK, _ := p.ConstInt(pkgCodec, "RspMoved")
	askK, _ := p.ConstInt(pkgCodec, "RspAsk")
	// counting and merging are off the redirect types
	for _, w := range p.fieldWrites(fdn) {
		if homeFn(w.Fn) != rdS {
			continue
		}
		if _, isInc := w.Val.(*ssa.BinOp); !isInc {
			continue
		}
		gs := guardsOf(w.Instr)
		for k, name := range map[int64]string{movedK: "RspMoved", askK: "RspAsk"} {
			kk := k
			okG := guardHas(gs, func(g Guard) bool {
				x, op, y, ok := cmpGuard(g)
				v, isK := constInt(y)
				if !ok || op != token.NEQ || !isK || v != kk {
					return false
				}
				_, is := fieldLoad(x, typeF)
				return is
			})
			c.check(okG, "conn.sread: a "+name+" reply is not counted as an answer", c.at(w.Instr), "FragDoneNumber++ only when Type != "+name,
				"a redirect reply is counted (and merged) as the fragment's answer: the client receives the -MOVED/-ASK error, or a split request completes with a redirect in place of data", withGuards(gs))
		}
	}
	// the redirect case in the event loop: OnMoved(parseMovedOrAsk(r)…, s, r) then continue, client queue untouched
	var onMoved *ssa.Call
	allInstrs(sread, func(in ssa.Instruction) {
		if call, ok := in.(*ssa.Call); ok && call.Call.IsInvoke() && call.Call.Method.Name() == "OnMoved" {
			onMoved = call
		}
	})
	if onMoved == nil {
		c.bad("eventloop.sread: redirect handed to OnMoved", p.pos(sread.Pos()), "no OnMoved call: redirects are never followed")
		return
	}
	pm := p.Method(pkgCore, "Frag", "parseMovedOrAsk")
	okArgs := false
	if ex0, ok := onMoved.Call.Args[0].(*ssa.Extract); ok && ex0.Index == 0 {
		if ex1, ok := onMoved.Call.Args[1].(*ssa.Extract); ok && ex1.Index == 1 && ex1.Tuple == ex0.Tuple {
			if call, ok := p.isCallTo(ex0.Tuple, pm); ok && call.Call.Args[0] == onMoved.Call.Args[3] {
				if strip(onMoved.Call.Args[2]) == ssa.Value(sread.Params[1]) {
					okArgs = true
				}
			}
		}
	}
	c.check(okArgs, "eventloop.sread: OnMoved(addr, slot of this reply, this connection, this fragment)", c.at(onMoved), "arguments come from r.parseMovedOrAsk() of the redirected fragment", "OnMoved is not called with the address/slot parsed from the redirected fragment itself")
	moved := p.Global(pkgCodec, "MovedOrAsk")
	gs := guardsOf(onMoved)
	okG := guardHas(gs, func(g Guard) bool {
		_, op, y, ok := cmpGuard(g)
		ld, isLd := y.(*ssa.UnOp)
		return ok && op == token.EQL && isLd && ld.X == ssa.Value(moved)
	})
	c.check(okG, "eventloop.sread: OnMoved only for MovedOrAsk", c.at(onMoved), "on err == codec.MovedOrAsk", "OnMoved is called on another edge than err == MovedOrAsk", withGuards(gs))
	// after OnMoved: straight back to the loop header, no client-side effect
	touched := ""
	pathFrom(onMoved, func(in ssa.Instruction) bool {
		if in.Block() == sread.Blocks[1] && in == in.Block().Instrs[0] {
			return true
		}
		if call, ok := in.(ssa.CallInstruction); ok {
			n := staticCalleeName(call.Common())
			for _, bad := range []string{"writev", "dequeueInMsg", "msgPool).Put", "EnqueueInMsg", "closeConn"} {
				if strings.Contains(n, bad) {
					touched = n
				}
			}
		}
		return false
	})
	c.check(touched == "", "eventloop.sread: a redirect leaves the client queue alone", c.at(onMoved), "continue right after OnMoved",
		"after handing a redirect to OnMoved the loop goes on to "+touched+": the request would be answered/flushed/recycled although it was re-sent")
}

func ruleC13_2(c *Ctx) {
	p := c.P
	on := c.needMethod(pkgServer, "listenServer", "OnMoved")
	sread := c.needMethod(pkgCore, "eventloop", "sread")
	enq := c.needMethod(pkgCore, "conn", "EnqueueOutFrag")
	if on == nil || sread == nil || enq == nil {
		return
	}
	c.examined(len(on.Blocks))
	typeF := p.Field(pkgCore, "Frag", "Type")
	reqF := p.Field(pkgCore, "Frag", "Req")
	discardF := p.Field(pkgCore, "Frag", "Discard")
	askK, _ := p.ConstInt(pkgCodec, "RspAsk")
	f := ssa.Value(on.Params[4])
	var resend, asking ssa.CallInstruction
	// the connection each of them is queued on, as a value of OnMoved (a helper's parameter is resolved to what this
	// call site passes: two calls of pool.Get() are two connections), and the call's place in OnMoved
	recvOf := map[ssa.CallInstruction]ssa.Value{}
	placeOf := map[ssa.CallInstruction]ssa.Instruction{}
	resolve := func(v ssa.Value) ssa.Value {
		v = strip(v)
		for i := 0; i < 3; i++ {
			b, ok := boundParam(v)
			if !ok {
				break
			}
			v = strip(b)
		}
		return v
	}
	p.virtualCalls(on, []*ssa.Function{enq}, func(call ssa.CallInstruction) {
		recv := call.Common().Value
		if !call.Common().IsInvoke() && len(call.Common().Args) > 0 {
			recv = call.Common().Args[0]
		}
		recvOf[call] = resolve(recv)
		placeOf[call] = lift(call.(ssa.Instruction), on)
		arg := call.Common().Args[len(call.Common().Args)-1]
		if resolve(arg) == f {
			resend = call
		} else {
			asking = call
		}
	})
	if resend == nil {
		c.bad("OnMoved: re-send", p.pos(on.Pos()), "the redirected fragment is never queued on the target connection")
		return
	}
	if asking == nil {
		c.bad("OnMoved: ASKING before the re-sent request", c.at(resend), "no ASKING command is queued for an ASK redirect: the importing node answers the re-sent command with -MOVED back to the source and the request bounces between the two nodes until the migration ends")
		return
	}
	af := strip(asking.Common().Args[0])
	home := on
	// the ASKING fragment may be built by a small constructor helper
	if call, ok := af.(*ssa.Call); ok {
		if h := call.Call.StaticCallee(); h != nil && h != p.Method(pkgCore, "fragPool", "Get") && p.ownFunc(h) && h.Blocks != nil {
			rets := returnsReachable(h)
			if len(rets) == 1 {
				af = strip(results(rets[0].(*ssa.Return))[0])
				home = h
			}
		}
	}
	// literal
	lit := ""
	for _, w := range p.fieldWrites(reqF) {
		if (w.Fn == home || homeFn(w.Fn) == on) && strip(w.Base) == af {
			if call, ok := w.Val.(*ssa.Call); ok && len(call.Call.Args) == 2 {
				lit, _ = constString(call.Call.Args[1])
			}
		}
	}
	args, wf := parseRESPCommand(lit)
	c.check(wf && len(args) == 1 && strings.EqualFold(args[0], "ASKING"), "OnMoved: ASKING literal", c.at(asking), fmt.Sprintf("%q", lit), fmt.Sprintf("the command queued before the re-sent request is %q, not a well-formed ASKING", lit))
	// guarded by f.Type == RspAsk, same connection, before the re-send
	gs := guardsOf(asking)
	okG := guardHas(gs, func(g Guard) bool {
		x, op, y, ok := cmpGuard(g)
		k, isK := constInt(y)
		base, isT := fieldLoad(x, typeF)
		return ok && op == token.EQL && isK && k == askK && isT && strip(base) == f
	})
	c.check(okG, "OnMoved: ASKING only for ASK redirects", c.at(asking), "on f.Type == RspAsk", "ASKING is not sent exactly for ASK redirects", withGuards(gs))
	sameConn := recvOf[asking] != nil && recvOf[asking] == recvOf[resend]
	pa, pr := placeOf[asking], placeOf[resend]
	before := pa != nil && pr != nil && pa != pr && canReach(pa, pr) && !canReach(pr, pa)
	c.check(sameConn && before, "OnMoved: ASKING on the target connection right before the request", c.at(asking), "same connection, queued first", "ASKING is queued on another connection than the re-sent request, or after it")
	// its reply belongs to nobody
	isDiscard := false
	for _, w := range p.fieldWrites(discardF) {
		if (w.Fn == home || homeFn(w.Fn) == on) && strip(w.Base) == af {
			if k, ok := w.Val.(*ssa.Const); ok && k.Value.String() == "true" {
				isDiscard = true
			}
		}
	}
	// ... and it stays anonymous: conn.sread recognises the proxy's own fragments by Owner == nil, before any request
	// is completed with their reply
	for _, fname := range []string{"Owner", "Peer"} {
		ff := p.Field(pkgCore, "Frag", fname)
		if ff == nil {
			continue
		}
		for _, w := range p.fieldWrites(ff) {
			if (w.Fn == home || homeFn(w.Fn) == on) && strip(w.Base) == af && !isNilConst(w.Val) {
				c.bad("OnMoved: the ASKING fragment has no owner and no request", c.at(w.Instr), "the proxy's own ASKING fragment is given the redirected request's "+fname+": conn.sread skips only fragments without an owner, so the +OK that answers ASKING completes the client's request (Done, reply +OK) - "+
					"if another reply for that client is flushed before the real one arrives, the client receives +OK as the answer to the redirected command and the real reply lands in a recycled request")
			}
		}
	}
	c.check(isDiscard, "OnMoved: the ASKING fragment is marked Discard", c.at(asking), "Discard = true", "the ASKING fragment is not marked as proxy-internal: its +OK is attributed to a client or to the topology channel")
	// eventloop.sread drops Discard replies before anything else is done with them
	var gate *ssa.If
	for _, b := range sread.Blocks {
		if ifi, ok := b.Instrs[len(b.Instrs)-1].(*ssa.If); ok {
			if _, is := fieldLoad(ifi.Cond, discardF); is {
				gate = ifi
			}
		}
	}
	if gate == nil {
		c.bad("eventloop.sread: Discard replies are dropped", p.pos(sread.Pos()), "no test of Frag.Discard: the +OK of ASKING is sent to the topology channel or a client")
		return
	}
	okFirst := true
	allInstrs(sread, func(in ssa.Instruction) {
		switch x := in.(type) {
		case *ssa.Select:
			if !dominatesInstr(gate, in) {
				okFirst = false
			}
		case *ssa.Call:
			if strings.HasSuffix(staticCalleeName(&x.Call), "conn).writev") && !dominatesInstr(gate, in) {
				okFirst = false
			}
		}
	})
	c.check(okFirst && gate.Block().Succs[0] == sread.Blocks[1], "eventloop.sread: Discard replies are dropped", c.at(gate), "tested before the topology channel and the client flush; true edge continues",
		"a proxy-internal reply can reach the topology channel or a client before Frag.Discard is tested")
}

func ruleC13_3(c *Ctx) {
	p := c.P
	on := c.needMethod(pkgServer, "listenServer", "OnMoved")
	enq := c.needMethod(pkgCore, "conn", "EnqueueOutFrag")
	if on == nil || enq == nil {
		return
	}
	f := ssa.Value(on.Params[4])
	fragT := p.Named(pkgCore, "Frag")
	for _, call := range p.callsIn(on, enq) {
		if strip(call.Common().Args[0]) != f {
			continue
		}
		// a guard comparing an integer field of the fragment (or its request) that this function increments
		gs := guardsOf(call)
		bounded := guardHas(gs, func(g Guard) bool {
			x, op, y, ok := cmpGuard(g)
			if !ok || (op != token.LSS && op != token.LEQ && op != token.GTR && op != token.GEQ) {
				return false
			}
			for _, side := range []ssa.Value{x, y} {
				fv, base, is := anyFieldLoad(side)
				if !is {
					continue
				}
				bt := base.Type()
				if pt, ok := bt.(*types.Pointer); ok {
					bt = pt.Elem()
				}
				if !types.Identical(bt, fragT) && !strings.HasSuffix(bt.String(), "core.Msg") {
					continue
				}
				// incremented in OnMoved
				for _, w := range p.fieldWrites(fv) {
					if homeFn(w.Fn) == on {
						if bo, ok := w.Val.(*ssa.BinOp); ok && bo.Op == token.ADD {
							return true
						}
					}
				}
			}
			return false
		})
		c.check(bounded, "OnMoved: re-send bounded by a redirect counter", c.at(call), "guarded by a per-fragment counter incremented here",
			"the redirected fragment is re-sent unconditionally: two nodes that point at each other (stale views during failover) bounce the request forever at event-loop speed", withGuards(gs))
	}
}

func ruleC13_4(c *Ctx) {
	p := c.P
	pm := c.needMethod(pkgCore, "Frag", "parseMovedOrAsk")
	rr := c.needMethod(pkgCore, "SRespCodec", "readReply")
	if pm == nil || rr == nil {
		return
	}
	typeF := p.Field(pkgCore, "Frag", "Type")
	// prefixes from readReply: HasPrefix(line, "-X") whose true edge returns RspMoved / RspAsk
	prefix := map[int64]string{}
	var rrBlocks []*ssa.BasicBlock
	for _, g := range p.family(rr) {
		rrBlocks = append(rrBlocks, g.Blocks...)
	}
	for _, b := range rrBlocks {
		ifi, ok := b.Instrs[len(b.Instrs)-1].(*ssa.If)
		if !ok {
			continue
		}
		call, ok := ifi.Cond.(*ssa.Call)
		if !ok || staticCalleeName(&call.Call) != "strings.HasPrefix" {
			continue
		}
		s, ok := constString(call.Call.Args[1])
		if !ok {
			continue
		}
		tb := b.Succs[0]
		if ret, ok := tb.Instrs[len(tb.Instrs)-1].(*ssa.Return); ok {
			if k, isK := constInt(results(ret)[0]); isK {
				prefix[k] = s
			}
		}
	}
	// table form: for _, e := range <package-level []struct{prefix string; t Command}> { if HasPrefix(line, e.prefix) { return e.t } }
	if len(prefix) == 0 {
		for _, b := range rrBlocks {
			ifi, ok := b.Instrs[len(b.Instrs)-1].(*ssa.If)
			if !ok {
				continue
			}
			call, ok := ifi.Cond.(*ssa.Call)
			if !ok || staticCalleeName(&call.Call) != "strings.HasPrefix" {
				continue
			}
			// the prefix is a string field of an element of a global slice; the true edge returns another field of that element
			g, sf := globalElemField(call.Call.Args[1])
			if g == nil {
				continue
			}
			tb := b.Succs[0]
			ret, ok := tb.Instrs[len(tb.Instrs)-1].(*ssa.Return)
			if !ok {
				continue
			}
			g2, tf := globalElemField(results(ret)[0])
			if g2 != g || tf == nil {
				continue
			}
			for k, s := range p.structTableRows(g, sf, tf) {
				prefix[k] = s
			}
		}
	}
	for _, name := range []string{"RspMoved", "RspAsk"} {
		k, _ := p.ConstInt(pkgCodec, name)
		pre, ok := prefix[k]
		if !ok {
			c.undecided("readReply prefix for "+name, p.pos(rr.Pos()), "no HasPrefix classification returning "+name+" found")
			continue
		}
		// the offset used when Type == k
		found := false
		allInstrs(pm, func(in ssa.Instruction) {
			ph, ok := in.(*ssa.Phi)
			if !ok {
				return
			}
			for i, e := range ph.Edges {
				off, isK := constInt(e)
				if !isK {
					continue
				}
				pred := ph.Block().Preds[i]
				gs := guardsAt(pred)
				if ifi, ok := pred.Instrs[len(pred.Instrs)-1].(*ssa.If); ok {
					gs = append([]Guard{{Cond: ifi.Cond, Truth: pred.Succs[0] == ph.Block(), If: ifi}}, gs...)
				}
				if guardHas(gs, func(g Guard) bool {
					x, op, y, ok := cmpGuard(g)
					v, isV := constInt(y)
					_, isT := fieldLoad(x, typeF)
					return ok && op == token.EQL && isV && v == k && isT
				}) {
					found = true
					c.check(off == int64(len(pre)+1), "parseMovedOrAsk offset for "+name, c.P.pos(pm.Pos()), fmt.Sprintf("%d = len(%q)+1", off, pre),
						fmt.Sprintf("the slot/address of a %s reply is read from offset %d but the prefix recognised by readReply is %q (offset %d): the redirect is followed to a garbage address or slot", name, off, pre, len(pre)+1))
				}
			}
		})
		if !found {
			c.undecided("parseMovedOrAsk offset for "+name, p.pos(pm.Pos()), "the offset selected for this reply type was not found")
		}
	}
}

// globalElemField: v is (a copy of) field f of an element of a package-level slice/array variable: returns the
// global and the field. Handles `for _, e := range tbl { … e.f … }` (the element is copied into a local) and tbl[i].f.
func globalElemField(v ssa.Value) (*ssa.Global, *types.Var) {
	v = strip(v)
	var f *types.Var
	var base ssa.Value
	if ff, b, ok := anyFieldLoad(v); ok {
		f, base = ff, b
	} else {
		return nil, nil
	}
	// base: &tbl[i], or a local copy of tbl[i]
	for i := 0; i < 4; i++ {
		switch x := strip(base).(type) {
		case *ssa.IndexAddr:
			if ld, ok := strip(x.X).(*ssa.UnOp); ok {
				if g, ok := ld.X.(*ssa.Global); ok {
					return g, f
				}
			}
			return nil, nil
		case *ssa.Alloc:
			// local copy: its single whole store
			_, ws, ok := localStructStores(x, 0)
			if !ok || len(ws) != 1 {
				return nil, nil
			}
			base = ws[0].Val
		case *ssa.UnOp:
			base = x.X
		default:
			return nil, nil
		}
	}
	return nil, nil
}

// structTableRows evaluates a package-level `[]struct{…}{ {…}, … }` literal: for every row the constant values of the
// string field sf and the integer field tf (positional or keyed elements).
func (p *Prog) structTableRows(g *ssa.Global, sf, tf *types.Var) map[int64]string {
	out := map[int64]string{}
	if g.Pkg == nil {
		return out
	}
	vs, idx, pk := p.VarDecl(g.Pkg.Pkg.Path(), g.Name())
	if vs == nil || idx >= len(vs.Values) {
		return out
	}
	cl, ok := vs.Values[idx].(*ast.CompositeLit)
	if !ok {
		return out
	}
	st, ok := sf.Type(), true
	_ = st
	// field positions
	var structT *types.Struct
	if tv, ok := pk.TypesInfo.Types[vs.Values[idx]]; ok {
		switch u := tv.Type.Underlying().(type) {
		case *types.Slice:
			structT, _ = u.Elem().Underlying().(*types.Struct)
		case *types.Array:
			structT, _ = u.Elem().Underlying().(*types.Struct)
		}
	}
	if structT == nil {
		return out
	}
	posOf := func(f *types.Var) int {
		for i := 0; i < structT.NumFields(); i++ {
			if structT.Field(i) == f {
				return i
			}
		}
		return -1
	}
	si, ti := posOf(sf), posOf(tf)
	for _, e := range cl.Elts {
		row, ok := e.(*ast.CompositeLit)
		if !ok {
			continue
		}
		var sv, tvv constant.Value
		for i, el := range row.Elts {
			expr := el
			fi := i
			if kv, ok := el.(*ast.KeyValueExpr); ok {
				expr = kv.Value
				fi = -1
				if id, ok := kv.Key.(*ast.Ident); ok {
					for j := 0; j < structT.NumFields(); j++ {
						if structT.Field(j).Name() == id.Name {
							fi = j
						}
					}
				}
			}
			val := pk.TypesInfo.Types[expr].Value
			if fi == si {
				sv = val
			}
			if fi == ti {
				tvv = val
			}
		}
		if sv != nil && tvv != nil && sv.Kind() == constant.String {
			if k, exact := constant.Int64Val(constant.ToInt(tvv)); exact {
				out[k] = constant.StringVal(sv)
			}
		}
	}
	return out
}

// structTableRowsMulti is structTableRows keyed by the string field, so that several rows may share one type.
func (p *Prog) structTableRowsMulti(g *ssa.Global, sf, tf *types.Var) map[string]int64 {
	out := map[string]int64{}
	if g.Pkg == nil {
		return out
	}
	vs, idx, pk := p.VarDecl(g.Pkg.Pkg.Path(), g.Name())
	if vs == nil || idx >= len(vs.Values) {
		return out
	}
	cl, ok := vs.Values[idx].(*ast.CompositeLit)
	if !ok {
		return out
	}
	var structT *types.Struct
	if tv, ok := pk.TypesInfo.Types[vs.Values[idx]]; ok {
		switch u := tv.Type.Underlying().(type) {
		case *types.Slice:
			structT, _ = u.Elem().Underlying().(*types.Struct)
		case *types.Array:
			structT, _ = u.Elem().Underlying().(*types.Struct)
		}
	}
	if structT == nil {
		return out
	}
	posOf := func(f *types.Var) int {
		for i := 0; i < structT.NumFields(); i++ {
			if structT.Field(i) == f {
				return i
			}
		}
		return -1
	}
	si, ti := posOf(sf), posOf(tf)
	for _, e := range cl.Elts {
		row, ok := e.(*ast.CompositeLit)
		if !ok {
			continue
		}
		var sv, tvv constant.Value
		for i, el := range row.Elts {
			ex := el
			fi := i
			if kv, ok := el.(*ast.KeyValueExpr); ok {
				ex = kv.Value
				fi = -1
				if id, ok := kv.Key.(*ast.Ident); ok {
					for j := 0; j < structT.NumFields(); j++ {
						if structT.Field(j).Name() == id.Name {
							fi = j
						}
					}
				}
			}
			val := pk.TypesInfo.Types[ex].Value
			if fi == si {
				sv = val
			}
			if fi == ti {
				tvv = val
			}
		}
		if sv != nil && tvv != nil && sv.Kind() == constant.String {
			if k, exact := constant.Int64Val(constant.ToInt(tvv)); exact {
				out[constant.StringVal(sv)] = k
			}
		}
	}
	return out
}

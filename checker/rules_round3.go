package main

// Rules added after the third round of independently seeded changes (DESIGN.md section 6).

import (
	"fmt"
	"go/token"
	"go/types"
	"strings"

	"golang.org/x/tools/go/ssa"
)

func init() {
	rule("C01.7", "E3+E8", "conn.write / conn.writev report the socket's error only when nothing was kept: once the bytes are in the outbound buffer the call has succeeded (callers re-submit on error)", 4, ruleC01_7)
	rule("C04.8", "E3", "a pool whose role changes drops its connections: they were set up (READONLY or not) for the old role", 1, ruleC04_8)
	rule("C10.4", "E2+E8", "a fragment goes in flight only as the head of the out queue, in the write drain: nothing is sent around fragments that are still queued", 1, ruleC10_4)
	rule("C11.5", "E3", "the whole-request error completion is decided after the merge: every call that can set Frag.Error is followed by the test of Frag.Error on every way out", 2, ruleC11_5)
	rule("C12.6", "E8", "no slice is allocated with a size the client sent: counts and lengths parsed from the request reach make() only as map hints", 2, ruleC12_6)
}

// ---------------------------------------------------------------------------------------------
// C01.7

func ruleC01_7(c *Ctx) {
	p := c.P
	bufWrite := p.Method(pkgElastic, "Buffer", "Write")
	bufWritev := p.Method(pkgElastic, "Buffer", "Writev")
	if bufWrite == nil || bufWritev == nil {
		c.undecided("elastic.Buffer.Write/Writev", "-", "not found")
		return
	}
	for _, m := range []string{"write", "writev"} {
		fn := c.needMethod(pkgCore, "conn", m)
		if fn == nil {
			continue
		}
		c.examined(len(fn.Blocks))
		// the socket call: unix.Write / io.Writev, result #1 is its error
		var sys *ssa.Call
		p.allInstrsDeep(fn, func(in ssa.Instruction) {
			if call, ok := in.(*ssa.Call); ok {
				switch staticCalleeName(&call.Call) {
				case "golang.org/x/sys/unix.Write", "rcproxy/core/internal/io.Writev":
					sys = call
				}
			}
		})
		if sys == nil {
			c.undecided(shortFn(fn)+": socket call", p.pos(fn.Pos()), "unix.Write / io.Writev not found")
			continue
		}
		var appends []ssa.Instruction
		p.virtualCalls(fn, []*ssa.Function{bufWrite, bufWritev}, func(bw ssa.CallInstruction) {
			if in := lift(bw.(ssa.Instruction), fn); in != nil {
				appends = append(appends, in)
			}
		})
		if len(appends) == 0 {
			c.undecided(shortFn(fn)+": buffer appends", p.pos(fn.Pos()), "no append to the outbound buffer found")
			continue
		}
		// the value is the socket call's error on a path where it is not known to be nil
		var isSysErr func(v ssa.Value, at *ssa.BasicBlock, depth int) bool
		isSysErr = func(v ssa.Value, at *ssa.BasicBlock, depth int) bool {
			if depth > 6 {
				return false
			}
			v = through(v)
			switch x := v.(type) {
			case *ssa.Extract:
				if x.Tuple != ssa.Value(sys) || x.Index != 1 {
					return false
				}
				for _, g := range guardsAt(at) {
					if a, op, b, ok := cmpGuard(g); ok && op == token.EQL && isNilConst(b) && strip(a) == ssa.Value(x) {
						return false // err == nil here
					}
				}
				return true
			case *ssa.Phi:
				for i, e := range x.Edges {
					if isSysErr(e, x.Block().Preds[i], depth+1) {
						return true
					}
				}
			}
			return false
		}
		n := 0
		for _, r := range returnsReachable(fn) {
			after := false
			for _, a := range appends {
				if canReach(a, r) {
					after = true
				}
			}
			if !after {
				continue
			}
			n++
			rs := results(r.(*ssa.Return))
			errv := rs[len(rs)-1]
			c.check(!isSysErr(errv, r.Block(), 0), fmt.Sprintf("%s: return #%d after buffering", shortFn(fn), n), c.at(r),
				"the error returned after the bytes were buffered is not the socket's error: "+expr(errv),
				"after the unsent bytes were appended to the outbound buffer the function still returns the error of the socket call (EAGAIN): the flush loops treat any error as 'not written' and submit the same replies/requests again, so the peer receives them twice")
		}
		if n < 2 {
			c.undecided(shortFn(fn)+": returns after buffering", p.pos(fn.Pos()), fmt.Sprintf("%d found (backlog, EAGAIN and partial-write exits expected)", n))
		}
	}
}

// ---------------------------------------------------------------------------------------------
// C04.8

func ruleC04_8(c *Ctx) {
	p := c.P
	isSlaveF := p.Field(pkgCore, "Pool", "isSlave")
	release := c.needMethod(pkgCore, "Pool", "Release")
	if isSlaveF == nil {
		c.undecided("Pool.isSlave", "-", "field not found")
		return
	}
	if release == nil {
		return
	}
	n := 0
	for _, w := range p.fieldWrites(isSlaveF) {
		if w.Kind != "store" {
			continue
		}
		if _, fresh := strip(w.Base).(*ssa.Alloc); fresh {
			continue // constructor: no connection exists yet
		}
		n++
		fn := w.Fn
		c.touch(fn)
		c.examined(len(fn.Blocks))
		// every way out after the store passes a Release() of the same pool
		miss := pathFrom(w.Instr, func(in ssa.Instruction) bool {
			if ci, ok := in.(ssa.CallInstruction); ok {
				if callee := ci.Common().StaticCallee(); callee != nil && (callee == release || mustCall(p, callee, release, 2)) {
					return true
				}
			}
			return false
		})
		// or the Release dominates the store (connections dropped first)
		before := false
		for _, rc := range p.callsIn(fn, release) {
			if dominatesInstr(rc.(ssa.Instruction), w.Instr) {
				before = true
			}
		}
		var path []string
		for _, in := range miss {
			path = append(path, c.at(in))
		}
		c.check(len(miss) == 0 || before, "Pool.isSlave written in "+shortFn(fn)+": connections of the old role dropped", c.at(w.Instr),
			"Release() on every path that changes the role",
			"the role of a pool is changed on a path that keeps its open connections: connections dialled while the node was a master never sent READONLY, so replica reads routed over them are answered -MOVED (and a promoted replica keeps READONLY connections)", withPath(path))
	}
	if n < 1 {
		c.undecided("Pool.isSlave writers", "-", "no store to Pool.isSlave outside a constructor found (SetIsSlave expected)")
	}
}

// ---------------------------------------------------------------------------------------------
// C10.4

func ruleC10_4(c *Ctx) {
	p := c.P
	enq := c.needMethod(pkgCore, "conn", "enqueueInFrag")
	drain := c.needMethod(pkgCore, "conn", "handleWriteSignal")
	outQ := p.Field(pkgCore, "conn", "outFragQueue")
	headF := p.Field(pkgCore, "FragQueue", "head")
	if enq == nil || drain == nil {
		return
	}
	if outQ == nil || headF == nil {
		c.undecided("conn.outFragQueue / FragQueue.head", "-", "fields not found")
		return
	}
	sites := p.SitesOf(enq)
	c.examined(len(sites))
	n := 0
	for _, s := range sites {
		if s.Fn.Synthetic != "" {
			continue
		}
		n++
		home := homeFn(s.Fn)
		c.touch(home)
		name := "enqueueInFrag in " + shortFn(home)
		if s.Call == nil {
			c.bad(name, c.at(s.Instr), "enqueueInFrag is taken as a function value")
			continue
		}
		arg := through(s.Call.Args[len(s.Call.Args)-1])
		// the head of the out queue, possibly held in a loop variable that is re-loaded from the head each round
		var headOf func(v ssa.Value, depth int) bool
		headOf = func(v ssa.Value, depth int) bool {
			v = strip(v)
			if ph, ok := v.(*ssa.Phi); ok && depth < 3 {
				for _, e := range ph.Edges {
					if !headOf(e, depth+1) {
						return false
					}
				}
				return len(ph.Edges) > 0
			}
			if q, ok := fieldLoad(v, headF); ok {
				if _, ok := fieldLoad(q, outQ); ok {
					return true
				}
			}
			return false
		}
		isHead := headOf(arg, 0)
		c.check(home == drain && isHead, name, c.at(s.Instr), "the write drain moves the head of the out queue in flight",
			"a fragment is put in flight (and written) outside the drain of the out queue, or is not the queue's head: a request that is still waiting in the out queue for its write signal is overtaken by a later request of the same client to the same node")
	}
	if n < 1 {
		c.undecided("enqueueInFrag sites", "-", "none found")
	}
}

// ---------------------------------------------------------------------------------------------
// C11.5

// errorWriters: module functions that can store to Frag.Error (directly or through static callees, depth 3).
func errorWriters(p *Prog, errF *types.Var) map[*ssa.Function]bool {
	direct := map[*ssa.Function]bool{}
	for _, w := range p.fieldWrites(errF) {
		if w.Kind == "store" {
			direct[outermost(w.Fn)] = true
		}
	}
	out := map[*ssa.Function]bool{}
	for f := range direct {
		out[f] = true
	}
	for i := 0; i < 3; i++ {
		for _, fn := range p.Funcs {
			if out[fn] || fn.Blocks == nil {
				continue
			}
			allInstrs(fn, func(in ssa.Instruction) {
				if ci, ok := in.(ssa.CallInstruction); ok {
					if callee := ci.Common().StaticCallee(); callee != nil && out[callee] {
						out[fn] = true
					}
				}
			})
		}
	}
	return out
}

func ruleC11_5(c *Ctx) {
	p := c.P
	sread := c.needMethod(pkgCore, "conn", "sread")
	errF := p.Field(pkgCore, "Frag", "Error")
	msgErrF := p.Field(pkgCore, "Msg", "Error")
	if sread == nil {
		return
	}
	if errF == nil || msgErrF == nil {
		c.undecided("Frag.Error / Msg.Error", "-", "fields not found")
		return
	}
	c.examined(len(sread.Blocks))
	// the completion block: the store Msg.Error = f.Error; its deciding test is the nearest guard that reads Frag.Error
	var test *ssa.If
	p.allInstrsDeep(sread, func(in ssa.Instruction) {
		st, ok := in.(*ssa.Store)
		if !ok {
			return
		}
		fa, ok := st.Addr.(*ssa.FieldAddr)
		if !ok || fieldVar(fa.X.Type(), fa.Field) != msgErrF {
			return
		}
		// (the test is looked for where the store is, then at the call sites that lead to it)
		for cur, i := in, 0; cur != nil && test == nil && i < 4; i++ {
			for _, g := range guardsAtRaw(cur.Block()) {
				if readsField(g.Cond, errF, 0) {
					test = g.If
					break
				}
			}
			if outermost(cur.Parent()) == sread {
				break
			}
			var up ssa.Instruction
			if sites := p.helperSites(outermost(cur.Parent())); p.isHelper(outermost(cur.Parent())) && len(sites) == 1 {
				up = sites[0].Instr
			}
			cur = up
		}
	})
	if test == nil {
		c.undecided("conn.sread: error completion test", p.pos(sread.Pos()), "no block storing Msg.Error under a test of Frag.Error found")
		return
	}
	writers := errorWriters(p, errF)
	n := 0
	// holder: the function that evaluates the test (conn.sread or a helper it runs: `return f, c.settle(f)`)
	holder := outermost(test.Parent())
	var holderSite ssa.Instruction
	if holder != sread {
		holderSite = lift(test, sread)
		if holderSite == nil {
			c.undecided("conn.sread: error completion test", c.at(test), "the test sits in "+shortFn(holder)+", which is not reached from conn.sread through a single call site")
			return
		}
		c.touch(holder)
	}
	check := func(in ssa.Instruction, what string) {
		n++
		var okAll bool
		if outermost(in.Parent()) == holder {
			okAll = canReach(in, test)
			for _, r := range returnsReachable(holder) {
				if canReach(in, r) && !test.Block().Dominates(r.Block()) {
					okAll = false
				}
			}
		} else {
			// before the helper runs: the helper's call is on every way out, and the test on every way through the helper
			okAll = canReach(in, holderSite)
			for _, r := range returnsReachable(sread) {
				if canReach(in, r) && !dominatesInstr(holderSite, r) {
					okAll = false
				}
			}
			for _, r := range returnsReachable(holder) {
				if !test.Block().Dominates(r.Block()) {
					okAll = false
				}
			}
		}
		c.check(okAll, "conn.sread: "+what+" is followed by the Frag.Error test", c.at(in), "the test at "+c.at(test)+" is on every way out",
			what+" can set Frag.Error, but the test that completes the whole request with that error is not evaluated afterwards on every path: a backend error on one fragment of a split DEL/MGET is not propagated (the client gets a partial count, a stalled request or the proxy indexes a missing reply)")
	}
	visit := func(in ssa.Instruction) {
		switch x := in.(type) {
		case ssa.CallInstruction:
			for _, callee := range calleesOfCommon(p, x.Common()) {
				if writers[callee] && callee != sread && callee != holder {
					check(in, "the call of "+shortFn(callee))
					return
				}
			}
		case *ssa.Store:
			if fa, ok := x.Addr.(*ssa.FieldAddr); ok && fieldVar(fa.X.Type(), fa.Field) == errF {
				check(in, "the store to Frag.Error")
			}
		}
	}
	allInstrs(sread, visit)
	if holder != sread {
		allInstrs(holder, visit)
	}
	if n < 2 {
		c.undecided("conn.sread: Frag.Error writers", p.pos(sread.Pos()), fmt.Sprintf("%d found (MGet, Del and the size check expected)", n))
	}
}

func calleesOfCommon(p *Prog, cc *ssa.CallCommon) []*ssa.Function {
	fns, _ := p.calleesOf(cc)
	return fns
}

// readsField: the condition reads field f (through accessor calls such as Status.NotNil()).
func readsField(v ssa.Value, f *types.Var, depth int) bool {
	if depth > 4 || v == nil {
		return false
	}
	if _, ok := fieldLoad(v, f); ok {
		return true
	}
	switch x := v.(type) {
	case *ssa.BinOp:
		return readsField(x.X, f, depth+1) || readsField(x.Y, f, depth+1)
	case *ssa.UnOp:
		if x.Op == token.NOT {
			return readsField(x.X, f, depth+1)
		}
		if x.Op == token.MUL {
			if fa, ok := x.X.(*ssa.FieldAddr); ok && fieldVar(fa.X.Type(), fa.Field) == f {
				return true
			}
		}
	case *ssa.Call:
		for _, a := range x.Call.Args {
			if readsField(a, f, depth+1) {
				return true
			}
			// &f.Error passed as a receiver
			if fa, ok := a.(*ssa.FieldAddr); ok && fieldVar(fa.X.Type(), fa.Field) == f {
				return true
			}
		}
	case *ssa.Phi:
		for _, e := range x.Edges {
			if readsField(e, f, depth+1) {
				return true
			}
		}
	}
	return false
}

// ---------------------------------------------------------------------------------------------
// C12.6

func ruleC12_6(c *Ctx) {
	p := c.P
	decode := c.needMethod(pkgCore, "CRespCodec", "Decode")
	parseLen := c.need(pkgCore + ".parseLen")
	if decode == nil || parseLen == nil {
		return
	}
	// functions of the client decoder: reachable from CRespCodec.Decode through static module calls
	reach := map[*ssa.Function]bool{decode: true}
	work := []*ssa.Function{decode}
	for len(work) > 0 {
		fn := work[0]
		work = work[1:]
		allInstrs(fn, func(in ssa.Instruction) {
			if ci, ok := in.(ssa.CallInstruction); ok {
				for _, callee := range calleesOfCommon(p, ci.Common()) {
					if p.ownFunc(callee) && callee.Blocks != nil && !reach[callee] {
						reach[callee] = true
						work = append(work, callee)
					}
				}
			}
		})
	}
	// forward taint from parseLen results
	tainted := map[ssa.Value]bool{}
	srcs := 0
	var fns []*ssa.Function
	for fn := range reach {
		fns = append(fns, fn)
	}
	sortFuncs(fns)
	for _, fn := range fns {
		allInstrs(fn, func(in ssa.Instruction) {
			if call, ok := in.(*ssa.Call); ok && call.Call.StaticCallee() == parseLen {
				srcs++
				tainted[call] = true
			}
		})
	}
	for round := 0; round < 6; round++ {
		changed := false
		mark := func(v ssa.Value) {
			if !tainted[v] {
				tainted[v] = true
				changed = true
			}
		}
		for _, fn := range fns {
			allInstrs(fn, func(in ssa.Instruction) {
				switch x := in.(type) {
				case *ssa.Extract:
					if tainted[x.Tuple] && x.Index == 0 {
						mark(x)
					}
				case *ssa.BinOp:
					switch x.Op {
					case token.ADD, token.SUB, token.MUL, token.QUO, token.SHL:
						if tainted[x.X] || tainted[x.Y] {
							mark(x)
						}
					}
				case *ssa.Phi:
					for _, e := range x.Edges {
						if tainted[e] {
							mark(x)
						}
					}
				case *ssa.Convert:
					if tainted[x.X] {
						mark(x)
					}
				case *ssa.ChangeType:
					if tainted[x.X] {
						mark(x)
					}
				case ssa.CallInstruction:
					for _, callee := range calleesOfCommon(p, x.Common()) {
						if !reach[callee] {
							continue
						}
						args := x.Common().Args
						off := 0
						if x.Common().IsInvoke() {
							off = 1
						}
						for i, a := range args {
							if tainted[a] && i+off < len(callee.Params) {
								mark(callee.Params[i+off])
							}
						}
					}
				}
			})
		}
		if !changed {
			break
		}
	}
	c.examined(len(tainted))
	c.check(srcs >= 2, "client decoder: numbers parsed from the request", p.pos(decode.Pos()), fmt.Sprintf("%d parseLen call sites in %d functions reachable from CRespCodec.Decode are followed", srcs, len(fns)), "fewer than two parseLen sites found in the client decoder")
	bounded := func(v ssa.Value, at *ssa.BasicBlock) bool {
		for _, g := range guardsAt(at) {
			x, op, y, ok := cmpGuard(g)
			if !ok {
				continue
			}
			if strip(x) == v && (op == token.LSS || op == token.LEQ) && !tainted[strip(y)] {
				return true
			}
			if strip(y) == v && (op == token.GTR || op == token.GEQ) && !tainted[strip(x)] {
				return true
			}
		}
		return false
	}
	n := 0
	for _, fn := range fns {
		allInstrs(fn, func(in ssa.Instruction) {
			mk, ok := in.(*ssa.MakeSlice)
			if !ok {
				return
			}
			n++
			bad := ""
			for _, v := range []ssa.Value{mk.Len, mk.Cap} {
				if v != nil && tainted[strip(v)] && !bounded(strip(v), mk.Block()) {
					bad = expr(v)
				}
			}
			c.check(bad == "", "make([]T) in "+shortFn(fn), c.at(in), "size does not come from the request",
				"a slice is allocated with a size parsed from the client's request ("+bad+") before that many elements were read: a 28-byte request announcing 2^45 elements makes makeslice panic (or allocates gigabytes), and the event loop has no recover")
		})
	}
	c.ok("client decoder: slice allocations", p.pos(decode.Pos()), fmt.Sprintf("%d make([]T) sites examined", n))
}

// ---------------------------------------------------------------------------------------------
// rules added after the fourth round

func init() {
	rule("C09.5", "E3", "once the request at the head of the queue is complete, every way through the backend read loop reaches the flush: no other condition (a non-empty backlog, a cap) sends it round the loop first", 1, ruleC09_5)
	rule("C15.7", "E3", "routing retries are bounded: getConn is called only inside the loop over the request's fragments, never in a loop of its own", 1, ruleC15_7)
	rule("C16.6", "E3", "arming a deadline is unconditional for a client's fragment: pushToTimeoutQueue sets the deadline and inserts into the tree on every path past its two exemptions (timeouts disabled, proxy-originated fragment)", 2, ruleC16_6)
}

func ruleC09_5(c *Ctx) {
	p := c.P
	sread := c.needMethod(pkgCore, "eventloop", "sread")
	writev := c.needMethod(pkgCore, "conn", "writev")
	if sread == nil || writev == nil {
		return
	}
	doneF := p.Field(pkgCore, "Msg", "Done")
	headF := p.Field(pkgCore, "MsgQueue", "head")
	if doneF == nil || headF == nil {
		c.undecided("Msg.Done / MsgQueue.head", "-", "fields not found")
		return
	}
	c.examined(len(sread.Blocks))
	// the gate: `if head.Done` (possibly negated with continue) on the queue's head
	var gate *ssa.If
	var open *ssa.BasicBlock
	allInstrs(sread, func(in ssa.Instruction) {
		ifi, ok := in.(*ssa.If)
		if !ok || gate != nil {
			return
		}
		base, ok := fieldLoad(ifi.Cond, doneF)
		if !ok {
			return
		}
		if _, isHead := fieldLoad(base, headF); !isHead {
			return
		}
		gate, open = ifi, ifi.Block().Succs[0]
	})
	if gate == nil {
		c.undecided("eventloop.sread: flush gate", p.pos(sread.Pos()), "no test of inMsgQueue.head.Done found")
		return
	}
	// the flush writes, lifted into sread
	flush := map[*ssa.BasicBlock]bool{}
	for _, w := range p.callsIn(sread, writev) {
		if li := lift(w.(ssa.Instruction), sread); li != nil {
			flush[li.Block()] = true
		}
	}
	var loop *Loop
	for _, l := range loopsOf(sread) {
		if l.Blocks[gate.Block()] && (loop == nil || loop.Blocks[l.Header]) {
			loop = l // outermost loop containing the gate: the read loop
		}
	}
	// every path from the open side of the gate meets a flush write before it returns or starts the next round
	var escape ssa.Instruction
	seen := map[*ssa.BasicBlock]bool{}
	var walk func(b *ssa.BasicBlock)
	walk = func(b *ssa.BasicBlock) {
		if seen[b] || escape != nil {
			return
		}
		seen[b] = true
		if flush[b] {
			return
		}
		if loop != nil && b == loop.Header {
			escape = b.Instrs[0]
			return
		}
		last := b.Instrs[len(b.Instrs)-1]
		switch last.(type) {
		case *ssa.Return, *ssa.Panic:
			escape = last
			return
		}
		for _, s := range b.Succs {
			if loop != nil && s == loop.Header {
				escape = last
				return
			}
			walk(s)
		}
	}
	walk(open)
	pos := c.at(gate)
	if escape != nil {
		pos = c.at(escape)
	}
	c.check(len(flush) > 0 && escape == nil, "eventloop.sread: an open gate leads to the flush", pos, "every path from head.Done to the next round passes conn.writev",
		"with the request at the head of the queue complete, the read loop can still go round (or return) without flushing: the completed replies stay queued until some later backend reply happens to arrive for this client, and forever if the client is only waiting")
}

func ruleC15_7(c *Ctx) {
	p := c.P
	on := c.needMethod(pkgServer, "listenServer", "OnCReact")
	getConn := c.needMethod(pkgServer, "listenServer", "getConn")
	body := p.Field(pkgCore, "Msg", "Body")
	if on == nil || getConn == nil {
		return
	}
	if body == nil {
		c.undecided("Msg.Body", "-", "field not found")
		return
	}
	c.examined(len(on.Blocks))
	n := 0
	p.virtualCalls(on, []*ssa.Function{getConn}, func(call ssa.CallInstruction) {
		n++
		fn := call.Parent()
		l := innermostLoop(loopsOf(fn), call.Block())
		if l == nil {
			// in a helper: look at the call site
			if li := lift(call.(ssa.Instruction), on); li != nil && li != call.(ssa.Instruction) {
				l = innermostLoop(loopsOf(on), li.Block())
			}
		}
		ok, why := true, "called once per fragment"
		if l != nil {
			// the loop must be the iteration over r.Body: its header advances a range over Msg.Body
			isBody := false
			for _, in := range l.Header.Instrs {
				if nx, isN := in.(*ssa.Next); isN {
					if rg, isR := nx.Iter.(*ssa.Range); isR {
						if _, is := fieldLoad(rg.X, body); is {
							isBody = true
						}
					}
				}
			}
			// or a loop with a constant bound on a counter (`for i := 0; i < 2; i++`)
			bounded := false
			if ifi, isIf := l.Header.Instrs[len(l.Header.Instrs)-1].(*ssa.If); isIf {
				if cmp, isB := ifi.Cond.(*ssa.BinOp); isB && (cmp.Op == token.LSS || cmp.Op == token.LEQ) {
					if _, isK := constInt(cmp.Y); isK {
						if ph, isPhi := cmp.X.(*ssa.Phi); isPhi && ph.Block() == l.Header {
							init, step := false, false
							for _, e := range ph.Edges {
								if _, k := constInt(e); k {
									init = true
								} else if bo, isBo := e.(*ssa.BinOp); isBo && bo.Op == token.ADD && bo.X == ssa.Value(ph) {
									if kk, k := constInt(bo.Y); k && kk > 0 {
										step = true
									}
								}
							}
							bounded = init && step
						}
					}
				}
			}
			if !isBody && !bounded {
				ok, why = false, "the call sits in a loop that is neither the iteration over the request's fragments nor bounded by a constant"
			}
		}
		c.check(ok, fmt.Sprintf("OnCReact: getConn call #%d is not retried in a loop", n), c.at(call), why,
			"getConn is retried in a loop whose exit depends on its own result: route() re-admits a banned replica while the ban is running and every failed dial renews the ban, so with an unreachable replica the single event loop spins in OnCReact - this client gets no error and every other client, the ticker and the timeouts stall")
	})
	if n == 0 {
		c.undecided("OnCReact: getConn calls", p.pos(on.Pos()), "none found")
	}
}

func ruleC16_6(c *Ctx) {
	p := c.P
	push := c.need(pkgCore + ".pushToTimeoutQueue")
	toF := p.Field(pkgCore, "Frag", "Timeout")
	if push == nil {
		return
	}
	if toF == nil {
		c.undecided("Frag.Timeout", "-", "field not found")
		return
	}
	c.examined(len(push.Blocks))
	frag := ssa.Value(push.Params[0])
	// allowed reasons not to arm: timeout <= 0, Owner == nil, Peer == nil (conditions on the parameters only, none on Frag.Timeout)
	exempt := func(g Guard) bool { return !readsField(g.Cond, toF, 0) }
	var inserts, sets []ssa.Instruction
	p.allInstrsDeep(push, func(in ssa.Instruction) {
		if call, ok := in.(*ssa.Call); ok {
			if callee := call.Call.StaticCallee(); callee != nil && callee.Name() == "ReplaceOrInsert" {
				inserts = append(inserts, in)
			}
		}
		if st, ok := in.(*ssa.Store); ok {
			if fa, ok := st.Addr.(*ssa.FieldAddr); ok && fieldVar(fa.X.Type(), fa.Field) == toF && strip(fa.X) == frag {
				sets = append(sets, in)
			}
		}
	})
	check := func(what string, ins []ssa.Instruction, msg string) {
		ok := len(ins) > 0
		var gs []Guard
		for _, in := range ins {
			gs = guardsOf(in)
			for _, g := range gs {
				if !exempt(g) {
					ok = false
				}
			}
		}
		pos := p.pos(push.Pos())
		if len(ins) > 0 {
			pos = c.at(ins[0])
		}
		c.check(ok, "pushToTimeoutQueue: "+what, pos, "on every path past the exemptions", msg, withGuards(gs))
	}
	check("the deadline is set", sets, "the deadline of a fragment that goes in flight is not (always) set: a fragment re-sent after a redirect keeps a stale deadline")
	check("the fragment is inserted into the deadline tree", inserts, "a fragment that goes in flight is inserted into the deadline tree only under a condition on its own state (e.g. only when its deadline is still zero): DequeueInFrag removed it when the redirect reply was decoded, so a request that stalls at the redirect target is never timed out and its client waits forever")
}

// ---------------------------------------------------------------------------------------------
// rules added after the fifth round

func init() {
	rule("C03.8", "E2", "fragments are never recycled: fragPool.Get hands out a fresh object and no *Frag is put into a sync.Pool (a request is completed - and its Msg recycled - while sibling fragments may still be in flight)", 2, ruleC03_8)
	rule("C14.10", "E3", "the node table is replaced, not merged: every entry written into ServerMap by a refresh overwrites (Set) or follows the unconditional removal of all old entries - hashmap.Insert keeps an existing key's old value", 1, ruleC14_10)
}

func ruleC03_8(c *Ctx) {
	p := c.P
	get := c.needMethod(pkgCore, "fragPool", "Get")
	fragT := p.Named(pkgCore, "Frag")
	if get == nil {
		return
	}
	if fragT == nil {
		c.undecided("core.Frag", "-", "type not found")
		return
	}
	c.examined(len(get.Blocks))
	fresh := true
	n := 0
	for _, r := range returnsReachable(get) {
		n++
		for _, root := range flowRoots(results(r.(*ssa.Return))[0], nil) {
			if a, ok := root.(*ssa.Alloc); !ok || !a.Heap {
				fresh = false
			}
		}
	}
	c.check(fresh && n > 0, "fragPool.Get returns a fresh fragment", p.pos(get.Pos()), "new(Frag) on every return",
		"fragPool.Get can return a fragment that was used before: a completed request's sibling fragments may still be queued on backend connections (an error on one fragment completes the whole request), so a reused object receives the late reply of its previous life and completes another client's request with it")
	isFragPtr := func(t types.Type) bool {
		pt, ok := t.(*types.Pointer)
		return ok && types.Identical(pt.Elem(), fragT)
	}
	puts, bad := 0, ""
	for _, fn := range p.Funcs {
		if fn.Synthetic != "" || fn.Blocks == nil {
			continue
		}
		allInstrs(fn, func(in ssa.Instruction) {
			call, ok := in.(*ssa.Call)
			if !ok || staticCalleeName(&call.Call) != "(*sync.Pool).Put" {
				return
			}
			puts++
			arg := call.Call.Args[len(call.Call.Args)-1]
			if mi, ok := arg.(*ssa.MakeInterface); ok && isFragPtr(mi.X.Type()) {
				bad = c.at(in)
			}
		})
	}
	c.examined(puts)
	pos := "-"
	if bad != "" {
		pos = bad
	}
	c.check(bad == "", "no fragment is put into a sync.Pool", pos, fmt.Sprintf("%d sync.Pool.Put sites, none takes a *Frag", puts),
		"a *Frag is returned to a sync.Pool: fragments of a request that was completed early (by an error on a sibling, by a timeout) are still in flight on their backend connections; once reused, the late reply is counted and merged into the request that now owns the object")
}

func ruleC14_10(c *Ctx) {
	p := c.P
	set := c.needMethod(pkgCore, "ClusterNodes", "setServer")
	smF := p.Field(pkgCore, "ClusterNodes", "ServerMap")
	if set == nil {
		return
	}
	if smF == nil {
		c.undecided("ClusterNodes.ServerMap", "-", "field not found")
		return
	}
	c.examined(len(set.Blocks))
	onServerMap := func(call *ssa.Call) bool {
		if len(call.Call.Args) == 0 {
			return false
		}
		if _, ok := fieldLoad(call.Call.Args[0], smF); ok {
			return true
		}
		fa, ok := call.Call.Args[0].(*ssa.FieldAddr)
		return ok && fieldVar(fa.X.Type(), fa.Field) == smF
	}
	// the clearing loop: a range over ServerMap.Iter() whose body deletes the iterated key with no further condition
	var clear ssa.Instruction
	loops := loopsOf(set)
	var inserts []*ssa.Call
	p.allInstrsDeep(set, func(in ssa.Instruction) {
		call, ok := in.(*ssa.Call)
		if !ok || !onServerMap(call) {
			return
		}
		switch {
		case strings.HasSuffix(staticCalleeName(&call.Call), ".HashMap).Del"):
			l := innermostLoop(loops, call.Block())
			if l == nil || call.Parent() != set {
				return
			}
			// unconditional inside the loop: every guard of the call is the loop's own "channel still open" test
			uncond := true
			for _, g := range guardsAtRaw(call.Block()) {
				if l.Blocks[g.If.Block()] && g.If.Block() != l.Header {
					uncond = false
				}
			}
			// the key deleted is the key received from the iterator
			key := strip(call.Call.Args[1])
			fromIter := false
			for _, r := range flowRoots(key, nil) {
				if strings.Contains(expr(r), "Iter(") {
					fromIter = true
				}
			}
			if uncond && fromIter {
				clear = in
			}
		case strings.HasSuffix(staticCalleeName(&call.Call), ".HashMap).Insert"):
			inserts = append(inserts, call)
		}
	})
	n := 0
	for _, ins := range inserts {
		n++
		li := lift(ins, set)
		ok := clear != nil && li != nil && canReach(clear, li) && !canReach(li, clear)
		c.check(ok, fmt.Sprintf("setServer: ServerMap.Insert #%d writes into an emptied table", n), c.at(ins), "after the unconditional removal of every old entry",
			"nodes are written into ServerMap with Insert although old entries may still be there: hashmap.Insert keeps the existing value of a key, so a node that changes role (failover) keeps its old *ClusterNode; the ticker takes the role of each pool from ServerMap, so the demoted master's pool stays a master pool and its connections never send READONLY while route() already picks it for replica reads")
	}
	if n == 0 {
		// written with Set (overwrite): nothing to require
		sets := 0
		p.allInstrsDeep(set, func(in ssa.Instruction) {
			if call, ok := in.(*ssa.Call); ok && onServerMap(call) && strings.HasSuffix(staticCalleeName(&call.Call), ".HashMap).Set") {
				sets++
			}
		})
		c.check(sets > 0, "setServer: ServerMap entries are written", p.pos(set.Pos()), "with Set (overwrites)", "setServer writes nothing into ServerMap")
	}
}

// ---------------------------------------------------------------------------------------------
// rules added after the second half of the fifth round

func init() {
	rule("C04.9", "E4", "a pool takes the role the topology gives it whenever it differs: the store in SetIsSlave depends on nothing but the comparison of the old and the new role", 1, ruleC04_9)
	rule("C08.6", "E3", "a request is consumed whole, accepted or rejected: every per-command reader returns nil only after its loop over the announced arguments ran to exhaustion", 4, ruleC08_6)
	rule("C11.6", "E3+E4", "on Linux the reactor decides nothing from the event flags but which of write/read to call: readable data (an error reply sent just before a reset) is read before the connection is given up", 2, ruleC11_6)
	rule("C12.7", "E8", "a slice is not indexed with the range index of a different collection unless it was made with that collection's length", 1, ruleC12_7)
	rule("C13.6", "E3", "every redirect reply is handed to OnMoved: no condition on the parsed address or slot drops the fragment between the classification and the hand-over", 1, ruleC13_6)
	rule("C15.8", "E8", "the poller's wait is bounded by a positive constant, so the ticker and the timeout sweep run on an idle proxy", 1, ruleC15_8)
}

func ruleC04_9(c *Ctx) {
	p := c.P
	set := c.needMethod(pkgCore, "Pool", "SetIsSlave")
	isSlaveF := p.Field(pkgCore, "Pool", "isSlave")
	if set == nil {
		return
	}
	if isSlaveF == nil {
		c.undecided("Pool.isSlave", "-", "field not found")
		return
	}
	c.examined(len(set.Blocks))
	recv, want := ssa.Value(set.Params[0]), ssa.Value(set.Params[1])
	n := 0
	p.allInstrsDeep(set, func(in ssa.Instruction) {
		st, ok := in.(*ssa.Store)
		if !ok {
			return
		}
		fa, ok := st.Addr.(*ssa.FieldAddr)
		if !ok || fieldVar(fa.X.Type(), fa.Field) != isSlaveF || strip(fa.X) != recv {
			return
		}
		n++
		gs := guardsOf(in)
		okV := strip(st.Val) == want
		extra := ""
		for _, g := range gs {
			x, op, y, isC := cmpGuard(g)
			roleCmp := false
			if isC && (op == token.EQL || op == token.NEQ) {
				_, lx := fieldLoad(x, isSlaveF)
				_, ly := fieldLoad(y, isSlaveF)
				if (lx && strip(y) == want) || (ly && strip(x) == want) {
					roleCmp = true
				}
			}
			if !roleCmp {
				extra = g.String()
			}
		}
		c.check(okV && extra == "", "Pool.SetIsSlave: the role is taken over whenever it differs", c.at(in), "p.isSlave = isSlave under p.isSlave != isSlave only",
			"the pool's role is updated only under a further condition ("+extra+"): seed pools are created as master pools and rely on SetIsSlave to be corrected; a replica whose pool has no open connection at that moment stays a master pool, its connections never send READONLY, the replica answers -MOVED and its reads go to the master", withGuards(gs))
	})
	if n == 0 {
		c.bad("Pool.SetIsSlave: the role is taken over whenever it differs", p.pos(set.Pos()), "SetIsSlave does not store the new role")
	}
}

func ruleC08_6(c *Ctx) {
	p := c.P
	parseLine := c.needMethod(pkgCore, "CRespCodec", "parseLine")
	if parseLine == nil {
		return
	}
	for _, m := range []string{"Default", "Eval", "Frag1", "Frag2"} {
		fn := c.needMethod(pkgCore, "CRespCodec", m)
		if fn == nil {
			continue
		}
		c.examined(len(fn.Blocks))
		name := "CRespCodec." + m + ": returns nil only after all announced arguments were read"
		// the announced count: the int parameter of the reader
		var nPrm *ssa.Parameter
		for _, prm := range fn.Params {
			if b, ok := prm.Type().Underlying().(*types.Basic); ok && b.Kind() == types.Int {
				nPrm = prm
			}
		}
		if nPrm == nil {
			c.undecided(name, p.pos(fn.Pos()), "the reader has no int parameter (the announced argument count)")
			continue
		}
		// the function that holds the argument loop: the reader itself or a helper of its family, seen under the
		// reader's call site (a helper shared by Eval and Default gets each one's own n)
		type found struct {
			g     *ssa.Function
			loop  *Loop
			bound bool
			site  ssa.Instruction // in fn: the parseLine call or the call of the helper holding the loop
		}
		var hold *found
		p.virtualCalls(fn, []*ssa.Function{parseLine}, func(pl ssa.CallInstruction) {
			g := pl.Parent()
			l := innermostLoop(loopsOf(g), pl.Block())
			if l == nil {
				return
			}
			for _, l2 := range loopsOf(g) {
				if l2.Blocks[l.Header] && l2.Header != l.Header {
					l = l2 // outermost loop around the call
				}
			}
			f := &found{g: g, loop: l}
			if ifi, ok := l.Header.Instrs[len(l.Header.Instrs)-1].(*ssa.If); ok {
				if cmp, ok := ifi.Cond.(*ssa.BinOp); ok && cmp.Op == token.LSS && strip(cmp.Y) == ssa.Value(nPrm) {
					f.bound = true
				}
			}
			f.site = lift(pl.(ssa.Instruction), fn)
			if hold == nil || (f.bound && !hold.bound) {
				hold = f
			}
		})
		if hold == nil {
			c.undecided(name, p.pos(fn.Pos()), "parseLine is not called in a loop (in the reader or a helper of it)")
			continue
		}
		okAll, where := hold.bound, ""
		if !hold.bound {
			where = "the argument loop is not `for i < n`"
		}
		// in the function holding the loop: nil is returned only behind the exhaustion of the loop
		for _, r := range returnsReachable(hold.g) {
			rs := results(r.(*ssa.Return))
			if !isNilConst(rs[len(rs)-1]) {
				continue
			}
			rb := r.Block()
			if !hold.loop.Header.Dominates(rb) || hold.loop.Blocks[rb] {
				okAll, where = false, c.at(r)
				continue
			}
			for _, e := range hold.loop.exitEdges() {
				if e[0] != hold.loop.Header && (e[1] == rb || reachableBlocks(e[1], nil)[rb]) {
					okAll, where = false, c.at(r)
				}
			}
		}
		// in the reader itself (when the loop lives in a helper): nil is returned only after that helper was called
		if hold.g != fn && hold.site != nil {
			for _, r := range returnsReachable(fn) {
				rs := results(r.(*ssa.Return))
				if isNilConst(rs[len(rs)-1]) && !dominatesInstr(hold.site, r) {
					okAll, where = false, c.at(r)
				}
			}
		}
		c.check(okAll, name, p.pos(fn.Pos()), "every `return nil` is behind the exhaustion of `for i < n { parseLine }`",
			"the reader can return nil without having read all n announced arguments (at "+where+"): Decode then discards only what was read, the unread arguments of this (rejected or accepted) request are parsed as the next request, the client is answered a protocol error and disconnected, and everything pipelined behind is lost")
	}
}

func ruleC11_6(c *Ctx) {
	p := c.P
	if strings.Contains(p.cfgName(), "darwin") {
		c.ok("reactor (kqueue build)", "-", "EVFilterSock is a separate event on kqueue: the rule concerns the epoll reactors")
		c.ok("reactor (kqueue build): readable events are read", "-", "not applicable to this build configuration")
		return
	}
	closeConn := c.needMethod(pkgCore, "eventloop", "closeConn")
	read := c.needMethod(pkgCore, "eventloop", "read")
	if closeConn == nil || read == nil {
		return
	}
	// the dispatch function of this build: eventloop.callback (default) or conn.handleEvents (poll_opt)
	var disp *ssa.Function
	if f := p.Method(pkgCore, "eventloop", "callback"); f != nil {
		disp = f
	} else if f := p.Method(pkgCore, "conn", "handleEvents"); f != nil {
		disp = f
	}
	if disp == nil {
		c.undecided("reactor dispatch", "-", "neither eventloop.callback nor conn.handleEvents found")
		return
	}
	c.touch(disp)
	c.examined(len(disp.Blocks))
	var bad ssa.Instruction
	for _, cc := range p.callsIn(disp, closeConn) {
		bad = cc.(ssa.Instruction)
	}
	pos := p.pos(disp.Pos())
	if bad != nil {
		pos = c.at(bad)
	}
	c.check(bad == nil, "reactor: no close decided from the event flags", pos, "the dispatch only calls write/read/accept",
		"the epoll dispatch closes a connection on its own (e.g. on EPOLLERR|EPOLLHUP) before reading: a node that writes an error reply and resets the connection (-ERR max number of clients reached) delivers IN|ERR|HUP in one event, the reply is never read and the client gets nothing")
	// readable events are read: a call of read guarded only by the in-events mask (and the success of the preceding write)
	okR := false
	for _, rc := range p.callsIn(disp, read) {
		okG := true
		for _, g := range guardsOf(rc) {
			// allowed: the connection was found in the table; a test of the event mask; the preceding write did not fail
			if ex, ok := g.Cond.(*ssa.Extract); ok && ex.Index == 1 {
				if _, isLk := ex.Tuple.(*ssa.Lookup); isLk {
					continue
				}
			}
			x, op, y, isC := cmpGuard(g)
			if isC && (op == token.NEQ || op == token.EQL) {
				if and, ok := strip(x).(*ssa.BinOp); ok && and.Op == token.AND && isZero(y) {
					if _, isK := constInt(and.Y); isK {
						continue
					}
				}
				if op == token.EQL && isNilConst(y) {
					continue
				}
			}
			okG = false
		}
		if okG {
			okR = true
		}
	}
	c.check(okR, "reactor: readable events are read", p.pos(disp.Pos()), "el.read(c) under the in-events mask only",
		"no call of el.read that depends only on the readable mask: data that arrives together with an error/hang-up condition is dropped")
}

func ruleC12_7(c *Ctx) {
	p := c.P
	decode := c.needMethod(pkgCore, "CRespCodec", "Decode")
	cread := c.needMethod(pkgCore, "eventloop", "cread")
	if decode == nil || cread == nil {
		return
	}
	// functions that run on client bytes: reachable from the client read path (log formatters included)
	reach := map[*ssa.Function]bool{}
	work := []*ssa.Function{decode, cread}
	for _, f := range work {
		reach[f] = true
	}
	for len(work) > 0 {
		fn := work[0]
		work = work[1:]
		withClosures(fn, func(g *ssa.Function) {
			allInstrs(g, func(in ssa.Instruction) {
				if ci, ok := in.(ssa.CallInstruction); ok {
					for _, callee := range calleesOfCommon(p, ci.Common()) {
						if p.ownFunc(callee) && callee.Blocks != nil && !reach[callee] {
							reach[callee] = true
							work = append(work, callee)
						}
					}
				}
			})
		})
	}
	var fns []*ssa.Function
	for f := range reach {
		fns = append(fns, f)
	}
	sortFuncs(fns)
	n, loopsSeen := 0, 0
	for _, fn := range fns {
		for _, sl := range rangeIndexLoops(fn) {
			loopsSeen++
			collExpr := expr(strip(sl.coll))
			allInstrs(fn, func(in ssa.Instruction) {
				ia, ok := in.(*ssa.IndexAddr)
				if !ok || ia.Index != sl.index || !sl.loop.Blocks[ia.Block()] {
					return
				}
				if expr(strip(ia.X)) == collExpr {
					return // the collection itself
				}
				if _, isArr := ia.X.Type().Underlying().(*types.Pointer); isArr {
					return // fixed-size array: bounds are a compile-time matter
				}
				n++
				c.touch(fn)
				okLen := false
				if mk, ok := strip(ia.X).(*ssa.MakeSlice); ok {
					if lc, ok := strip(mk.Len).(*ssa.Call); ok {
						if b, ok := lc.Call.Value.(*ssa.Builtin); ok && b.Name() == "len" && expr(strip(lc.Call.Args[0])) == collExpr {
							okLen = true
						}
					}
				}
				c.check(okLen, "index of "+expr(ia.X)+" by the range over "+collExpr+" in "+shortFn(fn), c.at(in), "made with len of the ranged collection",
					"a slice is indexed with the position in a different collection and was not made with that collection's length: on the client read path (this includes the formatters evaluated as log arguments on every protocol error) a long enough input indexes past the end, and the event loop has no recover")
			})
		}
	}
	c.examined(loopsSeen)
	c.ok("client read path: cross-collection indexing", p.pos(decode.Pos()), fmt.Sprintf("%d index loops in %d functions examined, %d index another slice", loopsSeen, len(fns), n))
}

func ruleC13_6(c *Ctx) {
	p := c.P
	sread := c.needMethod(pkgCore, "eventloop", "sread")
	parse := c.needMethod(pkgCore, "Frag", "parseMovedOrAsk")
	if sread == nil || parse == nil {
		return
	}
	c.examined(len(sread.Blocks))
	var onMoved []ssa.Instruction
	p.allInstrsDeep(sread, func(in ssa.Instruction) {
		if call, ok := in.(*ssa.Call); ok && call.Call.IsInvoke() && call.Call.Method.Name() == "OnMoved" {
			onMoved = append(onMoved, in)
		}
	})
	if len(onMoved) != 1 {
		c.undecided("eventloop.sread: OnMoved hand-over", p.pos(sread.Pos()), fmt.Sprintf("%d calls of EventHandler.OnMoved", len(onMoved)))
		return
	}
	om := onMoved[0]
	// no guard of the hand-over depends on what parseMovedOrAsk returned
	dep := ""
	for _, g := range guardsOf(om) {
		var walk func(v ssa.Value, d int) bool
		walk = func(v ssa.Value, d int) bool {
			if v == nil || d > 6 {
				return false
			}
			v = strip(v)
			if ex, ok := v.(*ssa.Extract); ok {
				if _, is := p.isCallTo(ex.Tuple, parse); is {
					return true
				}
			}
			switch x := v.(type) {
			case *ssa.BinOp:
				return walk(x.X, d+1) || walk(x.Y, d+1)
			case *ssa.UnOp:
				return walk(x.X, d+1)
			case *ssa.Call:
				for _, a := range x.Call.Args {
					if walk(a, d+1) {
						return true
					}
				}
			case *ssa.Phi:
				for _, e := range x.Edges {
					if walk(e, d+1) {
						return true
					}
				}
			case *ssa.Convert:
				return walk(x.X, d+1)
			}
			return false
		}
		if walk(g.Cond, 0) {
			dep = g.String()
		}
	}
	// and the parse call is followed by the hand-over on every path to the next round
	var pc ssa.Instruction
	for _, x := range p.callsIn(sread, parse) {
		pc = lift(x.(ssa.Instruction), sread)
	}
	follows := pc != nil
	if pc != nil {
		li := lift(om, sread)
		if li == nil {
			li = om
		}
		exits := pathFrom(pc, func(in ssa.Instruction) bool { return in == li })
		var loop *Loop
		for _, l := range loopsOf(sread) {
			if l.Blocks[pc.Block()] && (loop == nil || loop.Blocks[l.Header]) {
				loop = l
			}
		}
		if len(exits) > 0 {
			follows = false
		}
		// a path back to the loop header that avoids the hand-over
		if loop != nil {
			seen := map[*ssa.BasicBlock]bool{}
			var walkB func(b *ssa.BasicBlock, start int) bool
			walkB = func(b *ssa.BasicBlock, start int) bool {
				for i := start; i < len(b.Instrs); i++ {
					if b.Instrs[i] == li {
						return false
					}
				}
				for _, s := range b.Succs {
					if s == loop.Header {
						return true
					}
					if !seen[s] {
						seen[s] = true
						if walkB(s, 0) {
							return true
						}
					}
				}
				return false
			}
			if walkB(pc.Block(), instrIndex(pc)+1) {
				follows = false
			}
		}
	}
	c.check(dep == "" && follows, "eventloop.sread: every redirect reply reaches OnMoved", c.at(om), "no guard on the parsed (addr, slot); the hand-over follows the parse on every path",
		"a redirect reply can be dropped between its classification and OnMoved (guard "+dep+"): the fragment was already taken off the in-flight queue, so the request is never re-sent and never answered - e.g. a validity test `slot < 1` drops every redirect for slot 0")
}

func ruleC15_8(c *Ctx) {
	p := c.P
	n := 0
	for _, fn := range p.Funcs {
		if fn.Pkg == nil || fn.Pkg.Pkg.Path() != pkgNetpoll || fn.Name() != "Polling" || fn.Blocks == nil {
			continue
		}
		c.touch(fn)
		c.examined(len(fn.Blocks))
		allInstrs(fn, func(in ssa.Instruction) {
			call, ok := in.(*ssa.Call)
			if !ok {
				return
			}
			name := staticCalleeName(&call.Call)
			switch {
			case strings.HasSuffix(name, "unix.EpollWait"), strings.HasSuffix(name, "netpoll.epollWait"):
				n++
				okT := true
				for _, r := range flowRoots(call.Call.Args[2], nil) {
					if k, isK := constInt(r); !isK || k <= 0 {
						okT = false
					}
				}
				c.check(okT, "Poller.Polling: bounded wait", c.at(in), "epoll_wait with a positive constant timeout",
					"the poller can wait without a bound (timeout "+expr(call.Call.Args[2])+"): the ticker and the timeout sweep only run when the wait returns, so on an idle proxy a request stuck on a silent backend never gets its timeout error and the topology is never refreshed")
			case strings.HasSuffix(name, "unix.Kevent") && len(call.Call.Args) == 4 && !isNilConst(call.Call.Args[2]):
				n++
				c.check(!isNilConst(call.Call.Args[3]), "Poller.Polling: bounded wait", c.at(in), "kevent with a timeout",
					"kevent is called without a timeout: the ticker and the timeout sweep do not run on an idle proxy")
			}
		})
	}
	if n == 0 {
		c.undecided("Poller.Polling: wait call", "-", "no epoll_wait / kevent call found in netpoll.Poller.Polling")
	}
}

package main

// Engine E1: loading the tree that is in the repository directory *now*, type-checking it and
// lowering it to SSA. Nothing of the repository is executed.

import (
	_ "embed"
	"encoding/json"
	"fmt"
	"go/ast"
	"go/constant"
	"go/token"
	"go/types"
	"os"
	"sort"
	"strings"

	"golang.org/x/tools/go/packages"
	"golang.org/x/tools/go/ssa"
	"golang.org/x/tools/go/ssa/ssautil"
)

const modPath = "rcproxy"

// Prog is one loaded build configuration of the repository.
type Prog struct {
	Repo   string
	Tags   string
	Fset   *token.FileSet
	Pkgs   map[string]*packages.Package // by import path, rcproxy packages only
	SSA    *ssa.Program
	SPkgs  map[string]*ssa.Package
	Funcs  []*ssa.Function // every function with a body that belongs to an rcproxy package (incl. closures)
	byName map[string]*ssa.Function

	anchors   map[*ssa.Function]bool // functions that rules resolve by name (never inlined)
	implCache map[string][]*ssa.Function
	refCache  map[*ssa.Function][]Site
	refBuilt  bool
}

type loadError struct{ msg string }

func (e *loadError) Error() string { return e.msg }

// Load type-checks ./... of repo with the given build tags. Dependencies outside the module come from
// export data (they are needed for their types only).
func Load(repo, cfgSpec string) (*Prog, error) {
	// cfgSpec: "" | "poll_opt" | "GOOS=darwin" | "GOOS=darwin,poll_opt"
	tags, goos := "", ""
	for _, part := range strings.Split(cfgSpec, ",") {
		switch {
		case part == "":
		case strings.HasPrefix(part, "GOOS="):
			goos = strings.TrimPrefix(part, "GOOS=")
		default:
			tags = part
		}
	}
	env := []string{}
	for _, kv := range os.Environ() {
		if strings.HasPrefix(kv, "GOWORK=") || strings.HasPrefix(kv, "GOFLAGS=") {
			continue
		}
		env = append(env, kv)
	}
	env = append(env, "GOFLAGS=-mod=mod", "GOPROXY=off", "GOSUMDB=off", "GOTOOLCHAIN=local", "GOWORK=off")
	if goos != "" {
		env = append(env, "GOOS="+goos, "CGO_ENABLED=0")
	}
	cfg := &packages.Config{
		Mode: packages.NeedName | packages.NeedFiles | packages.NeedCompiledGoFiles | packages.NeedImports |
			packages.NeedTypes | packages.NeedTypesSizes | packages.NeedSyntax | packages.NeedTypesInfo,
		Dir:   repo,
		Env:   env,
		Tests: false,
	}
	if tags != "" {
		cfg.BuildFlags = []string{"-tags=" + tags}
	}
	pkgs, err := packages.Load(cfg, "./...")
	if err != nil {
		return nil, &loadError{"packages.Load: " + err.Error()}
	}
	if len(pkgs) == 0 {
		return nil, &loadError{"no packages matched ./... in " + repo}
	}
	var errs []string
	packages.Visit(pkgs, nil, func(p *packages.Package) {
		for _, e := range p.Errors {
			errs = append(errs, e.Error())
		}
	})
	if len(errs) > 0 {
		sort.Strings(errs)
		if len(errs) > 10 {
			errs = errs[:10]
		}
		return nil, &loadError{"the tree does not type-check:\n  " + strings.Join(errs, "\n  ")}
	}
	p := &Prog{Repo: repo, Tags: cfgSpec, Pkgs: map[string]*packages.Package{}, SPkgs: map[string]*ssa.Package{},
		byName: map[string]*ssa.Function{}, implCache: map[string][]*ssa.Function{}, anchors: map[*ssa.Function]bool{}}
	for _, pk := range pkgs {
		if pk.PkgPath == modPath || strings.HasPrefix(pk.PkgPath, modPath+"/") {
			p.Pkgs[pk.PkgPath] = pk
			p.Fset = pk.Fset
		}
	}
	if len(p.Pkgs) < 10 {
		return nil, &loadError{fmt.Sprintf("only %d rcproxy packages were loaded from %s (expected about 25)", len(p.Pkgs), repo)}
	}
	prog, spkgs := ssautil.Packages(pkgs, ssa.InstantiateGenerics)
	prog.Build()
	p.SSA = prog
	for i, sp := range spkgs {
		if sp != nil {
			if _, ok := p.Pkgs[pkgs[i].PkgPath]; ok {
				p.SPkgs[pkgs[i].PkgPath] = sp
			}
		}
	}
	for fn := range ssautil.AllFunctions(prog) {
		if fn.Blocks == nil {
			continue
		}
		if !p.ownFunc(fn) {
			continue
		}
		p.Funcs = append(p.Funcs, fn)
	}
	sort.Slice(p.Funcs, func(i, j int) bool { return fnKey(p.Funcs[i]) < fnKey(p.Funcs[j]) })
	for _, fn := range p.Funcs {
		p.byName[fnKey(fn)] = fn
	}
	return p, nil
}

func (p *Prog) ownFunc(fn *ssa.Function) bool {
	pk := fn.Package()
	if pk == nil {
		// wrappers / bound methods have no package; attribute through the object
		if fn.Object() != nil && fn.Object().Pkg() != nil {
			_, ok := p.Pkgs[fn.Object().Pkg().Path()]
			return ok
		}
		if fn.Parent() != nil {
			return p.ownFunc(fn.Parent())
		}
		return false
	}
	_, ok := p.Pkgs[pk.Pkg.Path()]
	return ok
}

// fnKey is "pkgpath.Func", "pkgpath.(*T).M", "pkgpath.(*T).M$1" for closures, "...$bound" for method values.
func fnKey(fn *ssa.Function) string {
	if fn == nil {
		return "<nil>"
	}
	return fn.String()
}

// shortFn drops the module prefix for display.
func shortFn(fn *ssa.Function) string {
	s := fnKey(fn)
	s = strings.ReplaceAll(s, "rcproxy/core/", "")
	s = strings.ReplaceAll(s, "rcproxy/core.", "")
	s = strings.ReplaceAll(s, "rcproxy/", "")
	s = strings.ReplaceAll(s, "rcproxy.", "main.")
	return s
}

// Func resolves "rcproxy/core.(*conn).write" style keys. nil if absent.
func (p *Prog) Func(key string) *ssa.Function {
	f := p.byName[key]
	if f == nil {
		f = p.renamedAnchor(key)
	}
	if f != nil && p.anchors != nil {
		p.anchors[f] = true
	}
	if f != nil {
		requestedAnchors[key] = f
	}
	return f
}

// requestedAnchors records every anchor the rules asked for (used by `rcvet anchors` to regenerate anchor_sigs.json).
var requestedAnchors = map[string]*ssa.Function{}

//go:embed anchor_sigs.json
var anchorSigsJSON []byte

type anchorSig struct {
	Pkg     string   `json:"pkg"`
	Sig     string   `json:"sig"`
	Callers []string `json:"callers"`
}

var anchorSigs map[string]anchorSig

func sigOf(fn *ssa.Function) string {
	sg := fn.Signature
	var ps, rs []string
	for i := 0; i < sg.Params().Len(); i++ {
		ps = append(ps, sg.Params().At(i).Type().String())
	}
	for i := 0; i < sg.Results().Len(); i++ {
		rs = append(rs, sg.Results().At(i).Type().String())
	}
	v := ""
	if sg.Variadic() {
		v = "..."
	}
	return "(" + strings.Join(ps, ", ") + v + ") (" + strings.Join(rs, ", ") + ")"
}

func (p *Prog) directCallers(fn *ssa.Function) []string {
	set := map[string]bool{}
	for _, s := range p.SitesOf(fn) {
		if s.Fn.Synthetic == "" {
			set[outermost(s.Fn).Name()] = true
		}
	}
	var out []string
	for k := range set {
		out = append(out, k)
	}
	sort.Strings(out)
	return out
}

// renamedAnchor: the function the rules anchor on is not there under its name. If the pinned tree's record of that
// anchor (package, signature without receiver, callers) matches exactly one function of the package that is not
// itself a recorded anchor, the function was renamed (or turned from a method into a function): use it.
func (p *Prog) renamedAnchor(key string) *ssa.Function {
	if anchorSigs == nil {
		anchorSigs = map[string]anchorSig{}
		_ = json.Unmarshal(anchorSigsJSON, &anchorSigs)
	}
	rec, ok := anchorSigs[key]
	if !ok || p.SSA == nil {
		return nil
	}
	known := map[string]bool{}
	for k := range anchorSigs {
		if f := p.byName[k]; f != nil {
			known[fnKey(f)] = true
		}
	}
	var cands []*ssa.Function
	for _, fn := range p.Funcs {
		if fn.Synthetic != "" || fn.Blocks == nil || fn.Parent() != nil || calleePkg(fn) != rec.Pkg || known[fnKey(fn)] {
			continue
		}
		if sigOf(fn) != rec.Sig {
			continue
		}
		// at least one recorded caller still calls it (when callers were recorded)
		if len(rec.Callers) > 0 {
			hit := false
			for _, cn := range p.directCallers(fn) {
				for _, want := range rec.Callers {
					if cn == want {
						hit = true
					}
				}
			}
			if !hit {
				continue
			}
		}
		cands = append(cands, fn)
	}
	if len(cands) == 1 {
		return cands[0]
	}
	return nil
}

// Method resolves a method of a named type of a package: Method("rcproxy/core", "conn", "write").
func (p *Prog) Method(pkg, typ, name string) *ssa.Function {
	if f := p.Func(fmt.Sprintf("(*%s.%s).%s", pkg, typ, name)); f != nil {
		return f
	}
	if f := p.Func(fmt.Sprintf("(%s.%s).%s", pkg, typ, name)); f != nil {
		return f
	}
	// a method that never used its receiver may have been turned into a package-level function of the same name
	// (or the other way round: see PkgFunc); rules that look at parameters use paramsOf, which skips a receiver
	return p.Func(pkg + "." + name)
}

func (p *Prog) PkgFunc(pkg, name string) *ssa.Function { return p.Func(pkg + "." + name) }

func (p *Prog) typesPkg(pkg string) *types.Package {
	if pk := p.Pkgs[pkg]; pk != nil {
		return pk.Types
	}
	return nil
}

// Named returns the named type pkg.name.
func (p *Prog) Named(pkg, name string) *types.Named {
	tp := p.typesPkg(pkg)
	if tp == nil {
		return nil
	}
	o := tp.Scope().Lookup(name)
	if o == nil {
		return nil
	}
	n, _ := o.Type().(*types.Named)
	return n
}

// Field returns the field object of struct type pkg.typ.
func (p *Prog) Field(pkg, typ, field string) *types.Var {
	n := p.Named(pkg, typ)
	if n == nil {
		return nil
	}
	st, _ := n.Underlying().(*types.Struct)
	if st == nil {
		return nil
	}
	for i := 0; i < st.NumFields(); i++ {
		if st.Field(i).Name() == field {
			return st.Field(i)
		}
	}
	return nil
}

// Const returns the value of constant pkg.name.
func (p *Prog) Const(pkg, name string) (constant.Value, bool) {
	tp := p.typesPkg(pkg)
	if tp == nil {
		return nil, false
	}
	c, _ := tp.Scope().Lookup(name).(*types.Const)
	if c == nil {
		return nil, false
	}
	return c.Val(), true
}

func (p *Prog) ConstInt(pkg, name string) (int64, bool) {
	v, ok := p.Const(pkg, name)
	if !ok {
		return 0, false
	}
	i, exact := constant.Int64Val(constant.ToInt(v))
	return i, exact
}

func (p *Prog) ConstString(pkg, name string) (string, bool) {
	v, ok := p.Const(pkg, name)
	if !ok || v.Kind() != constant.String {
		return "", false
	}
	return constant.StringVal(v), true
}

// Global returns the SSA global for package-level variable pkg.name.
func (p *Prog) Global(pkg, name string) *ssa.Global {
	sp := p.SPkgs[pkg]
	if sp == nil {
		return nil
	}
	g, _ := sp.Members[name].(*ssa.Global)
	return g
}

// VarDecl finds the AST value spec initialising package-level variable pkg.name.
func (p *Prog) VarDecl(pkg, name string) (*ast.ValueSpec, int, *packages.Package) {
	pk := p.Pkgs[pkg]
	if pk == nil {
		return nil, 0, nil
	}
	for _, f := range pk.Syntax {
		for _, d := range f.Decls {
			gd, ok := d.(*ast.GenDecl)
			if !ok || (gd.Tok != token.VAR && gd.Tok != token.CONST) {
				continue
			}
			for _, s := range gd.Specs {
				vs := s.(*ast.ValueSpec)
				for i, n := range vs.Names {
					if n.Name == name {
						return vs, i, pk
					}
				}
			}
		}
	}
	return nil, 0, nil
}

func (p *Prog) pos(pos token.Pos) string {
	if !pos.IsValid() {
		return "-"
	}
	ps := p.Fset.Position(pos)
	f := ps.Filename
	if strings.HasPrefix(f, p.Repo+"/") {
		f = f[len(p.Repo)+1:]
	}
	return fmt.Sprintf("%s:%d", f, ps.Line)
}

// instrPos gives the best available position for an instruction (some SSA instructions carry none).
func (p *Prog) instrPos(in ssa.Instruction) string {
	if in == nil {
		return "-"
	}
	if in.Pos().IsValid() {
		return p.pos(in.Pos())
	}
	// nearest positioned instruction in the same block
	b := in.Block()
	if b != nil {
		idx := -1
		for i, x := range b.Instrs {
			if x == in {
				idx = i
			}
		}
		for d := 1; d < len(b.Instrs); d++ {
			for _, j := range []int{idx - d, idx + d} {
				if j >= 0 && j < len(b.Instrs) && b.Instrs[j].Pos().IsValid() {
					return p.pos(b.Instrs[j].Pos()) + "~"
				}
			}
		}
		if b.Parent() != nil {
			return p.pos(b.Parent().Pos()) + "~"
		}
	}
	return "-"
}

// compositeIntKeys evaluates a map composite literal with constant integer keys; values are rendered as
// their constant string value when constant, otherwise as source text positions are not needed.
func compositeIntKeys(pk *packages.Package, e ast.Expr, out map[int64]string) map[int64]string {
	cl, ok := e.(*ast.CompositeLit)
	if !ok {
		return nil
	}
	for _, el := range cl.Elts {
		kv, ok := el.(*ast.KeyValueExpr)
		if !ok {
			return nil
		}
		k := pk.TypesInfo.Types[kv.Key]
		if k.Value == nil {
			return nil
		}
		ki, _ := constant.Int64Val(constant.ToInt(k.Value))
		v := pk.TypesInfo.Types[kv.Value]
		if v.Value != nil {
			out[ki] = v.Value.ExactString()
		} else {
			var sb strings.Builder
			ast.Inspect(kv.Value, func(n ast.Node) bool {
				if id, ok := n.(*ast.Ident); ok {
					sb.WriteString(id.Name + " ")
				}
				return true
			})
			out[ki] = sb.String()
		}
	}
	return out
}

func astInspectKV(e ast.Expr, f func(k, v interface{ Pos() token.Pos })) {}

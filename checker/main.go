// rcvet decides structural obligations of the rcproxy properties (C01…C20) from the source of the
// repository as it is on disk now. It never executes repository code.
//
//	rcvet check -p C01 [-tier quick|thorough] [-repo /repo] [-verif /verif]
//	rcvet list
//	rcvet dump  -p C01            (all obligations, human readable)
package main

import (
	"encoding/json"
	"flag"
	"fmt"
	"os"
	"os/exec"
	"path/filepath"
	"runtime/debug"
	"sort"
	"strconv"
	"strings"
	"time"

	"golang.org/x/tools/go/ssa"
)

func main() {
	if len(os.Args) < 2 {
		usage()
	}
	switch os.Args[1] {
	case "check":
		os.Exit(cmdCheck(os.Args[2:]))
	case "list":
		for _, id := range propertyIDs() {
			pd := properties[id]
			fmt.Printf("%s %s\n", id, pd.Title)
			for _, r := range pd.Rules {
				ri := rules[r]
				if ri == nil {
					fmt.Printf("   %-7s <missing>\n", r)
					continue
				}
				fmt.Printf("   %-7s [%s] %s\n", ri.ID, ri.Engine, ri.Title)
			}
		}
	case "anchors":
		// regenerates anchor_sigs.json from the tree given as argument (default /repo): every function the rules anchor
		// on, with its package, signature (without receiver) and direct callers
		repo := "/repo"
		if len(os.Args) > 2 {
			repo = os.Args[2]
		}
		out := map[string]anchorSig{}
		for _, cfg := range []string{"", "poll_opt"} {
			p, err := Load(repo, cfg)
			if err != nil {
				fmt.Fprintln(os.Stderr, err)
				os.Exit(2)
			}
			curProg, inlining = p, false
			paramBind = map[*ssa.Parameter]ssa.Value{}
			requestedAnchors = map[string]*ssa.Function{}
			dry := &Ctx{P: p, counted: map[string]int{}, funcs: map[string]bool{}}
			for _, rid := range sortedRuleIDs() {
				dry.rule = rules[rid]
				func() {
					defer func() { recover() }()
					rules[rid].Run(dry)
				}()
			}
			for k, f := range requestedAnchors {
				if p.byName[k] != f {
					continue // found through the fallback: do not record
				}
				out[k] = anchorSig{Pkg: calleePkg(f), Sig: sigOf(f), Callers: p.directCallers(f)}
			}
		}
		b, _ := json.MarshalIndent(out, "", " ")
		fmt.Println(string(b))
	default:
		usage()
	}
}

func sortedRuleIDs() []string {
	var ids []string
	for rid := range rules {
		ids = append(ids, rid)
	}
	sort.Strings(ids)
	return ids
}

func usage() {
	fmt.Fprintln(os.Stderr, "usage: rcvet check -p <property> [-tier quick|thorough] [-repo dir] [-verif dir] | rcvet list")
	os.Exit(2)
}

func propertyIDs() []string {
	var ids []string
	for id := range properties {
		ids = append(ids, id)
	}
	sort.Strings(ids)
	return ids
}

func cmdCheck(args []string) (code int) {
	fs := flag.NewFlagSet("check", flag.ExitOnError)
	prop := fs.String("p", "", "property id (C01…C20)")
	tier := fs.String("tier", "", "quick or thorough (default: $VERIF_TIER or quick)")
	repo := fs.String("repo", "/repo", "repository directory")
	verif := fs.String("verif", "/verif", "verification directory (known_findings.json, evidence/)")
	verbose := fs.Bool("v", false, "print every obligation")
	noEvidence := fs.Bool("no-evidence", false, "do not write evidence files (used by the self-test on scratch copies)")
	only := fs.String("rule", "", "run only this rule of the property (diagnosis)")
	cfgs := fs.String("configs", "", "diagnosis: analyse only these build configurations, separated by ';' (e.g. \"poll_opt;GOOS=darwin\"); implies no self-test")
	fs.Parse(args)
	if *tier == "" {
		*tier = os.Getenv("VERIF_TIER")
	}
	if *tier != "thorough" {
		*tier = "quick"
	}
	pd := properties[*prop]
	if pd == nil {
		fmt.Fprintf(os.Stderr, "unknown property %q\n", *prop)
		return 2
	}
	seed, _ := strconv.Atoi(os.Getenv("VERIF_SEED"))
	start := time.Now()

	defer func() {
		if r := recover(); r != nil {
			fmt.Fprintf(os.Stderr, "rcvet: internal error while analysing %s: %v\n%s\n", *prop, r, debug.Stack())
			fmt.Printf("VIOLATION property=%s replay=%s (no verdict: analysis crashed)\n", *prop, filepath.Join(*verif, "evidence", *prop+".violation.json"))
			code = 2
		}
	}()

	configs := []string{""}
	if *tier == "thorough" {
		configs = append(configs, "poll_opt", "GOOS=darwin", "GOOS=darwin,poll_opt")
	}
	if *cfgs != "" {
		configs = strings.Split(*cfgs, ";")
		*tier = "quick"
	}
	res := &runResult{Property: *prop, Tier: *tier, Start: start, Extra: map[string]interface{}{}}
	funcs := map[string]bool{}
	for _, tags := range configs {
		p, err := Load(*repo, tags)
		if err != nil {
			fmt.Fprintf(os.Stderr, "rcvet: cannot analyse %s (tags=%q): %v\n", *repo, tags, err)
			fmt.Printf("VIOLATION property=%s replay=%s (no verdict: the tree could not be loaded)\n", *prop, filepath.Join(*verif, "evidence", *prop+".violation.json"))
			if !*noEvidence {
				writeJSON(filepath.Join(*verif, "evidence", *prop+".violation.json"), map[string]interface{}{
					"property": *prop, "verdict": "no-verdict", "reason": err.Error()})
			}
			return 2
		}
		res.Packages = len(p.Pkgs)
		res.Configs = append(res.Configs, p.cfgName())
		// first pass: run the rules without helper inlining to learn which functions they anchor on
		curProg, inlining = p, false
		paramBind = map[*ssa.Parameter]ssa.Value{}
		pureCache = map[*ssa.Function]int{}
		// (all rules of all properties, so that the set of anchors does not depend on the property being checked)
		dry := &Ctx{P: p, counted: map[string]int{}, funcs: map[string]bool{}}
		var allIDs []string
		for rid := range rules {
			allIDs = append(allIDs, rid)
		}
		sort.Strings(allIDs)
		for _, rid := range allIDs {
			dry.rule = rules[rid]
			func() {
				defer func() { recover() }()
				rules[rid].Run(dry)
			}()
		}
		inlining = true
		ctx := &Ctx{P: p, counted: map[string]int{}, funcs: funcs}
		for _, rid := range pd.Rules {
			ri := rules[rid]
			if ri == nil {
				if os.Getenv("RCVET_DEV") != "" {
					fmt.Fprintf(os.Stderr, "dev: rule %s not implemented yet\n", rid)
					continue
				}
				panic("rule " + rid + " is listed for " + *prop + " but not implemented")
			}
			if *only != "" && *only != rid {
				continue
			}
			if tags == "" {
				res.Rules = append(res.Rules, ri)
			}
			ctx.rule = ri
			before := len(ctx.obs)
			ri.Run(ctx)
			n := len(ctx.obs) - before
			if n < ri.Floor {
				ctx.undecided("instance floor of "+ri.ID, "-", fmt.Sprintf("the rule produced %d obligations, fewer than the %d confirmed by hand on the pinned tree: its anchors no longer match and a pass would be vacuous", n, ri.Floor))
			}
		}
		res.Obs = append(res.Obs, ctx.obs...)
		for _, n := range ctx.counted {
			res.Evaluated += n
		}
	}
	for f := range funcs {
		res.Funcs = append(res.Funcs, f)
	}
	sort.Strings(res.Funcs)

	// positive controls: the engines must still see the planted constructs of the fixtures
	res.Controls = runControls(pd)
	for _, c := range res.Controls {
		if c.Verdict != OK {
			res.Obs = append(res.Obs, c)
		}
	}

	if *tier == "thorough" {
		thoroughExtras(res, *repo, *verif, pd)
	}

	known, err := loadKnown(filepath.Join(*verif, "known_findings.json"))
	if err != nil {
		fmt.Fprintf(os.Stderr, "rcvet: known_findings.json unreadable: %v\n", err)
		return 2
	}
	return report(res, pd, known, *verif, seed, *verbose, *noEvidence)
}

func report(res *runResult, pd *PropDef, known *KnownFile, verif string, seed int, verbose, noEvidence bool) int {
	// de-duplicate obligations that are identical in both build configurations
	type agg struct {
		ob   Ob
		cfgs []string
	}
	byKey := map[string]*agg{}
	var order []string
	for _, o := range res.Obs {
		k := obKey(o) + " | " + o.Verdict
		if a, ok := byKey[k]; ok {
			a.cfgs = append(a.cfgs, o.Config)
			continue
		}
		byKey[k] = &agg{ob: o, cfgs: []string{o.Config}}
		order = append(order, k)
	}
	var obs []Ob
	for _, k := range order {
		a := byKey[k]
		a.ob.Config = strings.Join(uniqueStrings(a.cfgs), "+")
		obs = append(obs, a.ob)
	}

	openKnown := map[string]KnownFinding{}
	for _, k := range known.Findings {
		if k.Property == pd.ID && k.Status == "open" {
			openKnown[k.Rule+" | "+k.Construct] = k
		}
	}
	var violations, undecided, knownHits []Ob
	matched := map[string]bool{}
	for i := range obs {
		o := &obs[i]
		switch o.Verdict {
		case VIOLATED:
			if k, ok := openKnown[obKey(*o)]; ok {
				o.Known = true
				matched[obKey(*o)] = true
				knownHits = append(knownHits, *o)
				fmt.Printf("KNOWN-FINDING: property=%s rule=%s construct=%q %s\n", pd.ID, o.Rule, o.Construct, k.Fails)
			} else {
				violations = append(violations, *o)
			}
		case UNDECIDED:
			undecided = append(undecided, *o)
		}
	}
	for key, k := range openKnown {
		if !matched[key] {
			fmt.Printf("note: known finding %s (%s) is no longer reported on this tree\n", k.ID, key)
		}
	}

	discharged := 0
	distinct := map[string]bool{}
	for _, o := range obs {
		if o.Verdict == OK {
			discharged++
		}
		distinct[obKey(o)] = true
	}
	if verbose {
		for _, o := range obs {
			fmt.Printf("  %-10s %-8s %-60s %s  %s\n", o.Verdict, o.Rule, o.Construct, o.Pos, o.Detail)
		}
	}

	var ruleDocs []map[string]interface{}
	perRule := map[string][3]int{}
	for _, o := range obs {
		c := perRule[o.Rule]
		switch o.Verdict {
		case OK:
			c[0]++
		case VIOLATED:
			c[1]++
		default:
			c[2]++
		}
		perRule[o.Rule] = c
	}
	for _, r := range res.Rules {
		c := perRule[r.ID]
		ruleDocs = append(ruleDocs, map[string]interface{}{"id": r.ID, "engine": r.Engine, "statement": r.Title,
			"obligations": c[0] + c[1] + c[2], "discharged": c[0], "violated": c[1], "undecided": c[2], "floor": r.Floor})
	}
	controlsOK := 0
	for _, c := range res.Controls {
		if c.Verdict == OK {
			controlsOK++
		}
	}

	failing := len(violations) + len(undecided)
	ev := evidence{
		PropertyID: pd.ID, Tier: res.Tier, Seed: seed, Level: "other",
		Coverage: map[string]interface{}{
			"explanation": "Static analysis of the repository's current source (go/packages type-check, go/ssa lowering; nothing is executed). " +
				"Each obligation is one rule instantiated at one construct (function, call site, field writer, table row, CFG path) of this tree. " +
				"A pass means every listed structural obligation of " + pd.ID + " holds on every path/site/row examined; it does not prove the behavioural property. " +
				"Not decided by this check: " + pd.NotDecided,
			"obligations":         len(obs),
			"discharged":          discharged,
			"violated_unlisted":   len(violations),
			"undecided":           len(undecided),
			"known_findings":      len(knownHits),
			"evaluations":         res.Evaluated + len(obs),
			"distinct_nontrivial": len(distinct),
			"rule": "evaluations = call sites, field writers, table rows, CFG blocks and paths examined by the rules (counted by the rules while they run) plus the obligations themselves; " +
				"distinct_nontrivial = number of distinct (rule, construct) obligations produced on this tree; an obligation is non-trivial by construction: it names a construct that exists in the tree and a condition that an edit can falsify",
			"samples":            sampleObs(obs, 40),
			"rules":              ruleDocs,
			"functions_analysed": res.Funcs,
			"packages":           res.Packages,
			"build_configs":      res.Configs,
			"positive_controls":  map[string]interface{}{"run": len(res.Controls), "fired": controlsOK},
			"checker_cmd":        fmt.Sprintf("/verif/bin/rcvet check -p %s -tier %s", pd.ID, res.Tier),
			"trusted_base": []string{"go/types and go/packages (go1.23.5)", "golang.org/x/tools/go/ssa v0.29.0",
				"the rule implementations and frozen tables in /verif/checker", "export data of third-party dependencies (types only)"},
			"exhaustive": false,
		},
		Assumptions: append([]string{
			"go/types, go/ssa and the go list driver report the program that the go tool would build for linux/amd64 with the listed tag sets",
			"interface calls on CConn/SConn/EventHandler resolve to the module's own implementations (asserted by rule X00 on every run)",
			"obligations are necessary conditions chosen per property (DESIGN.md section 4); value-level clauses listed under 'Not decided' are outside this check",
		}, pd.Assumptions...),
		WallS:      time.Since(res.Start).Seconds(),
		Violations: failing,
	}
	for k, v := range res.Extra {
		ev.Coverage[k] = v
	}
	if !noEvidence {
		if err := writeJSON(filepath.Join(verif, "evidence", pd.ID+".json"), ev); err != nil {
			fmt.Fprintf(os.Stderr, "rcvet: cannot write evidence: %v\n", err)
			return 2
		}
	}

	fmt.Printf("%s [%s] configs=%v obligations=%d discharged=%d known-findings=%d violations=%d undecided=%d functions=%d wall=%.1fs\n",
		pd.ID, res.Tier, res.Configs, len(obs), discharged, len(knownHits), len(violations), len(undecided), len(res.Funcs), time.Since(res.Start).Seconds())
	if failing == 0 {
		if !noEvidence {
			os.Remove(filepath.Join(verif, "evidence", pd.ID+".violation.json"))
		}
		return 0
	}
	vpath := filepath.Join(verif, "evidence", pd.ID+".violation.json")
	for _, o := range append(violations, undecided...) {
		fmt.Printf("  %s %s %s at %s [%s]\n      %s\n", strings.ToUpper(o.Verdict), o.Rule, o.Construct, o.Pos, o.Config, o.Detail)
		for _, g := range o.Guards {
			fmt.Printf("      guard: %s\n", g)
		}
		for _, s := range o.Path {
			fmt.Printf("      path: %s\n", s)
		}
	}
	if !noEvidence {
		var docs []map[string]interface{}
		for _, o := range append(violations, undecided...) {
			docs = append(docs, map[string]interface{}{"rule": o.Rule, "construct": o.Construct, "pos": o.Pos, "verdict": o.Verdict,
				"detail": o.Detail, "guards": o.Guards, "path": o.Path, "build_config": o.Config,
				"rerun": fmt.Sprintf("/verif/bin/rcvet check -p %s -rule %s -v -no-evidence", pd.ID, o.Rule)})
		}
		writeJSON(vpath, map[string]interface{}{"property": pd.ID, "tier": res.Tier, "violations": docs})
	}
	fmt.Printf("VIOLATION property=%s replay=%s\n", pd.ID, vpath)
	return 1
}

// gitHead returns the HEAD commit of a repository (informational).
func gitHead(dir string) string {
	out, err := exec.Command("git", "-C", dir, "rev-parse", "--short", "HEAD").Output()
	if err != nil {
		return ""
	}
	return strings.TrimSpace(string(out))
}

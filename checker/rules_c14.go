package main

import (
	"fmt"
	"go/token"
	"go/types"
	"regexp"
	"sort"
	"strings"

	"golang.org/x/tools/go/ssa"
)

func init() {
	rule("C14.1", "E3", "the topology refresh goroutine never returns: no reply to the probe can end it", 1, ruleC14_1)
	rule("C14.2", "E3+E4", "a CLUSTER NODES line becomes a routing node only if it passed every filter (columns, noaddr/handshake/fail, master|slave, link state, parse errors; new replicas: INFO ok, not loading, master link up)", 9, ruleC14_2)
	rule("C14.3", "E2+E3", "the published topology is touched only after a reply parsed into at least three usable nodes; 'changed' is raised after both tables were rebuilt", 5, ruleC14_3)
	rule("C14.4", "E5b", "change detection fingerprints every node attribute that routing consumes (by value, not by size)", 4, ruleC14_4)
	rule("C14.5", "E8", "slot numbers that index the slot table are key hashes or were range-checked against [0, RedisClusterSlots) with start <= end", 6, ruleC14_5)
	rule("C14.6", "E3+E8", "ticker rebuild: stale pools closed and removed, roles updated, new pools keyed by address, slot table cleared before it is refilled from each master's own ranges, 'changed' lowered last", 5, ruleC14_6)
	rule("C14.7", "E3+E4", "a request for a slot nobody serves is answered with the unknown-slot error before routing dereferences the table", 2, ruleC14_7)
	rule("C14.8", "E2+E3+E6", "the probe is a well-formed CLUSTER NODES sent without an owner; ownerless replies go to the refresh channel without blocking the event loop, and only they do", 4, ruleC14_8)
}

// pathFacts enumerates the acyclic paths from block `from` to block `to` that do not pass `barrier`,
// and returns for each the branch outcomes taken (condition expression → truth).
func pathFacts(from, to, barrier *ssa.BasicBlock, limit int) ([]map[string]bool, bool) {
	var out []map[string]bool
	complete := true
	var path []*ssa.BasicBlock
	var walk func(b *ssa.BasicBlock, facts map[string]bool, onPath map[*ssa.BasicBlock]bool)
	walk = func(b *ssa.BasicBlock, facts map[string]bool, onPath map[*ssa.BasicBlock]bool) {
		if len(out) >= limit {
			complete = false
			return
		}
		if b == to {
			cp := map[string]bool{}
			for k, v := range facts {
				cp[k] = v
			}
			out = append(out, cp)
			return
		}
		if b == barrier || onPath[b] {
			return
		}
		onPath[b] = true
		path = append(path, b)
		defer func() { delete(onPath, b); path = path[:len(path)-1] }()
		last := b.Instrs[len(b.Instrs)-1]
		if ifi, ok := last.(*ssa.If); ok && len(b.Succs) == 2 {
			cond, flip := ifi.Cond, false
			for i := 0; i < 8; i++ {
				if u, ok := cond.(*ssa.UnOp); ok && u.Op == token.NOT {
					cond, flip = u.X, !flip
					continue
				}
				// a condition computed as a value (`a || b` in a switch case): the phi is resolved along the path
				if _, isPhi := cond.(*ssa.Phi); isPhi {
					if v := valueOnPath(cond, path); v != cond {
						cond = v
						continue
					}
				}
				break
			}
			var fixed, known bool
			if cst, ok := cond.(*ssa.Const); ok && cst.Value != nil {
				fixed, known = constBoolValue(cst), true
			}
			key := expr(cond)
			condOf[key] = cond
			for i, s := range b.Succs {
				truth := (i == 0) != flip
				if known {
					if fixed == truth {
						walk(s, facts, onPath)
					}
					continue
				}
				if old, had := facts[key]; had && old != truth {
					continue // infeasible: the same condition was decided the other way earlier on this path
				}
				_, had := facts[key]
				facts[key] = truth
				walk(s, facts, onPath)
				if !had {
					delete(facts, key)
				}
			}
			return
		}
		for _, s := range b.Succs {
			walk(s, facts, onPath)
		}
	}
	walk(from, map[string]bool{}, map[*ssa.BasicBlock]bool{})
	return out, complete
}

// ---------------------------------------------------------------------------------------------

func ruleC14_1(c *Ctx) {
	p := c.P
	serve := c.need(pkgCore + ".serve")
	if serve == nil {
		return
	}
	var targets []*ssa.Function
	allInstrs(serve, func(in ssa.Instruction) {
		if g, ok := in.(*ssa.Go); ok {
			if f := g.Call.StaticCallee(); f != nil && recvNamed(f) != nil && recvNamed(f).Obj().Name() == "ClusterNodes" {
				targets = append(targets, f)
			}
		}
	})
	if len(targets) == 0 {
		c.undecided("serve: topology refresh goroutine", p.pos(serve.Pos()), "no `go EngineGlobal.ClusterNodes.<loop>()` found in serve")
		return
	}
	for _, fn := range targets {
		c.touch(fn)
		c.examined(len(fn.Blocks))
		rets := returnsReachable(fn)
		if len(rets) == 0 {
			c.ok("refresh goroutine "+shortFn(fn)+" never returns", p.pos(fn.Pos()), "no reachable return")
			continue
		}
		var at []string
		for _, r := range rets {
			at = append(at, c.at(r))
		}
		c.bad("refresh goroutine "+shortFn(fn)+" never returns", c.at(rets[0]), fmt.Sprintf("%d reachable return(s) at %s: one probe reply that takes that path ends the only consumer of probe replies, and the routing table is frozen until restart", len(rets), strings.Join(at, ", ")))
	}
}

func returnsReachable(fn *ssa.Function) []ssa.Instruction {
	var out []ssa.Instruction
	seen := map[*ssa.BasicBlock]bool{}
	var walk func(b *ssa.BasicBlock)
	walk = func(b *ssa.BasicBlock) {
		if seen[b] {
			return
		}
		seen[b] = true
		if r, ok := b.Instrs[len(b.Instrs)-1].(*ssa.Return); ok {
			out = append(out, r)
		}
		for _, s := range b.Succs {
			walk(s)
		}
	}
	walk(fn.Blocks[0])
	sort.Slice(out, func(i, j int) bool { return out[i].Pos() < out[j].Pos() })
	return out
}

// ---------------------------------------------------------------------------------------------

func ruleC14_2(c *Ctx) {
	p := c.P
	parse := c.needMethod(pkgCore, "ClusterNodes", "parse")
	if parse == nil {
		return
	}
	c.examined(len(parse.Blocks))
	// the append to allNodes
	var app *ssa.Call
	allInstrs(parse, func(in ssa.Instruction) {
		if call, ok := in.(*ssa.Call); ok {
			if b, ok := call.Call.Value.(*ssa.Builtin); ok && b.Name() == "append" {
				if st, ok := call.Type().(*types.Slice); ok && strings.HasSuffix(st.Elem().String(), "core.ClusterNode") {
					app = call
				}
			}
		}
	})
	if app == nil {
		c.undecided("ClusterNodes.parse: accepted node", p.pos(parse.Pos()), "no append to the list of accepted nodes found")
		return
	}
	loop := innermostLoop(loopsOf(parse), app.Block())
	if loop == nil {
		c.undecided("ClusterNodes.parse: line loop", c.at(app), "the append is not inside the loop over lines")
		return
	}
	var body *ssa.BasicBlock
	for _, s := range loop.Header.Succs {
		if loop.Blocks[s] {
			body = s
		}
	}
	paths, complete := pathFacts(body, app.Block(), loop.Header, 4096)
	c.examined(len(paths))
	if !complete || len(paths) == 0 {
		c.undecided("ClusterNodes.parse: paths to acceptance", c.at(app), fmt.Sprintf("path enumeration incomplete (%d paths)", len(paths)))
		return
	}
	// a filter moved into a predicate helper (`!c.admitNewNode(node, xs)`): each way the helper can give that answer
	// contributes its own conditions
	paths = c.P.expandHelperFacts(paths, 0)
	type filter struct {
		name string
		ok   func(f map[string]bool) bool
		why  string
	}
	has := func(f map[string]bool, re *regexp.Regexp, truth bool) bool {
		for k, v := range f {
			if v == truth && re.MatchString(k) {
				return true
			}
		}
		return false
	}
	contains := func(col int, lit string) *regexp.Regexp {
		return regexp.MustCompile(`^strings\.Contains\(strings\.Split\(.*, " "\)\[` + fmt.Sprint(col) + `\], "` + lit + `"\)$`)
	}
	colsLT := regexp.MustCompile(`^\(builtin:len\(strings\.Split\(.*, " "\)\) < 8\)$`)
	newNodeErr := regexp.MustCompile(`^\(\(\*rcproxy/core\.ClusterNodes\)\.newClusterNode\(.*\)#1 != nil\)$`)
	known := regexp.MustCompile(`hashmap\.HashMap\)\.Get\(.*\.Addr\)#1$`)
	infoErr := regexp.MustCompile(`^\(\(\*rcproxy/core\.ClusterNodes\)\.redisInfo\(.*\)#1 != nil\)$`)
	isSlave := regexp.MustCompile(`\.Role == 1\)$`)
	loading := regexp.MustCompile(`\.Loading$`)
	linkDown := regexp.MustCompile(`\.MasterLinkStatus != "up"\)$`)
	filters := []filter{
		{"at least 8 columns", func(f map[string]bool) bool { return has(f, colsLT, false) }, "a truncated line is accepted (and its missing columns are indexed: out-of-range panic in the refresh goroutine)"},
		{"flag noaddr", func(f map[string]bool) bool { return has(f, contains(2, "noaddr"), false) }, "a node without address is used for routing"},
		{"flag handshake", func(f map[string]bool) bool { return has(f, contains(2, "handshake"), false) }, "a node still in handshake is used for routing"},
		{"flag fail", func(f map[string]bool) bool { return has(f, contains(2, "fail"), false) }, "a node flagged fail/fail? is used for routing"},
		{"master or slave", func(f map[string]bool) bool {
			return has(f, contains(2, "master"), true) || has(f, contains(2, "slave"), true)
		}, "a line that is neither master nor slave is accepted"},
		{"link state disconnected", func(f map[string]bool) bool { return has(f, contains(7, "disconnected"), false) }, "a node whose cluster link is disconnected is used for routing"},
		{"newClusterNode error", func(f map[string]bool) bool { return has(f, newNodeErr, false) }, "a line that failed to parse (address, slots) is accepted"},
		{"new node: INFO succeeded", func(f map[string]bool) bool { return has(f, known, true) || has(f, infoErr, false) }, "a newly discovered node is accepted although INFO failed"},
		{"new replica: not loading", func(f map[string]bool) bool {
			return has(f, known, true) || has(f, isSlave, false) || has(f, loading, false)
		}, "a newly discovered replica that is still loading its dataset serves reads"},
		{"new replica: master link up", func(f map[string]bool) bool {
			return has(f, known, true) || has(f, isSlave, false) || has(f, linkDown, false)
		}, "a newly discovered replica whose master link is down serves (stale) reads"},
	}
	for _, fl := range filters {
		bad := 0
		for _, f := range paths {
			if !fl.ok(f) {
				bad++
			}
		}
		c.check(bad == 0, "ClusterNodes.parse filter: "+fl.name, c.at(app), fmt.Sprintf("holds on all %d paths to acceptance", len(paths)),
			fmt.Sprintf("%d of %d paths reach the append to the accepted nodes without this filter: %s", bad, len(paths), fl.why))
	}
}

// ---------------------------------------------------------------------------------------------

func ruleC14_3(c *Ctx) {
	p := c.P
	upd := c.needMethod(pkgCore, "ClusterNodes", "updateClusterNodes")
	parse := c.needMethod(pkgCore, "ClusterNodes", "parse")
	if upd == nil || parse == nil {
		return
	}
	c.examined(len(upd.Blocks) + len(parse.Blocks))
	setS := p.Method(pkgCore, "ClusterNodes", "setServer")
	setR := p.Method(pkgCore, "ClusterNodes", "setReplicaset")
	isCh := p.Method(pkgCore, "ClusterNodes", "isChanged")
	parsedOK := func(b *ssa.BasicBlock) bool {
		return guardHas(guardsAt(b), func(g Guard) bool {
			x, op, y, ok := cmpGuard(g)
			if !ok || op != token.EQL || !isNilConst(y) {
				return false
			}
			ex, ok := x.(*ssa.Extract)
			if !ok || ex.Index != 1 {
				return false
			}
			_, is := p.isCallTo(ex.Tuple, parse)
			return is
		})
	}
	for _, f := range []*ssa.Function{isCh, setS, setR} {
		if f == nil {
			c.undecided("ClusterNodes setter", "-", "isChanged/setServer/setReplicaset not found")
			continue
		}
		sites := p.SitesOf(f)
		for _, s := range sites {
			if s.Fn.Synthetic != "" {
				continue
			}
			okS := homeFn(s.Fn) == upd && parsedOK(s.Instr.Block())
			c.check(okS, shortFn(f)+" called only after a successful parse", c.at(s.Instr), "in updateClusterNodes on parse's err == nil edge",
				"the published topology is modified from "+shortFn(homeFn(s.Fn))+" without a successfully parsed reply: an unusable probe reply (error, nil, too few nodes) replaces or corrupts the routing information", withGuards(guardsOf(s.Instr)))
		}
	}
	// serverChanged = true after both setters
	sc := p.Field(pkgCore, "ClusterNodes", "serverChanged")
	for _, w := range p.fieldWrites(sc) {
		encl := homeFn(w.Fn)
		k, isConst := w.Val.(*ssa.Const)
		if isConst && k.Value.String() == "true" {
			okW := encl == upd
			for _, f := range []*ssa.Function{setS, setR} {
				dom := false
				for _, call := range p.callsIn(upd, f) {
					if dominatesInstr(call.(ssa.Instruction), w.Instr) {
						dom = true
					}
				}
				okW = okW && dom
			}
			c.check(okW, "serverChanged raised after both tables are rebuilt", c.at(w.Instr), "dominated by setServer and setReplicaset",
				"'changed' is signalled to the event loop before the new server map and replica sets are complete: ticker rebuilds pools and slots from a half-updated description")
		}
	}
	// a listing that isChanged recorded as the current one is adopted: from the edge on which isChanged answered true no
	// return is reachable without passing the store serverChanged = true (isChanged stores the new fingerprint, so a
	// listing dropped here is never looked at again)
	if isCh != nil {
		var raised []*ssa.BasicBlock
		for _, w := range p.fieldWrites(sc) {
			if k, isConst := w.Val.(*ssa.Const); isConst && k.Value.String() == "true" && w.Fn == upd {
				raised = append(raised, w.Instr.Block())
			}
		}
		for _, call := range p.callsIn(upd, isCh) {
			cv, _ := call.(ssa.Value)
			for _, b := range upd.Blocks {
				ifi, ok := b.Instrs[len(b.Instrs)-1].(*ssa.If)
				if !ok || cv == nil {
					continue
				}
				truth := true
				cond := stripNot(ifi.Cond, &truth)
				if cond != cv {
					continue
				}
				start := b.Succs[0]
				if !truth {
					start = b.Succs[1]
				}
				seen := map[*ssa.BasicBlock]bool{}
				var escape *ssa.BasicBlock
				var walk func(x *ssa.BasicBlock)
				walk = func(x *ssa.BasicBlock) {
					if seen[x] || escape != nil {
						return
					}
					seen[x] = true
					for _, rb := range raised {
						if rb == x {
							return
						}
					}
					if _, isRet := x.Instrs[len(x.Instrs)-1].(*ssa.Return); isRet {
						escape = x
						return
					}
					for _, sx := range x.Succs {
						walk(sx)
					}
				}
				walk(start)
				at := c.at(ifi)
				if escape != nil {
					at = c.at(escape.Instrs[len(escape.Instrs)-1])
				}
				c.check(escape == nil, "updateClusterNodes: a listing recorded by isChanged is adopted", at, "every way from isChanged's true edge passes serverChanged = true",
					"updateClusterNodes can return on the edge where isChanged answered true without rebuilding the tables and raising serverChanged: isChanged has already stored the listing's fingerprint as the current one, so the same listing is 'unchanged' from the next probe on and is never applied - e.g. a replica that moved to another master stays in its old replica set and its reads bounce with -MOVED")
			}
		}
	}
	// parse: fewer than three usable nodes is an error, and the success return carries the list
	var thr *ssa.If
	for _, b := range parse.Blocks {
		if ifi, ok := b.Instrs[len(b.Instrs)-1].(*ssa.If); ok {
			if bo, ok := ifi.Cond.(*ssa.BinOp); ok && bo.Op == token.LSS {
				if k, isK := constInt(bo.Y); isK && k >= 3 && strings.HasPrefix(expr(bo.X), "builtin:len(") {
					thr = ifi
				}
			}
		}
	}
	if thr == nil {
		c.bad("ClusterNodes.parse: at least three usable nodes", p.pos(parse.Pos()), "no `len(allNodes) < 3` test: a reply describing fewer than three usable nodes replaces the topology")
	} else {
		tb := thr.Block().Succs[0]
		okT := false
		if r, ok := tb.Instrs[len(tb.Instrs)-1].(*ssa.Return); ok {
			rs := results(r)
			okT = len(rs) == 2 && !isNilConst(rs[1])
		}
		c.check(okT, "ClusterNodes.parse: at least three usable nodes", c.at(thr), "len(allNodes) < 3 ⇒ error", "fewer than three usable nodes does not produce an error")
	}
}

// ---------------------------------------------------------------------------------------------

func ruleC14_4(c *Ctx) {
	p := c.P
	isCh := c.needMethod(pkgCore, "ClusterNodes", "isChanged")
	if isCh == nil {
		return
	}
	node := p.Named(pkgCore, "ClusterNode")
	nst, _ := node.Underlying().(*types.Struct)
	// fingerprinted: fields whose loaded value is itself an operand of Sprintf (or compared in a branch that selects the format)
	fp := map[*types.Var]bool{}
	p.allInstrsDeep(isCh, func(in ssa.Instruction) {
		call, ok := in.(*ssa.Call)
		if !ok || staticCalleeName(&call.Call) != "fmt.Sprintf" {
			return
		}
		for _, e := range varargElems(call.Call.Args[1]) {
			if f, base, ok := anyFieldLoad(strip(e)); ok {
				bt := base.Type()
				if pt, ok := bt.(*types.Pointer); ok {
					bt = pt.Elem()
				}
				if types.Identical(bt, node) {
					fp[f] = true
				}
			}
		}
	})
	// consumed: fields of ClusterNode read by the consumers of the published topology
	consumers := []*ssa.Function{
		p.Method(pkgCore, "ClusterNodes", "setReplicaset"),
		p.Method(pkgCore, "eventloop", "ticker"),
		p.Method(pkgServer, "listenServer", "route"),
		p.Method(pkgServer, "listenServer", "getConn"),
	}
	consumed := map[*types.Var][]string{}
	for _, fn := range consumers {
		if fn == nil {
			continue
		}
		c.touch(fn)
		for i := 0; i < nst.NumFields(); i++ {
			f := nst.Field(i)
			if n := len(fieldReads(fn, f, false)); n > 0 {
				consumed[f] = append(consumed[f], shortFn(fn))
			}
		}
	}
	c.examined(len(consumed))
	if len(consumed) < 3 {
		c.undecided("consumed ClusterNode fields", "-", fmt.Sprintf("only %d fields found to be consumed", len(consumed)))
	}
	var names []string
	for f := range consumed {
		names = append(names, f.Name())
	}
	sort.Strings(names)
	for _, n := range names {
		var f *types.Var
		for ff := range consumed {
			if ff.Name() == n {
				f = ff
			}
		}
		c.check(fp[f], "fingerprint covers ClusterNode."+n, p.pos(isCh.Pos()), "value is an operand of the fingerprint; consumed by "+strings.Join(consumed[f], ", "),
			"routing consumes ClusterNode."+n+" ("+strings.Join(consumed[f], ", ")+") but isChanged does not include its value in the fingerprint: a reply that changes only "+n+" (with the same number of nodes) is considered unchanged and never adopted")
	}
}

// ---------------------------------------------------------------------------------------------

func ruleC14_5(c *Ctx) {
	p := c.P
	parseSlot := c.needMethod(pkgCore, "ClusterNode", "parseSlot")
	if parseSlot == nil {
		return
	}
	c.examined(len(parseSlot.Blocks))
	nSlots, _ := p.ConstInt(pkgConst, "RedisClusterSlots")
	// (1) success returns of parseSlot are range-checked
	nret := 0
	allInstrs(parseSlot, func(in ssa.Instruction) {
		r, ok := in.(*ssa.Return)
		if !ok {
			return
		}
		rs := results(r)
		if len(rs) != 3 || !isNilConst(rs[2]) {
			return
		}
		nret++
		// identify start/end as the values converted in the results
		under := func(v ssa.Value) ssa.Value {
			if cv, ok := v.(*ssa.Convert); ok {
				return cv.X
			}
			return v
		}
		start, end := under(rs[0]), under(rs[1])
		gs := guardsOf(r)
		geZero := guardHas(gs, func(g Guard) bool {
			x, op, y, ok := cmpGuard(g)
			k, isK := constInt(y)
			return ok && x == start && isK && ((op == token.GEQ && k == 0) || (op == token.GTR && k == -1))
		})
		ltN := guardHas(gs, func(g Guard) bool {
			x, op, y, ok := cmpGuard(g)
			k, isK := constInt(y)
			return ok && x == end && isK && ((op == token.LSS && k == nSlots) || (op == token.LEQ && k == nSlots-1))
		})
		ordered := start == end || guardHas(gs, func(g Guard) bool {
			x, op, y, ok := cmpGuard(g)
			return ok && ((x == start && y == end && (op == token.LEQ)) || (x == end && y == start && op == token.GEQ))
		})
		var missing []string
		if !geZero {
			missing = append(missing, "start >= 0")
		}
		if !ltN {
			missing = append(missing, fmt.Sprintf("end < %d", nSlots))
		}
		if !ordered {
			missing = append(missing, "start <= end")
		}
		c.check(len(missing) == 0, fmt.Sprintf("parseSlot: success return #%d is range-checked", nret), c.at(r), "0 <= start <= end < RedisClusterSlots",
			"a slot range from CLUSTER NODES is accepted without the check(s) "+strings.Join(missing, ", ")+": eventloop.ticker indexes the 16384-entry slot table with it (out-of-range panic in the event loop, the proxy exits) instead of leaving the previous map in force", withGuards(gs))
	})
	if nret == 0 {
		c.undecided("parseSlot: success return", p.pos(parseSlot.Pos()), "none found")
	}
	// (2) Slots{Start, End} are filled only from parseSlot's results on its err == nil edge
	for _, fname := range []string{"Start", "End"} {
		f := p.Field(pkgCore, "Slots", fname)
		if f == nil {
			c.undecided("Slots."+fname, "-", "field not found")
			continue
		}
		for _, w := range p.fieldWrites(f) {
			okW := false
			if ex, ok := strip(w.Val).(*ssa.Extract); ok {
				if _, is := p.isCallTo(ex.Tuple, parseSlot); is {
					okW = guardHas(guardsOf(w.Instr), func(g Guard) bool {
						x, op, y, ok := cmpGuard(g)
						e2, isEx := x.(*ssa.Extract)
						return ok && op == token.EQL && isNilConst(y) && isEx && e2.Tuple == ex.Tuple
					})
				}
			}
			c.check(okW, "Slots."+fname+" written in "+shortFn(homeFn(w.Fn)), c.at(w.Instr), "a result of parseSlot on its err == nil edge", "a slot bound is stored that did not pass parseSlot's range check: "+expr(w.Val))
		}
	}
	// (3) every index into the slot table
	hash := p.PkgFunc(pkgHash, "Hash")
	body := p.Field(pkgCore, "Msg", "Body")
	startF, endF := p.Field(pkgCore, "Slots", "Start"), p.Field(pkgCore, "Slots", "End")
	var classify func(v ssa.Value, depth int) (bool, string)
	classify = func(v ssa.Value, depth int) (bool, string) {
		v = strip(v)
		if _, ok := p.isCallTo(v, hash); ok {
			return true, "hashkit.Hash"
		}
		if ex, ok := v.(*ssa.Extract); ok && ex.Index == 1 {
			if nx, ok := ex.Tuple.(*ssa.Next); ok {
				if rg, ok := nx.Iter.(*ssa.Range); ok {
					if _, is := fieldLoad(rg.X, body); is {
						return true, "key of Msg.Body (a key hash, C04.4)"
					}
				}
			}
		}
		if ph, ok := v.(*ssa.Phi); ok {
			// for i := r.Start; i <= r.End; i++
			fromStart, stepped := false, false
			for _, e := range ph.Edges {
				if _, is := fieldLoad(e, startF); is {
					fromStart = true
				}
				if bo, ok := e.(*ssa.BinOp); ok && bo.Op == token.ADD && bo.X == ssa.Value(ph) && isOne(bo.Y) {
					stepped = true
				}
			}
			if fromStart && stepped {
				// bounded by <= End in the loop condition
				for _, ref := range *ph.Referrers() {
					if bo, ok := ref.(*ssa.BinOp); ok && (bo.Op == token.LEQ || bo.Op == token.LSS) && bo.X == ssa.Value(ph) {
						if _, is := fieldLoad(bo.Y, endF); is {
							return true, "loop over a parsed range [Start, End]"
						}
					}
				}
			}
			return false, "loop variable not bounded by a parsed range"
		}
		if prm, ok := v.(*ssa.Parameter); ok && depth < 3 {
			fn := prm.Parent()
			idx := -1
			for i, q := range fn.Params {
				if q == prm {
					idx = i
				}
			}
			sites := p.SitesOf(fn)
			if len(sites) == 0 {
				return false, "parameter of a function without known callers"
			}
			for _, s := range sites {
				if s.Fn.Synthetic != "" {
					continue
				}
				if s.Call == nil {
					return false, "function used as a value"
				}
				ai := idx
				if s.Call.IsInvoke() {
					ai = idx - 1
				}
				if ai < 0 || ai >= len(s.Call.Args) {
					return false, "argument not found"
				}
				if ok, why := classify(s.Call.Args[ai], depth+1); !ok {
					return false, "caller " + shortFn(homeFn(s.Fn)) + " passes " + why
				}
			}
			return true, "parameter; every caller passes a checked slot"
		}
		return false, expr(v)
	}
	n := 0
	for _, m := range []string{"Set", "Get", "NotExist"} {
		fn := p.Method(pkgCore, "slotReplicaset", m)
		if fn == nil {
			c.undecided("slotReplicaset."+m, "-", "not found")
			continue
		}
		for _, s := range p.SitesOf(fn) {
			if s.Fn.Synthetic != "" || s.Call == nil {
				continue
			}
			n++
			ok, why := classify(s.Call.Args[1], 0)
			c.check(ok, "slot table index at "+shortFn(homeFn(s.Fn))+" → "+m, c.at(s.Instr), why,
				"the slot table is indexed with a value that is neither a key hash nor a range-checked slot ("+why+"): out-of-range index panics the event loop")
		}
	}
	c.examined(n)
}

// ---------------------------------------------------------------------------------------------

func ruleC14_6(c *Ctx) {
	p := c.P
	ticker := c.needMethod(pkgCore, "eventloop", "ticker")
	if ticker == nil {
		return
	}
	c.examined(len(ticker.Blocks))
	sc := p.Field(pkgCore, "ClusterNodes", "serverChanged")
	reset := p.Method(pkgCore, "slotReplicaset", "Reset")
	set := p.Method(pkgCore, "slotReplicaset", "Set")
	poolClose := p.Method(pkgCore, "Pool", "Close")
	setIsSlave := p.Method(pkgCore, "Pool", "SetIsSlave")
	proxyPool := p.Field(pkgCore, "Engine", "ProxyPool")
	slotsF := p.Field(pkgCore, "ClusterNode", "Slots")
	masterF := p.Field(pkgCore, "replicaset", "Master")
	roleF := p.Field(pkgCore, "ClusterNode", "Role")
	changed := func(b *ssa.BasicBlock) bool {
		return guardHas(guardsAt(b), func(g Guard) bool { _, is := fieldLoad(g.Cond, sc); return is && g.Truth })
	}
	// Reset dominates every Set
	rs := p.callsIn(ticker, reset)
	ss := p.callsIn(ticker, set)
	if len(ss) == 0 {
		c.bad("ticker: slot table refill", p.pos(ticker.Pos()), "Slots2Node.Set is never called: the slot table is never rebuilt")
		return
	}
	for _, s := range ss {
		dom := false
		for _, r := range rs {
			if dominatesInstr(r.(ssa.Instruction), s.(ssa.Instruction)) && innermostLoop(loopsOf(ticker), r.Block()) == nil {
				dom = true
			}
		}
		c.check(dom && changed(s.Block()), "ticker: slot table cleared before it is refilled", c.at(s), "Slots2Node.Reset() dominates the Set loop, under serverChanged",
			"the slot table is refilled without having been cleared first: slots that no master claims in the new description keep pointing at their previous owner instead of being answered with the unknown-slot error")
		// Set(i, rs) where i ranges over rs.Master.Slots
		rsArg := strip(s.Common().Args[2])
		okPair := false
		if ph, ok := strip(s.Common().Args[1]).(*ssa.Phi); ok {
			for _, e := range ph.Edges {
				if _, rng, is := anyFieldLoad(e); is {
					// rng is an element of X.Master.Slots with X == rsArg (possibly copied into a local first)
					if a, ok := rng.(*ssa.Alloc); ok {
						if st := cellStores(a); len(st) == 1 {
							rng = st[0].Val
						}
					}
					if ld, ok := strip(rng).(*ssa.UnOp); ok {
						if ia, ok := ld.X.(*ssa.IndexAddr); ok {
							if m, ok := fieldLoad(ia.X, slotsF); ok {
								if r2, ok := fieldLoad(m, masterF); ok && expr(strip(r2)) == expr(rsArg) {
									okPair = true
								}
							}
						}
					}
				}
			}
		}
		c.check(okPair, "ticker: each slot is given to the master that claims it", c.at(s), "Set(i, rs) for i in rs.Master.Slots", "a slot is assigned to a replica set other than the one whose master's ranges are being walked")
	}
	// stale pools: Close + delete, guarded by absence from ServerMap
	closes := p.callsIn(ticker, poolClose)
	okClose := false
	for _, cl := range closes {
		absent := guardHas(guardsOf(cl), func(g Guard) bool {
			ex, ok := g.Cond.(*ssa.Extract)
			return ok && ex.Index == 1 && !g.Truth && strings.Contains(expr(ex.Tuple), "hashmap.HashMap).Get(")
		})
		deleted := false
		for _, in := range cl.Block().Instrs {
			if call, ok := in.(*ssa.Call); ok {
				if b, ok := call.Call.Value.(*ssa.Builtin); ok && b.Name() == "delete" {
					if _, is := fieldLoad(call.Call.Args[0], proxyPool); is {
						deleted = true
					}
				}
			}
		}
		if absent && deleted && changed(cl.Block()) {
			okClose = true
		}
	}
	c.check(okClose, "ticker: pools of removed nodes are closed and deleted", p.pos(ticker.Pos()), "Close() + delete(ProxyPool, k) when ServerMap has no k",
		"pools of nodes that left the topology are not closed and removed: requests keep being sent to a node that is no longer part of the cluster, or its connections leak")
	// roles
	okRole := false
	for _, sl := range p.callsIn(ticker, setIsSlave) {
		if bo, ok := strip(sl.Common().Args[1]).(*ssa.BinOp); ok && bo.Op == token.EQL {
			if _, is := fieldLoad(bo.X, roleF); is {
				if k, isK := constInt(bo.Y); isK && k == 1 {
					okRole = true
				}
			}
		}
	}
	c.check(okRole, "ticker: existing pools follow the node's role", p.pos(ticker.Pos()), "pool.SetIsSlave(v.Role == Slave)", "existing pools are not told whether their node is now a replica: connections keep or miss READONLY after a failover")
	// serverChanged lowered last
	for _, w := range p.fieldWrites(sc) {
		if homeFn(w.Fn) != ticker {
			continue
		}
		k, isConst := w.Val.(*ssa.Const)
		if !isConst || k.Value.String() != "false" {
			continue
		}
		last := true
		for _, x := range append(append([]ssa.CallInstruction{}, rs...), ss...) {
			if !canReach(x.(ssa.Instruction), w.Instr) || canReach(w.Instr, x.(ssa.Instruction)) && changed(x.Block()) && false {
				last = false
			}
		}
		// nothing of the rebuild happens after it
		after := false
		pathFrom(w.Instr, func(in ssa.Instruction) bool {
			if ci, ok := in.(ssa.CallInstruction); ok {
				for _, f := range []*ssa.Function{reset, set, poolClose, setIsSlave} {
					if f != nil && ci.Common().StaticCallee() == f {
						after = true
					}
				}
			}
			return false
		})
		c.check(last && !after && changed(w.Instr.Block()), "ticker: 'changed' lowered after the rebuild", c.at(w.Instr), "serverChanged = false is the last step",
			"'changed' is lowered before the rebuild finished (or the rebuild continues after it): a description published meanwhile is lost")
	}
}

// ---------------------------------------------------------------------------------------------

func ruleC14_7(c *Ctx) {
	p := c.P
	on := c.needMethod(pkgServer, "listenServer", "OnCReact")
	getConn := c.needMethod(pkgServer, "listenServer", "getConn")
	notExist := c.needMethod(pkgCore, "slotReplicaset", "NotExist")
	if on == nil || getConn == nil || notExist == nil {
		return
	}
	calls := p.callsIn(on, getConn)
	if len(calls) == 0 {
		c.undecided("OnCReact: getConn", p.pos(on.Pos()), "no call found")
		return
	}
	for _, call := range calls {
		slot := call.Common().Args[2]
		gs := guardsOf(call)
		var gate *ssa.If
		okG := guardHas(gs, func(g Guard) bool {
			ne, ok := p.isCallTo(g.Cond, notExist)
			if ok && !g.Truth && expr(strip(ne.Call.Args[1])) == expr(strip(slot)) {
				gate = g.If
				return true
			}
			return false
		})
		c.check(okG, "OnCReact: routing only for served slots", c.at(call), "dominated by !Slots2Node.NotExist(slot) for the same slot",
			"getConn → route dereferences Slots2Node.Get(slot) without the NotExist test for that slot: a request for an unclaimed slot dereferences nil and the proxy exits", withGuards(gs))
		if gate != nil {
			tb := gate.Block().Succs[0]
			okR := false
			if r, ok := tb.Instrs[len(tb.Instrs)-1].(*ssa.Return); ok {
				okR = strings.Contains(returnLabel(r), "unknown slot")
			}
			c.check(okR, "OnCReact: unserved slot answered with the unknown-slot error", c.at(gate), "returns ErrUnKnownSlot", "the NotExist edge does not return the unknown-slot error")
		}
	}
}

// ---------------------------------------------------------------------------------------------

func ruleC14_8(c *Ctx) {
	p := c.P
	if s, ok := p.ConstString(pkgConst, "ReqClusterNodes"); ok {
		args, wf := parseRESPCommand(s)
		c.check(wf && len(args) == 2 && strings.EqualFold(args[0], "cluster") && strings.EqualFold(args[1], "nodes"), "constant.ReqClusterNodes literal", "-", fmt.Sprintf("%q", s), fmt.Sprintf("%q is not a well-formed CLUSTER NODES command", s))
	} else {
		c.undecided("constant.ReqClusterNodes", "-", "not found")
	}
	wcn := c.needMethod(pkgCore, "conn", "writeClusterNodes")
	owner := p.Field(pkgCore, "Frag", "Owner")
	if wcn != nil && owner != nil {
		n := 0
		for _, w := range p.fieldWrites(owner) {
			if homeFn(w.Fn) == wcn {
				n++
			}
		}
		c.check(n == 0, "writeClusterNodes: probe fragment has no owner", p.pos(wcn.Pos()), "Owner stays nil", "the probe fragment is given an owner: its reply is flushed to a client instead of reaching the refresh goroutine")
	}
	sread := c.needMethod(pkgCore, "eventloop", "sread")
	if sread == nil {
		return
	}
	chanF := p.Field(pkgCore, "Engine", "clusterChan")
	// every send on clusterChan in the module
	n := 0
	for _, fn := range p.Funcs {
		allInstrs(fn, func(in ssa.Instruction) {
			var ch ssa.Value
			blocking := true
			switch x := in.(type) {
			case *ssa.Send:
				ch = x.Chan
			case *ssa.Select:
				for _, st := range x.States {
					if st.Dir == types.SendOnly {
						ch = st.Chan
					}
				}
				blocking = x.Blocking
			default:
				return
			}
			if ch == nil {
				return
			}
			if _, is := fieldLoad(ch, chanF); !is {
				return
			}
			n++
			encl := homeFn(fn)
			c.check(encl == sread && !blocking, "send on the refresh channel in "+shortFn(encl), c.at(in), "non-blocking select in eventloop.sread",
				"a probe reply is sent on the refresh channel with a blocking send (or outside the backend read path): when the refresh goroutine is busy the single event loop blocks and every client stalls")
			if encl == sread {
				gs := guardsOf(in)
				okO := guardHas(gs, func(g Guard) bool {
					x, op, y, ok := cmpGuard(g)
					_, isOwner := fieldLoad(x, owner)
					return ok && isOwner && isNilConst(y) && op == token.EQL
				})
				c.check(okO, "only ownerless replies reach the refresh channel", c.at(in), "on r.Owner == nil", "a reply that belongs to a client can be sent to the refresh goroutine", withGuards(gs))
			}
		})
	}
	if n == 0 {
		c.bad("send on the refresh channel", p.pos(sread.Pos()), "probe replies are never handed to the refresh goroutine: the topology is never updated")
	}
}

// expandHelperFacts replaces, in each path's facts, the outcome of a boolean helper call by the conditions of each
// path through the helper that yields this outcome (one resulting path per such way).
func (p *Prog) expandHelperFacts(paths []map[string]bool, depth int) []map[string]bool {
	if depth > 1 {
		return paths
	}
	var out []map[string]bool
	for _, facts := range paths {
		expanded := []map[string]bool{facts}
		for key, truth := range facts {
			cond, ok := condOf[key]
			if !ok {
				continue
			}
			call, ok := cond.(*ssa.Call)
			if !ok {
				continue
			}
			h := call.Call.StaticCallee()
			if h == nil || !p.isHelper(h) || h.Signature.Results().Len() != 1 {
				continue
			}
			if b, ok := h.Signature.Results().At(0).Type().Underlying().(*types.Basic); !ok || b.Kind() != types.Bool {
				continue
			}
			bindCall(h, call.Call.Args)
			var ways []map[string]bool
			for _, r := range returnsReachable(h) {
				ret := r.(*ssa.Return)
				hp, _ := pathFacts(h.Blocks[0], ret.Block(), nil, 512)
				if ret.Block() == h.Blocks[0] {
					hp = []map[string]bool{{}}
				}
				val := results(ret)[0]
				for _, hf := range hp {
					w := map[string]bool{}
					for k, v := range hf {
						w[k] = v
					}
					if cst, isC := val.(*ssa.Const); isC && cst.Value != nil {
						if constBoolValue(cst) != truth {
							continue
						}
					} else {
						w[expr(val)] = truth
						condOf[expr(val)] = val
					}
					ways = append(ways, w)
				}
			}
			if len(ways) == 0 {
				continue
			}
			var next []map[string]bool
			for _, base := range expanded {
				for _, w := range ways {
					m := map[string]bool{}
					for k, v := range base {
						m[k] = v
					}
					for k, v := range w {
						m[k] = v
					}
					next = append(next, m)
				}
			}
			expanded = next
		}
		out = append(out, expanded...)
	}
	return out
}

package main

// C19 - the ring, linked-list and elastic buffers as FIFO byte queues. What is decided here are the
// structural clauses of that property (orientation, accounting, room before a write, the empty/full flag,
// segment order); cursor arithmetic along operation sequences is not (DESIGN.md section 4, C19).

import (
	"fmt"
	"go/token"
	"go/types"
	"sort"
	"strings"

	"golang.org/x/tools/go/ssa"
)

func init() {
	rule("C19.1", "E5c", "overflow list orientation: pushBack links behind the tail, pop and every traversal start at the head and follow the same link; the emptiness test of pushBack is kept true by pop and pushFront", 6, ruleC19_1)
	rule("C19.2", "E2+E5", "overflow list accounting: the byte count changes only where a node is linked or unlinked, by that node's length; a node is shortened only between pop and pushFront", 5, ruleC19_2)
	rule("C19.3", "E4+E8", "ring: every write into the ring's storage happens after room for it was established: Available() is compared with the amount, and grow is asked for at least Buffered()+amount", 4, ruleC19_3)
	rule("C19.4", "E3+E8", "ring grow keeps the content: the old length is taken before the content is moved, the content is moved front to back into the new storage before it replaces the old, r = 0 and w = old length", 5, ruleC19_4)
	rule("C19.5", "E3+E4", "ring empty/full flag: the ring is marked non-empty only when at least one byte was added, and a read cursor that can catch up with the write cursor resets the ring to empty", 6, ruleC19_5)
	rule("C19.6", "E8", "segment order: a wrapped ring is exposed as (storage from r, storage from 0) in that order; connection Peek/Next assemble ring head, ring tail, then the fresh read buffer", 6, ruleC19_6)
	rule("C19.8", "E3+E4", "ring grow allocates at least the capacity it was asked for, on every path through its sizing policy", 1, ruleC19_8)
	rule("C19.7", "E3+E8", "two-tier read side: Peek lists the ring's segments before the overflow list's nodes, Discard drains the ring first and the list by the remainder, Buffered/IsEmpty cover both tiers", 6, ruleC19_7)
}

// ---------------------------------------------------------------------------------------------
// small helpers

// lenOfField: v is len(x.f) (possibly through an accessor such as node.len()); returns x.
func lenOfField(v ssa.Value, f *types.Var) (ssa.Value, bool) {
	v = strip(v)
	call, ok := v.(*ssa.Call)
	if !ok {
		return nil, false
	}
	b, ok := call.Call.Value.(*ssa.Builtin)
	if !ok || b.Name() != "len" || len(call.Call.Args) != 1 {
		return nil, false
	}
	base, ok := fieldLoad(call.Call.Args[0], f)
	if !ok {
		return nil, false
	}
	return strip(base), true
}

func ptrFieldsOf(owner *types.Named, elem *types.Named) []*types.Var {
	st, _ := owner.Underlying().(*types.Struct)
	var out []*types.Var
	for i := 0; st != nil && i < st.NumFields(); i++ {
		if p, ok := st.Field(i).Type().(*types.Pointer); ok && types.Identical(p.Elem(), elem) {
			out = append(out, st.Field(i))
		}
	}
	return out
}

// storesTo lists the stores in fn (no helpers) to field f: (base, value, instruction).
type fstore struct {
	base ssa.Value
	val  ssa.Value
	in   *ssa.Store
}

func storesTo(fn *ssa.Function, f *types.Var) []fstore {
	var out []fstore
	allInstrs(fn, func(in ssa.Instruction) {
		st, ok := in.(*ssa.Store)
		if !ok {
			return
		}
		fa, ok := st.Addr.(*ssa.FieldAddr)
		if !ok || fieldVar(fa.X.Type(), fa.Field) != f {
			return
		}
		out = append(out, fstore{base: fa.X, val: st.Val, in: st})
	})
	return out
}

// nilTestOn: the guards contain `load(recv.f) == nil` (want true) or `!= nil` for one of the fields; returns it.
func nilTestOn(gs []Guard, recv ssa.Value, fields map[*types.Var]bool, wantNil bool) (*types.Var, ssa.Value) {
	for _, g := range gs {
		x, op, y, ok := cmpGuard(g)
		if !ok {
			continue
		}
		if isNilConst(x) {
			x, y = y, x
		}
		if !isNilConst(y) || (op != token.EQL && op != token.NEQ) {
			continue
		}
		if (op == token.EQL) != wantNil {
			continue
		}
		if f, base, ok := anyFieldLoad(x); ok && fields[f] && strip(base) == recv {
			return f, strip(x)
		}
	}
	return nil, nil
}

// ---------------------------------------------------------------------------------------------
// C19.1

func ruleC19_1(c *Ctx) {
	p := c.P
	nodeT := p.Named(pkgLL, "node")
	bufT := p.Named(pkgLL, "Buffer")
	pushBack := c.needMethod(pkgLL, "Buffer", "pushBack")
	pushFront := c.needMethod(pkgLL, "Buffer", "pushFront")
	pop := c.needMethod(pkgLL, "Buffer", "pop")
	if nodeT == nil || bufT == nil {
		c.undecided("linkedlist types", "-", "linkedlist.node / linkedlist.Buffer not found")
		return
	}
	if pushBack == nil || pushFront == nil || pop == nil {
		return
	}
	links := map[*types.Var]bool{}
	for _, l := range linkFields(nodeT) {
		links[l] = true
	}
	ends := map[*types.Var]bool{}
	for _, e := range ptrFieldsOf(bufT, nodeT) {
		ends[e] = true
	}
	if len(links) != 1 || len(ends) != 2 {
		c.undecided("linkedlist shape", p.pos(bufT.Obj().Pos()), fmt.Sprintf("expected one link field in node and two end fields in Buffer, found %d and %d", len(links), len(ends)))
		return
	}
	c.examined(len(pushBack.Blocks) + len(pushFront.Blocks) + len(pop.Blocks))

	// ---- pushBack: load(llb.T).link = b ; llb.T = b ; on the empty edge llb.H = b
	recv, b := ssa.Value(pushBack.Params[0]), ssa.Value(pushBack.Params[1])
	var T, H, E *types.Var
	var linkAt *ssa.Store
	allInstrs(pushBack, func(in ssa.Instruction) {
		st, ok := in.(*ssa.Store)
		if !ok {
			return
		}
		fa, ok := st.Addr.(*ssa.FieldAddr)
		if !ok || !links[fieldVar(fa.X.Type(), fa.Field)] || strip(st.Val) != b {
			return
		}
		if ef, base, ok := anyFieldLoad(fa.X); ok && ends[ef] && strip(base) == recv {
			T, linkAt = ef, st
		}
	})
	if T == nil {
		c.undecided("linkedlist.pushBack: link store", p.pos(pushBack.Pos()), "no store `llb.<end>.<link> = b` found: the push idiom is not recognised")
		return
	}
	for e := range ends {
		if e != T {
			H = e
		}
	}
	mentionsEnd := func(gs []Guard) bool {
		f, _ := nilTestOn(gs, recv, ends, true)
		g, _ := nilTestOn(gs, recv, ends, false)
		return f != nil || g != nil
	}
	endSet := false
	for _, s := range storesTo(pushBack, T) {
		if strip(s.base) == recv && strip(s.val) == b && !mentionsEnd(guardsAt(s.in.Block())) {
			endSet = true
		}
	}
	c.check(endSet, "linkedlist.pushBack: the pushed node becomes the "+T.Name(), c.at(linkAt), "llb."+T.Name()+" = b on every path",
		"pushBack links the node behind "+T.Name()+" but does not (always) make it the new "+T.Name()+": the next push overwrites the link and the bytes of this node are lost")
	// emptiness test of pushBack
	if f, _ := nilTestOn(guardsAt(linkAt.Block()), recv, ends, false); f != nil {
		E = f
	}
	if E == nil {
		c.undecided("linkedlist.pushBack: emptiness test", c.at(linkAt), "the link store is not guarded by `llb.<end> != nil`")
		return
	}
	headSet := false
	for _, s := range storesTo(pushBack, H) {
		if strip(s.base) != recv || strip(s.val) != b {
			continue
		}
		if f, _ := nilTestOn(guardsAt(s.in.Block()), recv, ends, true); f == E {
			headSet = true
		}
	}
	c.check(headSet, "linkedlist.pushBack: first node becomes the "+H.Name(), c.at(linkAt), "llb."+H.Name()+" = b when the list was empty",
		"a node pushed on an empty list is not made its "+H.Name()+": the list still looks empty and the bytes are never sent")

	// ---- pop: llb.H = load(llb.H).link ; returns the old head ; clears E when the list becomes empty
	precv := ssa.Value(pop.Params[0])
	var adv *ssa.Store
	var popEnd *types.Var
	for e := range ends {
		for _, s := range storesTo(pop, e) {
			if strip(s.base) != precv {
				continue
			}
			if lf, nb, ok := anyFieldLoad(s.val); ok && links[lf] {
				if ef, qb, ok := anyFieldLoad(nb); ok && ef == e && strip(qb) == precv {
					adv, popEnd = s.in, e
				}
			}
		}
	}
	if adv == nil {
		c.undecided("linkedlist.pop: advance", p.pos(pop.Pos()), "no store `llb.<end> = llb.<end>.<link>` found: the pop idiom is not recognised")
		return
	}
	c.check(popEnd == H, "linkedlist.pop: end", c.at(adv), "pop removes at "+H.Name()+", pushBack appends at "+T.Name(),
		"pop removes the node at "+popEnd.Name()+", the end where pushBack appends: the overflow list is drained newest first and a slow reader receives later bytes before earlier ones")
	retOld := true
	for _, r := range returnsReachable(pop) {
		rv := strip(results(r.(*ssa.Return))[0])
		if isNilConst(rv) {
			continue
		}
		ef, qb, ok := anyFieldLoad(rv)
		ld, isIn := rv.(ssa.Instruction)
		if !ok || ef != popEnd || strip(qb) != precv || !isIn || !dominatesInstr(ld, adv) {
			retOld = false
		}
	}
	c.check(retOld, "linkedlist.pop: result", c.at(adv), "returns the node that was at "+popEnd.Name()+" before the advance",
		"pop does not return the node it unlinked (the end field is read after it was advanced): one node is skipped and its bytes are never delivered")
	if E == T {
		cleared := false
		for _, s := range storesTo(pop, T) {
			if strip(s.base) != precv || !isNilConst(s.val) {
				continue
			}
			if f, ld := nilTestOn(guardsAt(s.in.Block()), precv, map[*types.Var]bool{H: true}, true); f == H {
				if li, ok := ld.(ssa.Instruction); ok && dominatesInstr(adv, li) {
					cleared = true
				}
			}
		}
		c.check(cleared, "linkedlist.pop: emptied list clears "+T.Name(), c.at(adv), "llb."+T.Name()+" = nil when the new "+H.Name()+" is nil",
			"pop leaves "+T.Name()+" pointing at the removed node when the list becomes empty; pushBack tests "+T.Name()+" for emptiness, so the next push is linked behind a dead node, "+H.Name()+" stays nil and the pushed bytes are never delivered")
	} else {
		c.ok("linkedlist.pop: emptied list", c.at(adv), "pushBack tests "+H.Name()+", which pop sets to nil by advancing")
	}

	// ---- pushFront: b.link = load(llb.H) ; llb.H = b ; on the empty edge llb.E = b when E is the tail
	frecv, fb := ssa.Value(pushFront.Params[0]), ssa.Value(pushFront.Params[1])
	var flink *ssa.Store
	allInstrs(pushFront, func(in ssa.Instruction) {
		st, ok := in.(*ssa.Store)
		if !ok {
			return
		}
		fa, ok := st.Addr.(*ssa.FieldAddr)
		if !ok || !links[fieldVar(fa.X.Type(), fa.Field)] || strip(fa.X) != fb {
			return
		}
		if ef, base, ok := anyFieldLoad(st.Val); ok && ef == H && strip(base) == frecv {
			flink = st
		}
	})
	c.check(flink != nil, "linkedlist.pushFront: link", posOr(c, flink, pushFront), "b.link = llb."+H.Name(),
		"pushFront does not link the rest of the list behind the node it puts back: after a partial write everything that was queued behind the partly sent node is lost")
	fset := false
	for _, s := range storesTo(pushFront, H) {
		fmentions := func(gs []Guard) bool {
			f, _ := nilTestOn(gs, frecv, ends, true)
			g, _ := nilTestOn(gs, frecv, ends, false)
			return f != nil || g != nil
		}
		if strip(s.base) == frecv && strip(s.val) == fb && !fmentions(guardsAt(s.in.Block())) {
			fset = true
		}
	}
	c.check(fset, "linkedlist.pushFront: the node becomes the "+H.Name(), posOr(c, flink, pushFront), "llb."+H.Name()+" = b on every path",
		"pushFront does not make the put-back node the "+H.Name()+": the unsent remainder of a partly written node is dropped from the stream")
	if E == T {
		tset := false
		for _, s := range storesTo(pushFront, T) {
			if strip(s.base) != frecv || strip(s.val) != fb {
				continue
			}
			if f, _ := nilTestOn(guardsAt(s.in.Block()), frecv, ends, true); f != nil {
				tset = true
			}
		}
		c.check(tset, "linkedlist.pushFront: put back on an empty list sets "+T.Name(), posOr(c, flink, pushFront), "llb."+T.Name()+" = b when the list is empty",
			"a node put back on an empty list (the usual case after a partial write of the only node) does not become the "+T.Name()+"; pushBack then sees an empty list and overwrites "+H.Name()+": the unsent remainder is lost")
	}

	// ---- traversals start at H and follow the link
	travFns := map[*ssa.Function]bool{}
	for _, fn := range p.Funcs {
		if fn.Pkg == nil || fn.Pkg.Pkg.Path() != pkgLL || fn.Synthetic != "" || fn.Blocks == nil {
			continue
		}
		allInstrs(fn, func(in ssa.Instruction) {
			ph, ok := in.(*ssa.Phi)
			if !ok {
				return
			}
			pt, ok := ph.Type().(*types.Pointer)
			if !ok || !types.Identical(pt.Elem(), nodeT) {
				return
			}
			// loop variable: one edge steps along the link of the phi itself
			step, init := false, []ssa.Value{}
			for _, e := range ph.Edges {
				if lf, base, ok := anyFieldLoad(e); ok && links[lf] && strip(base) == ssa.Value(ph) {
					step = true
				} else {
					init = append(init, e)
				}
			}
			if !step {
				return
			}
			travFns[fn] = true
			c.touch(fn)
			okInit := len(init) > 0
			for _, e := range init {
				ef, _, ok := anyFieldLoad(e)
				if !ok || ef != H {
					okInit = false
				}
			}
			c.check(okInit, "linkedlist."+fn.Name()+": traversal starts at "+H.Name(), c.at(ph), "iter = llb."+H.Name()+"; iter = iter.link",
				"a traversal of the overflow list does not start at "+H.Name()+" (the end pop removes from): Peek hands the socket a different byte sequence than Discard later removes")
		})
	}
	// both peeking entry points walk the list (themselves or through a helper)
	for _, m := range []string{"Peek", "PeekWithBytes"} {
		fn := c.needMethod(pkgLL, "Buffer", m)
		if fn == nil {
			continue
		}
		has := false
		for _, g := range p.family(fn) {
			if travFns[g] {
				has = true
			}
		}
		if !has {
			c.undecided("linkedlist."+m+": list traversal", p.pos(fn.Pos()), "no traversal of the node chain found in "+m+" or its helpers")
		}
	}
}

// ---------------------------------------------------------------------------------------------
// C19.2

func ruleC19_2(c *Ctx) {
	p := c.P
	nodeT := p.Named(pkgLL, "node")
	bufT := p.Named(pkgLL, "Buffer")
	bytesF := p.Field(pkgLL, "Buffer", "bytes")
	nbuf := p.Field(pkgLL, "node", "buf")
	buffered := c.needMethod(pkgLL, "Buffer", "Buffered")
	pop := c.needMethod(pkgLL, "Buffer", "pop")
	pushFront := c.needMethod(pkgLL, "Buffer", "pushFront")
	if nodeT == nil || bufT == nil || bytesF == nil || nbuf == nil {
		c.undecided("linkedlist fields", "-", "linkedlist.Buffer.bytes / node.buf not found")
		return
	}
	if buffered == nil || pop == nil || pushFront == nil {
		return
	}
	// Buffered() reports the counter
	okB := false
	for _, r := range returnsReachable(buffered) {
		if base, ok := fieldLoad(results(r.(*ssa.Return))[0], bytesF); ok && strip(base) == ssa.Value(buffered.Params[0]) {
			okB = true
		} else {
			okB = false
			break
		}
	}
	c.check(okB, "linkedlist.Buffered reports the byte counter", p.pos(buffered.Pos()), "return llb.bytes", "Buffered() of the overflow list does not return the byte counter")

	ends := map[*types.Var]bool{}
	for _, e := range ptrFieldsOf(bufT, nodeT) {
		ends[e] = true
	}
	// functions that link or unlink a node: they store to an end field
	linkers := map[*ssa.Function]bool{}
	for e := range ends {
		for _, w := range p.fieldWrites(e) {
			if w.Kind == "store" {
				linkers[w.Fn] = true
			}
		}
	}
	var ls []*ssa.Function
	for f := range linkers {
		ls = append(ls, f)
	}
	sortFuncs(ls)
	for _, fn := range ls {
		c.touch(fn)
		c.examined(len(fn.Blocks))
		name := "linkedlist." + fn.Name()
		ws := storesTo(fn, bytesF)
		// which node does fn link or unlink?
		var node ssa.Value
		sign := token.ILLEGAL
		for _, prm := range fn.Params[1:] {
			if pt, ok := prm.Type().(*types.Pointer); ok && types.Identical(pt.Elem(), nodeT) {
				node, sign = prm, token.ADD
			}
		}
		if node == nil && fn.Signature.Results().Len() == 1 {
			if pt, ok := fn.Signature.Results().At(0).Type().(*types.Pointer); ok && types.Identical(pt.Elem(), nodeT) {
				for _, r := range returnsReachable(fn) {
					rv := strip(results(r.(*ssa.Return))[0])
					if !isNilConst(rv) {
						node, sign = rv, token.SUB
					}
				}
			}
		}
		if node == nil {
			// no node in or out: only a reset may touch the ends (all to nil) and must zero the counter
			allNil := true
			for e := range ends {
				for _, s := range storesTo(fn, e) {
					if !isNilConst(s.val) {
						allNil = false
					}
				}
			}
			zero := false
			for _, w := range ws {
				if isZero(w.val) {
					zero = true
				}
			}
			c.check(allNil && zero, name+": reset zeroes the byte counter", p.pos(fn.Pos()), "ends = nil, bytes = 0",
				"a function that rewrites the ends of the overflow list without linking a given node must empty it and set bytes to 0; Buffered() is otherwise wrong after it")
			continue
		}
		found := false
		for _, w := range ws {
			bo, ok := strip(w.val).(*ssa.BinOp)
			if !ok || bo.Op != sign {
				continue
			}
			if base, ok := fieldLoad(bo.X, bytesF); !ok || strip(base) != strip(w.base) {
				continue
			}
			if nd, ok := lenOfField(bo.Y, nbuf); ok && nd == strip(node) && onEveryLinkPath(w.in, fn, ends) {
				found = true
			}
		}
		what := "bytes += len(node.buf)"
		if sign == token.SUB {
			what = "bytes -= len(node.buf)"
		}
		c.check(found, name+": byte counter follows the node", p.pos(fn.Pos()), what+" on every path that changes the ends",
			"a node is linked/unlinked without the byte counter moving by that node's length: Buffered() drifts from the bytes actually queued (OutboundBuffered, the Peek/Discard contract of the two-tier buffer)")
	}
	// other writers of the counter
	for _, w := range p.fieldWrites(bytesF) {
		if !linkers[w.Fn] {
			c.bad("linkedlist.Buffer.bytes written in "+shortFn(w.Fn), c.at(w.Instr), "the byte counter is written in a function that neither links nor unlinks a node")
		}
	}
	// a node's bytes are shortened only between pop and pushFront
	n := 0
	for _, w := range p.fieldWrites(nbuf) {
		if w.Kind != "store" {
			continue
		}
		if _, fresh := strip(w.Base).(*ssa.Alloc); fresh {
			continue
		}
		n++
		if hs := p.helperSites(outermost(w.Fn)); p.isHelper(outermost(w.Fn)) && len(hs) > 1 {
			n += len(hs) - 1 // one helper doing it for several callers (`llb.consumed(b, m)` in Read and WriteTo)
		}
		c.touch(w.Fn)
		name := "linkedlist." + w.Fn.Name() + ": node shortened between pop and pushFront"
		fromPop := false
		for _, r := range p.resolveParamRoots(flowRoots(w.Base, nil), 0) {
			if _, ok := p.isCallTo(r, pop); ok {
				fromPop = true
			} else {
				fromPop = false
				break
			}
		}
		put := false
		for _, pf := range p.callsIn(w.Fn, pushFront) {
			if strip(pf.Common().Args[1]) == strip(w.Base) && dominatesInstr(w.Instr, pf.(ssa.Instruction)) {
				put = true
			}
		}
		c.check(fromPop && put, name, c.at(w.Instr), "node comes from pop() and goes back through pushFront()",
			"a node's byte slice is re-sliced while the node is linked (or it is not put back): the byte counter no longer matches the bytes in the list, and a partial drain loses or repeats bytes")
	}
	if n < 3 {
		c.undecided("linkedlist node.buf re-slicing sites", "-", fmt.Sprintf("%d found (Read, Discard, WriteTo expected)", n))
	}
}

// onEveryLinkPath: the counter update at `in` is executed on every path of fn that stores to an end field.
func onEveryLinkPath(in ssa.Instruction, fn *ssa.Function, ends map[*types.Var]bool) bool {
	for e := range ends {
		for _, s := range storesTo(fn, e) {
			if isNilConst(s.val) {
				// clearing the other end when the list becomes empty is part of an unlink that is counted below
			}
			// every return reachable from the end store must be dominated by the counter update, or the update precedes the store
			if dominatesInstr(in, s.in) {
				continue
			}
			for _, r := range returnsReachable(fn) {
				if canReach(s.in, r) && !dominatesInstr(in, r) {
					return false
				}
			}
		}
	}
	return true
}

var _ = strings.Join
var _ = sort.Strings

// ---------------------------------------------------------------------------------------------
// linear forms over the ring's quantities: size, B (= Buffered()), Available() = size - B, len(x), constants

type linForm struct {
	coef map[string]int64
	k    int64
	ok   bool
}

func (l linForm) String() string {
	var ks []string
	for a := range l.coef {
		if l.coef[a] != 0 {
			ks = append(ks, a)
		}
	}
	sort.Strings(ks)
	var parts []string
	for _, a := range ks {
		parts = append(parts, fmt.Sprintf("%+d·%s", l.coef[a], a))
	}
	if l.k != 0 || len(parts) == 0 {
		parts = append(parts, fmt.Sprintf("%+d", l.k))
	}
	return strings.Join(parts, " ")
}

type ringCtx struct {
	p         *Prog
	recv      ssa.Value
	sizeF     *types.Var
	buffered  *ssa.Function
	available *ssa.Function
}

func (rc *ringCtx) lin(v ssa.Value, depth int) linForm {
	out := linForm{coef: map[string]int64{}, ok: true}
	v = strip(v)
	if depth > 12 {
		return linForm{}
	}
	if n, ok := constInt(v); ok {
		out.k = n
		return out
	}
	if base, ok := fieldLoad(v, rc.sizeF); ok && strip(base) == rc.recv {
		out.coef["size"] = 1
		return out
	}
	if call, ok := v.(*ssa.Call); ok {
		if cl, is := rc.p.isCallTo(v, rc.buffered); is && strip(cl.Call.Args[0]) == rc.recv {
			out.coef["B"] = 1
			return out
		}
		if cl, is := rc.p.isCallTo(v, rc.available); is && strip(cl.Call.Args[0]) == rc.recv {
			out.coef["size"] = 1
			out.coef["B"] = -1
			return out
		}
		if b, ok := call.Call.Value.(*ssa.Builtin); ok && b.Name() == "len" {
			out.coef["len("+expr(call.Call.Args[0])+")"] = 1
			return out
		}
	}
	if bo, ok := v.(*ssa.BinOp); ok {
		switch bo.Op {
		case token.ADD, token.SUB:
			a, b := rc.lin(bo.X, depth+1), rc.lin(bo.Y, depth+1)
			if !a.ok || !b.ok {
				return linForm{}
			}
			sg := int64(1)
			if bo.Op == token.SUB {
				sg = -1
			}
			for k, x := range a.coef {
				out.coef[k] += x
			}
			for k, x := range b.coef {
				out.coef[k] += sg * x
			}
			out.k = a.k + sg*b.k
			return out
		}
	}
	// opaque atom: sign unknown
	out.coef["?"+expr(v)] = 1
	return out
}

// nonNeg: the form is a sum of non-negative quantities (size, B, len(..), constants) with non-negative coefficients.
func (l linForm) nonNeg() bool {
	if !l.ok || l.k < 0 {
		return false
	}
	for a, x := range l.coef {
		if x == 0 {
			continue
		}
		if x < 0 || strings.HasPrefix(a, "?") {
			return false
		}
	}
	return true
}

func (l linForm) minus(m linForm) linForm {
	if !l.ok || !m.ok {
		return linForm{}
	}
	out := linForm{coef: map[string]int64{}, k: l.k - m.k, ok: true}
	for k, x := range l.coef {
		out.coef[k] += x
	}
	for k, x := range m.coef {
		out.coef[k] -= x
	}
	return out
}

func (l linForm) isAvail() bool {
	if !l.ok || l.k != 0 {
		return false
	}
	for a, x := range l.coef {
		switch {
		case a == "size" && x == 1, a == "B" && x == -1, x == 0:
		default:
			return false
		}
	}
	return l.coef["size"] == 1 && l.coef["B"] == -1
}

// ringMethods: the declared functions of package ring with a *Buffer receiver.
func ringMethods(p *Prog) []*ssa.Function {
	bufT := p.Named(pkgRing, "Buffer")
	var out []*ssa.Function
	for _, fn := range p.Funcs {
		if fn.Pkg == nil || fn.Pkg.Pkg.Path() != pkgRing || fn.Synthetic != "" || fn.Blocks == nil || fn.Signature.Recv() == nil || fn.Parent() != nil {
			continue
		}
		if pt, ok := fn.Signature.Recv().Type().(*types.Pointer); ok && bufT != nil && types.Identical(pt.Elem(), bufT) {
			out = append(out, fn)
		}
	}
	sortFuncs(out)
	return out
}

// storageWrites: the instructions of fn that put new bytes into the ring's storage: copy(dst, src) with dst sliced
// from rb.buf (src not itself the storage: a compaction moves bytes, it adds none), and element stores
// rb.buf[i] = x. A function that hands (a slice of) the storage to code outside the module - an io.Reader, an
// io.Writer, a system call - or parks it in another container is an I/O adaptor (ReadFrom, WriteTo,
// CopyFromSocket): how many bytes arrive is decided by the foreign callee, and this property's rules do not
// cover those functions (DESIGN.md).
type storageWrite struct {
	in     ssa.Instruction
	src    ssa.Value // copy source, nil for an element store
	viaIO  bool
	dstLow ssa.Value
}

func storageWrites(p *Prog, fn *ssa.Function, bufF *types.Var) []storageWrite {
	fromStorage := func(v ssa.Value) (ssa.Value, bool) {
		var low ssa.Value
		for i := 0; i < 6; i++ {
			v = strip(v)
			if _, ok := fieldLoad(v, bufF); ok {
				return low, true
			}
			sl, ok := v.(*ssa.Slice)
			if !ok {
				return nil, false
			}
			if low == nil {
				low = sl.Low
			}
			v = sl.X
		}
		return nil, false
	}
	var out []storageWrite
	allInstrs(fn, func(in ssa.Instruction) {
		switch x := in.(type) {
		case *ssa.Call:
			if b, ok := x.Call.Value.(*ssa.Builtin); ok {
				if b.Name() == "copy" {
					if low, ok := fromStorage(x.Call.Args[0]); ok {
						if _, self := fromStorage(x.Call.Args[1]); !self {
							out = append(out, storageWrite{in: in, src: x.Call.Args[1], dstLow: low})
						}
					}
				}
				return
			}
			foreign := x.Call.IsInvoke()
			if callee := x.Call.StaticCallee(); callee != nil && !p.ownFunc(callee) {
				foreign = true
			}
			if foreign {
				for _, a := range x.Call.Args {
					if _, ok := fromStorage(a); ok {
						out = append(out, storageWrite{in: in, viaIO: true})
					}
				}
			}
		case *ssa.Store:
			if ia, ok := x.Addr.(*ssa.IndexAddr); ok {
				if _, ok := fieldLoad(ia.X, bufF); ok {
					out = append(out, storageWrite{in: in})
					return
				}
			}
			if _, ok := fromStorage(x.Val); ok {
				if _, isSlice := x.Val.Type().Underlying().(*types.Slice); isSlice {
					out = append(out, storageWrite{in: in, viaIO: true})
				}
			}
		}
	})
	return out
}

func ioAdaptor(ws []storageWrite) bool {
	for _, w := range ws {
		if w.viaIO {
			return true
		}
	}
	return false
}

// ---------------------------------------------------------------------------------------------
// C19.3

func ruleC19_3(c *Ctx) {
	p := c.P
	bufF := p.Field(pkgRing, "Buffer", "buf")
	sizeF := p.Field(pkgRing, "Buffer", "size")
	grow := c.needMethod(pkgRing, "Buffer", "grow")
	buffered := c.needMethod(pkgRing, "Buffer", "Buffered")
	available := c.needMethod(pkgRing, "Buffer", "Available")
	if bufF == nil || sizeF == nil {
		c.undecided("ring fields", "-", "ring.Buffer.buf / size not found")
		return
	}
	if grow == nil || buffered == nil || available == nil {
		return
	}
	n := 0
	for _, fn := range ringMethods(p) {
		if fn == grow {
			continue
		}
		ws := storageWrites(p, fn, bufF)
		if len(ws) == 0 || ioAdaptor(ws) {
			continue
		}
		c.touch(fn)
		c.examined(len(fn.Blocks))
		rc := &ringCtx{p: p, recv: fn.Params[0], sizeF: sizeF, buffered: buffered, available: available}
		name := "ring." + fn.Name()
		// the room check: a grow call guarded by need > Available()
		type room struct {
			ifb  *ssa.BasicBlock
			need linForm
		}
		var rooms []room
		gcalls := p.callsIn(fn, grow)
		for _, gc := range gcalls {
			if gc.Parent() != fn {
				continue
			}
			var need linForm
			var ifb *ssa.BasicBlock
			for _, g := range guardsAtRaw(gc.Block()) {
				x, op, y, ok := cmpGuard(g)
				if !ok {
					continue
				}
				lx, ly := rc.lin(x, 0), rc.lin(y, 0)
				switch {
				case ly.isAvail() && (op == token.GTR || op == token.GEQ):
					need, ifb = lx, g.If.Block()
				case lx.isAvail() && (op == token.LSS || op == token.LEQ):
					need, ifb = ly, g.If.Block()
				}
			}
			if ifb == nil {
				c.bad(name+": grow is asked for when room is short", c.at(gc), "the call of grow is not guarded by a comparison of the amount to write with Available()")
				continue
			}
			arg := rc.lin(gc.Common().Args[1], 0)
			want := linForm{coef: map[string]int64{"B": 1}, ok: true}
			slack := arg.minus(want).minus(need)
			n++
			c.check(slack.nonNeg(), name+": grow is asked for at least Buffered()+amount", c.at(gc),
				fmt.Sprintf("need %s, asks for %s", need, arg),
				fmt.Sprintf("when %s bytes do not fit, grow is asked for a capacity of %s, which is not >= Buffered() + %s; grow only guarantees the capacity it is asked for (above the 4 KB threshold it does not even double), so a full ring of 4096 bytes or more stays too small and the write overruns the storage or overwrites unread bytes", need, arg, need))
			rooms = append(rooms, room{ifb: ifb, need: need})
		}
		for _, w := range ws {
			n++
			amount := linForm{coef: map[string]int64{}, k: 1, ok: true}
			if w.src != nil {
				// copy(dst, src) moves at most len(src) bytes; src is the parameter or a slice of it
				root := strip(w.src)
				for i := 0; i < 4; i++ {
					if sl, ok := root.(*ssa.Slice); ok {
						root = strip(sl.X)
					}
				}
				amount = linForm{coef: map[string]int64{"len(" + expr(root) + ")": 1}, ok: true}
			}
			covered := false
			for _, r := range rooms {
				if r.ifb.Dominates(w.in.Block()) && r.need.minus(amount).nonNeg() {
					covered = true
				}
			}
			c.check(covered, name+": storage written after room was established", c.at(w.in),
				"dominated by the Available() comparison for "+amount.String(),
				"bytes are copied into the ring's storage on a path that has not compared the amount ("+amount.String()+") with Available() and grown the ring: unread bytes are overwritten (or the copy is silently truncated) when the ring is nearly full")
		}
	}
	if n < 4 {
		c.undecided("ring storage writes", "-", fmt.Sprintf("%d obligations (Write and WriteByte expected)", n))
	}
}

// ---------------------------------------------------------------------------------------------
// C19.4

func ruleC19_4(c *Ctx) {
	p := c.P
	bufF := p.Field(pkgRing, "Buffer", "buf")
	sizeF := p.Field(pkgRing, "Buffer", "size")
	rF := p.Field(pkgRing, "Buffer", "r")
	wF := p.Field(pkgRing, "Buffer", "w")
	emptyF := p.Field(pkgRing, "Buffer", "isEmpty")
	grow := c.needMethod(pkgRing, "Buffer", "grow")
	buffered := c.needMethod(pkgRing, "Buffer", "Buffered")
	read := c.needMethod(pkgRing, "Buffer", "Read")
	if bufF == nil || sizeF == nil || rF == nil || wF == nil || emptyF == nil {
		c.undecided("ring fields", "-", "ring.Buffer fields not found")
		return
	}
	if grow == nil || buffered == nil || read == nil {
		return
	}
	c.examined(len(grow.Blocks))
	recv := ssa.Value(grow.Params[0])
	bufStores := storesTo(grow, bufF)
	if len(bufStores) != 1 {
		c.undecided("ring.grow: storage replacement", p.pos(grow.Pos()), fmt.Sprintf("%d stores to rb.buf (one expected)", len(bufStores)))
		return
	}
	bs := bufStores[0]
	newBuf := strip(bs.val)
	// content moved: Read(rb, newBuf) before the replacement
	var mv ssa.CallInstruction
	for _, rcall := range p.callsIn(grow, read) {
		if strip(rcall.Common().Args[0]) == recv && strip(rcall.Common().Args[1]) == newBuf && dominatesInstr(rcall.(ssa.Instruction), bs.in) {
			mv = rcall
		}
	}
	c.check(mv != nil, "ring.grow: content moved into the new storage before it replaces the old", c.at(bs.in), "rb.Read(newBuf) dominates rb.buf = newBuf",
		"grow replaces the storage without first reading the buffered bytes, front to back, into the new storage: everything buffered at the moment of growth is lost or scrambled (a reply larger than the ring reaches a slow reader corrupted)")
	// w = old length, taken before the move
	okW := false
	var wAt ssa.Instruction = bs.in
	for _, s := range storesTo(grow, wF) {
		wAt = s.in
		if cl, is := p.isCallTo(strip(s.val), buffered); is && strip(cl.Call.Args[0]) == recv && mv != nil && dominatesInstr(cl, mv.(ssa.Instruction)) && dominatesInstr(mv.(ssa.Instruction), s.in) {
			okW = true
		}
	}
	c.check(okW, "ring.grow: w = length before the move", c.at(wAt), "oldLen := rb.Buffered() before rb.Read(newBuf); rb.w = oldLen after",
		"the write cursor after growth is not the number of bytes that were buffered before the content was moved (Read empties the ring, so a length taken afterwards is 0): the moved bytes are overwritten by the next write")
	okR := false
	for _, s := range storesTo(grow, rF) {
		if isZero(s.val) && mv != nil && dominatesInstr(mv.(ssa.Instruction), s.in) {
			okR = true
		}
	}
	c.check(okR, "ring.grow: r = 0 after the move", c.at(bs.in), "rb.r = 0", "the read cursor is not reset to the start of the new storage, where the moved content begins")
	// size = capacity of the new storage
	okS := false
	var capv ssa.Value
	if call, ok := newBuf.(*ssa.Call); ok && len(call.Call.Args) >= 1 {
		capv = call.Call.Args[len(call.Call.Args)-1]
	} else if mk, ok := newBuf.(*ssa.MakeSlice); ok {
		capv = mk.Len
	}
	for _, s := range storesTo(grow, sizeF) {
		if capv != nil && (strip(s.val) == strip(capv) || expr(s.val) == expr(capv)) {
			okS = true
		}
	}
	c.check(okS, "ring.grow: size = length of the new storage", c.at(bs.in), "rb.size is the value the new storage was allocated with",
		"rb.size is not the length the new storage was allocated with: the cursors wrap at the wrong place")
	// non-empty restored (Read reset the ring)
	okE := false
	for _, s := range storesTo(grow, emptyF) {
		if c, ok := strip(s.val).(*ssa.Const); ok && c.Value != nil && !constBool(c) && mv != nil && dominatesInstr(mv.(ssa.Instruction), s.in) {
			okE = true
		}
	}
	c.check(okE, "ring.grow: non-empty restored after the move", c.at(bs.in), "isEmpty = false when bytes were moved",
		"Read marks the ring empty once it has handed out everything; grow does not mark it non-empty again, so the moved bytes are invisible (Buffered() == 0) and are overwritten")
}

func constBool(c *ssa.Const) bool {
	return c.Value != nil && c.Value.String() == "true"
}

// ---------------------------------------------------------------------------------------------
// C19.5

func ruleC19_5(c *Ctx) {
	p := c.P
	bufF := p.Field(pkgRing, "Buffer", "buf")
	rF := p.Field(pkgRing, "Buffer", "r")
	wF := p.Field(pkgRing, "Buffer", "w")
	sizeF := p.Field(pkgRing, "Buffer", "size")
	emptyF := p.Field(pkgRing, "Buffer", "isEmpty")
	reset := c.needMethod(pkgRing, "Buffer", "Reset")
	grow := c.needMethod(pkgRing, "Buffer", "grow")
	buffered := c.needMethod(pkgRing, "Buffer", "Buffered")
	if bufF == nil || rF == nil || wF == nil || emptyF == nil || sizeF == nil {
		c.undecided("ring fields", "-", "ring.Buffer fields not found")
		return
	}
	if reset == nil || grow == nil || buffered == nil {
		return
	}
	rootOf := func(v ssa.Value) ssa.Value {
		root := strip(v)
		for i := 0; i < 4; i++ {
			if sl, ok := root.(*ssa.Slice); ok {
				root = strip(sl.X)
			}
		}
		return root
	}
	nE, nR := 0, 0
	for _, fn := range ringMethods(p) {
		if p.isHelper(fn) {
			continue // a helper is looked at under each of its call sites
		}
		// storage writes and cursor stores of the function and its helpers, each seen under its call site
		var ws []storageWrite
		ioAd := false
		for _, g := range p.family(fn) {
			gws := storageWrites(p, g, bufF)
			if ioAdaptor(gws) {
				ioAd = true
			}
			if g != fn {
				bindAgreeing(g, p.helperSites(g))
			}
			ws = append(ws, gws...)
		}
		if ioAd {
			continue // I/O adaptors (ReadFrom, WriteTo, CopyFromSocket): not covered (DESIGN.md)
		}
		recv := ssa.Value(fn.Params[0])
		name := "ring." + fn.Name()
		type vstore struct {
			st     *ssa.Store
			guards []Guard
			lifted ssa.Instruction // the store itself, or the call in fn through which it is reached
			val    ssa.Value
		}
		var emptyStores, rStores []vstore
		p.virtualInstrs(fn, func(in ssa.Instruction) {
			st, ok := in.(*ssa.Store)
			if !ok {
				return
			}
			fa, ok := st.Addr.(*ssa.FieldAddr)
			if !ok || strip(fa.X) != recv {
				return
			}
			li := lift(in, fn)
			if li == nil {
				li = in
			}
			v := vstore{st: st, guards: guardsOf(in), lifted: li, val: through(st.Val)}
			switch fieldVar(fa.X.Type(), fa.Field) {
			case emptyF:
				if cv, ok := strip(st.Val).(*ssa.Const); ok && !constBool(cv) {
					emptyStores = append(emptyStores, v)
				}
			case rF:
				rStores = append(rStores, v)
			}
		})
		// (a) marked non-empty only when a byte was added
		for _, s := range emptyStores {
			nE++
			c.touch(fn)
			c.examined(len(fn.Blocks))
			added, why := false, ""
			for _, w := range ws {
				if w.src == nil {
					if lw := lift(w.in, fn); lw != nil && (dominatesInstr(lw, s.lifted) || (lw.Block() == s.lifted.Block() && instrIndex(lw) < instrIndex(s.lifted))) {
						added, why = true, "an element store precedes it"
					}
				}
			}
			for _, g := range s.guards {
				x, op, y, ok := cmpGuard(g)
				if !ok {
					continue
				}
				pos := func(v ssa.Value) bool {
					v = strip(v)
					if call, ok := v.(*ssa.Call); ok {
						if b, ok := call.Call.Value.(*ssa.Builtin); ok && b.Name() == "len" {
							for _, w := range ws {
								if w.src != nil && rootOf(w.src) == strip(call.Call.Args[0]) {
									return true // the length of what is copied in
								}
							}
						}
					}
					if base, ok := fieldLoad(v, wF); ok && strip(base) == recv && fn == grow {
						return true // grow: w is the number of bytes moved
					}
					return false
				}
				switch {
				case pos(x) && isZero(y) && (op == token.NEQ || op == token.GTR):
					added, why = true, g.String()
				case pos(y) && isZero(x) && (op == token.NEQ || op == token.LSS):
					added, why = true, g.String()
				case pos(x) && isOne(y) && op == token.GEQ:
					added, why = true, g.String()
				}
			}
			c.check(added, name+": marked non-empty only after a byte was added", c.at(s.st), why,
				"isEmpty is set to false on a path where no byte was necessarily added; with r == w that state means FULL, so Buffered() reports size bytes of garbage that are then delivered to the decoder or the socket", withGuards(s.guards))
		}
		// (b) a read cursor that can reach the write cursor resets the ring
		if fn == reset || fn == grow {
			continue
		}
		advances := false
		dependsOnR := func(v ssa.Value) bool {
			found := false
			var walk func(v ssa.Value, d int)
			walk = func(v ssa.Value, d int) {
				if found || d > 6 || v == nil {
					return
				}
				v = strip(v)
				if base, ok := fieldLoad(v, rF); ok && strip(base) == recv {
					found = true
					return
				}
				switch x := v.(type) {
				case *ssa.BinOp:
					walk(x.X, d+1)
					walk(x.Y, d+1)
				case *ssa.Phi:
					for _, e := range x.Edges {
						walk(e, d+1)
					}
				}
			}
			walk(v, 0)
			return found
		}
		for _, s := range rStores {
			if dependsOnR(s.val) {
				advances = true
			}
		}
		if !advances {
			continue // r is only set to a constant (Reset-like, compaction): nothing is consumed here
		}
		// the `r == w` → Reset() tests of the family, lifted into fn
		type catchTest struct {
			at     ssa.Instruction
			resets bool
		}
		var tests []catchTest
		p.virtualInstrs(fn, func(in ssa.Instruction) {
			ifi, ok := in.(*ssa.If)
			if !ok {
				return
			}
			bo, ok := ifi.Cond.(*ssa.BinOp)
			if !ok || bo.Op != token.EQL {
				return
			}
			bx, okx := fieldLoad(bo.X, rF)
			by, oky := fieldLoad(bo.Y, wF)
			if !okx || !oky {
				bx, okx = fieldLoad(bo.Y, rF)
				by, oky = fieldLoad(bo.X, wF)
			}
			if !okx || !oky || strip(bx) != recv || strip(by) != recv {
				return
			}
			ib := ifi.Block()
			resets := false
			for _, rcall := range p.callsIn(ifi.Parent(), reset) {
				if rcall.Parent() == ifi.Parent() && edgeDominates(ib, ib.Succs[0], rcall.Block()) {
					resets = true
				}
			}
			// inside a helper the test must be on every way out of the helper after it is reached
			if ifi.Parent() != fn {
				for _, r := range returnsReachable(ifi.Parent()) {
					if !ib.Dominates(r.Block()) {
						return
					}
				}
			}
			li := lift(in, fn)
			if li == nil {
				li = in
			}
			tests = append(tests, catchTest{at: li, resets: resets})
		})
		for _, s := range rStores {
			nR++
			c.touch(fn)
			// (A) strictly fewer than buffered are consumed
			strict := false
			for _, g := range s.guards {
				x, op, y, ok := cmpGuard(g)
				if !ok {
					continue
				}
				if op == token.GTR {
					x, y, op = y, x, token.LSS
				}
				if op != token.LSS {
					continue
				}
				if _, is := p.isCallTo(strip(y), buffered); !is {
					continue
				}
				if bo, ok := strip(s.val).(*ssa.BinOp); ok && bo.Op == token.REM {
					if sum, ok := strip(bo.X).(*ssa.BinOp); ok && sum.Op == token.ADD && (strip(sum.Y) == strip(x) || strip(sum.X) == strip(x)) {
						if _, ok := fieldLoad(bo.Y, sizeF); ok {
							strict = true
						}
					}
				}
			}
			// (B) every way out after the store passes a test r == w whose true edge resets
			caught := false
			for _, t := range tests {
				if !t.resets {
					continue
				}
				after := t.at == s.lifted || canReach(s.lifted, t.at) || (t.at.Block() == s.lifted.Block() && instrIndex(s.lifted) <= instrIndex(t.at))
				if !after {
					continue
				}
				all := true
				for _, r := range returnsReachable(fn) {
					if canReach(s.lifted, r) && !(t.at.Block().Dominates(r.Block())) {
						all = false
					}
				}
				if all {
					caught = true
				}
			}
			c.check(strict || caught, name+": read cursor catching up resets the ring", c.at(s.st),
				"either fewer bytes than Buffered() are consumed, or `r == w` → Reset() is on every way out",
				"the read cursor is advanced and can become equal to the write cursor without the ring being reset to empty: r == w with isEmpty == false means FULL, so after consuming everything the ring reports size bytes of stale data (the decoder re-reads old requests; the socket is sent old replies)", withGuards(s.guards))
		}
	}
	if nE < 3 {
		c.undecided("ring isEmpty=false sites", "-", fmt.Sprintf("%d found (Write, WriteByte, grow expected)", nE))
	}
	if nR < 3 {
		c.undecided("ring read-cursor advances", "-", fmt.Sprintf("%d found (Read ×2, ReadByte ×2, Discard expected)", nR))
	}
}

func canReachInstr(a, b ssa.Instruction) bool { return canReach(a, b) }

// ---------------------------------------------------------------------------------------------
// C19.6

// resultPairs lists, for a function returning (head, tail) slices, the value pairs that can be returned
// together: phis in one block are split edge by edge, a tuple passed on from a callee of the same package is followed.
func resultPairs(p *Prog, fn *ssa.Function, depth int) [][2]ssa.Value {
	var out [][2]ssa.Value
	if depth > 3 {
		return nil
	}
	for _, r := range returnsReachable(fn) {
		rs := results(r.(*ssa.Return))
		if len(rs) != 2 {
			continue
		}
		h, t := rs[0], rs[1]
		he, hok := h.(*ssa.Extract)
		te, tok := t.(*ssa.Extract)
		if hok && tok && he.Tuple == te.Tuple && he.Index == 0 && te.Index == 1 {
			if call, ok := he.Tuple.(*ssa.Call); ok {
				if g := call.Call.StaticCallee(); g != nil && g.Blocks != nil && calleePkg(g) == calleePkg(fn) {
					out = append(out, resultPairs(p, g, depth+1)...)
					continue
				}
			}
		}
		hp, hIsPhi := h.(*ssa.Phi)
		tp, tIsPhi := t.(*ssa.Phi)
		switch {
		case hIsPhi && tIsPhi && hp.Block() == tp.Block():
			for i := range hp.Edges {
				out = append(out, [2]ssa.Value{hp.Edges[i], tp.Edges[i]})
			}
		case hIsPhi && !tIsPhi:
			for i := range hp.Edges {
				out = append(out, [2]ssa.Value{hp.Edges[i], t})
			}
		case !hIsPhi && tIsPhi:
			for i := range tp.Edges {
				out = append(out, [2]ssa.Value{h, tp.Edges[i]})
			}
		default:
			out = append(out, [2]ssa.Value{h, t})
		}
	}
	return out
}

func ruleC19_6(c *Ctx) {
	p := c.P
	bufF := p.Field(pkgRing, "Buffer", "buf")
	rF := p.Field(pkgRing, "Buffer", "r")
	sizeF := p.Field(pkgRing, "Buffer", "size")
	if bufF == nil || rF == nil || sizeF == nil {
		c.undecided("ring fields", "-", "ring.Buffer fields not found")
		return
	}
	storageSlice := func(v ssa.Value) (*ssa.Slice, bool) {
		sl, ok := strip(v).(*ssa.Slice)
		if !ok {
			return nil, false
		}
		if _, is := fieldLoad(sl.X, bufF); !is {
			return nil, false
		}
		return sl, true
	}
	isR := func(v ssa.Value) bool {
		if v == nil {
			return false
		}
		_, ok := fieldLoad(v, rF)
		return ok
	}
	// (a) Peek / peekAll: (storage[r:…], storage[:…]); with a tail the head runs to the end of the storage
	for _, m := range []string{"Peek", "peekAll"} {
		fn := c.needMethod(pkgRing, "Buffer", m)
		if fn == nil {
			continue
		}
		c.examined(len(fn.Blocks))
		pairs := resultPairs(p, fn, 0)
		okAll, nTail := len(pairs) > 0, 0
		why := ""
		for _, pr := range pairs {
			h, t := pr[0], pr[1]
			if !isNilConst(h) {
				sl, ok := storageSlice(h)
				if !ok || !isR(sl.Low) {
					okAll, why = false, "head is "+expr(h)
				}
			}
			if !isNilConst(t) {
				nTail++
				sl, ok := storageSlice(t)
				if !ok || !(sl.Low == nil || isZero(sl.Low)) {
					okAll, why = false, "tail is "+expr(t)
				}
				hs, ok := storageSlice(h)
				if !ok || !isR(hs.Low) {
					okAll, why = false, "tail without a head from r"
				} else if hs.High != nil {
					if _, toEnd := fieldLoad(hs.High, sizeF); !toEnd {
						okAll, why = false, "head "+expr(h)+" does not run to the end of the storage although a tail follows"
					}
				}
			}
		}
		c.check(okAll && nTail > 0, "ring."+m+": wrapped content is (storage from r, storage from 0)", p.pos(fn.Pos()),
			fmt.Sprintf("%d result pairs, %d with a tail", len(pairs), nTail),
			"the two segments of a wrapped ring are not returned as (storage[r:], storage[:k]) in that order ("+why+"): every consumer concatenates head then tail, so the bytes reach the decoder or the socket out of order")
	}
	// (b) Read: the second copy of a wrapped read lands right behind the first
	if fn := c.needMethod(pkgRing, "Buffer", "Read"); fn != nil {
		c.examined(len(fn.Blocks))
		dst := ssa.Value(fn.Params[1])
		type cp struct {
			in       *ssa.Call
			dLow     ssa.Value
			src      *ssa.Slice
			dstIsArg bool
		}
		var cps []cp
		p.allInstrsDeep(fn, func(in ssa.Instruction) {
			call, ok := in.(*ssa.Call)
			if !ok {
				return
			}
			if b, ok := call.Call.Value.(*ssa.Builtin); !ok || b.Name() != "copy" {
				return
			}
			src, ok := storageSlice(call.Call.Args[1])
			if !ok {
				return
			}
			x := cp{in: call, src: src}
			d := strip(call.Call.Args[0])
			if d == dst {
				x.dstIsArg = true
			} else if sl, ok := d.(*ssa.Slice); ok && strip(sl.X) == dst {
				x.dstIsArg, x.dLow = true, sl.Low
			}
			cps = append(cps, x)
		})
		nWrap := 0
		for _, x := range cps {
			if !(x.src.Low == nil || isZero(x.src.Low)) {
				// a head copy: from r into the start of p
				c.check(isR(x.src.Low) && x.dstIsArg && (x.dLow == nil || isZero(x.dLow)), "ring.Read: first segment copied from r to the start of p", c.at(x.in), "copy(p, storage[r:…])",
					"a read copies from "+expr(x.src)+" to an offset of p: the bytes handed out are not the oldest buffered bytes in order")
				continue
			}
			nWrap++
			// tail copy: dst = p[size-r:], after a head copy storage[r:] → p
			rc := &ringCtx{p: p, recv: fn.Params[0], sizeF: sizeF}
			okOff := false
			if x.dLow != nil {
				l := rc.lin(x.dLow, 0)
				okOff = l.ok && l.k == 0 && l.coef["size"] == 1 && l.coef["?"+expr(mustFieldLoadExpr(fn, rF))] == -1
				if !okOff {
					// r appears as an opaque atom named by its expression
					okOff = l.ok && l.k == 0 && l.coef["size"] == 1 && countNeg(l) == 1
				}
			}
			headFirst := false
			for _, y := range cps {
				if y.in != x.in && isR(y.src.Low) && y.src.High == nil && y.dstIsArg && y.dLow == nil && dominatesInstr(y.in, x.in) {
					headFirst = true
				}
			}
			c.check(okOff && headFirst, "ring.Read: wrapped read continues behind the first segment", c.at(x.in), "copy(p, storage[r:]); copy(p[size-r:], storage[:k])",
				"the second part of a wrapped read is not placed at offset size-r of the destination, after the part copied from r to the end of the storage: bytes overlap or leave a gap in what the reader receives")
		}
		if nWrap < 1 {
			c.undecided("ring.Read: wrapped case", p.pos(fn.Pos()), "no copy from the start of the storage found")
		}
	}
	// (c) connection Peek / Next: ring head, ring tail, then the fresh read buffer
	ringPeek := p.Method(pkgElastic, "RingBuffer", "Peek")
	bufferF := p.Field(pkgCore, "conn", "buffer")
	for _, m := range []string{"Peek", "Next"} {
		fn := c.needMethod(pkgCore, "conn", m)
		if fn == nil || ringPeek == nil || bufferF == nil {
			continue
		}
		c.examined(len(fn.Blocks))
		// (the spanning half may live in a helper of the method: `return c.nextSpanning(n, inBufferLen), nil`)
		var pk []ssa.CallInstruction
		p.allInstrsDeep(fn, func(in ssa.Instruction) {
			if ci, ok := in.(ssa.CallInstruction); ok && ci.Common().StaticCallee() == ringPeek {
				pk = append(pk, ci)
			}
		})
		if len(pk) != 1 {
			c.undecided("conn."+m+": inbound ring peek", p.pos(fn.Pos()), fmt.Sprintf("%d calls of inboundBuffer.Peek", len(pk)))
			continue
		}
		var wHead, wTail, wFresh, reset ssa.Instruction
		extra := 0
		p.allInstrsDeep(fn, func(in ssa.Instruction) {
			call, ok := in.(*ssa.Call)
			if !ok || call.Call.IsInvoke() {
				return
			}
			callee := call.Call.StaticCallee()
			if callee == nil || calleePkg(callee) != "github.com/valyala/bytebufferpool" && calleePkg(callee) != "bytes" {
				return
			}
			switch callee.Name() {
			case "Reset":
				reset = in
			case "Write":
				a := strip(call.Call.Args[1])
				if ex, ok := a.(*ssa.Extract); ok && ex.Tuple == pk[0].Value() {
					if ex.Index == 0 {
						wHead = in
					} else {
						wTail = in
					}
					return
				}
				if sl, ok := a.(*ssa.Slice); ok {
					if _, is := fieldLoad(sl.X, bufferF); is && (sl.Low == nil || isZero(sl.Low)) {
						wFresh = in
						return
					}
				}
				extra++
			}
		})
		ok := reset != nil && wHead != nil && wTail != nil && wFresh != nil && extra == 0 &&
			dominatesInstr(reset, wHead) && dominatesInstr(wHead, wTail) && dominatesInstr(wTail, wFresh)
		c.check(ok, "conn."+m+": assembly order ring head, ring tail, fresh bytes", posOr(c, wHead, fn), "cache.Reset(); Write(head); Write(tail); Write(c.buffer[:remaining])",
			"a request that straddles the inbound ring (wrapped) and the fresh read buffer is not assembled as ring head + ring tail + fresh bytes into an emptied scratch buffer: the decoder sees the bytes of a split request in the wrong order, so framing depends on TCP segmentation")
	}
}

func countNeg(l linForm) int {
	n := 0
	for a, x := range l.coef {
		if x == -1 && a != "size" && a != "B" {
			n++
		} else if x != 0 && a != "size" {
			return -1
		}
	}
	return n
}

func mustFieldLoadExpr(fn *ssa.Function, f *types.Var) ssa.Value {
	var out ssa.Value
	allInstrs(fn, func(in ssa.Instruction) {
		if v, ok := in.(ssa.Value); ok && out == nil {
			if _, is := fieldLoad(v, f); is {
				out = v
			}
		}
	})
	return out
}

// ---------------------------------------------------------------------------------------------
// C19.7

func ruleC19_7(c *Ctx) {
	p := c.P
	ringF := p.Field(pkgElastic, "Buffer", "ringBuffer")
	listF := p.Field(pkgElastic, "Buffer", "listBuffer")
	if ringF == nil || listF == nil {
		c.undecided("elastic.Buffer fields", "-", "ringBuffer / listBuffer not found")
		return
	}
	rPeek := p.Method(pkgElastic, "RingBuffer", "Peek")
	rDiscard := p.Method(pkgElastic, "RingBuffer", "Discard")
	rBuffered := p.Method(pkgElastic, "RingBuffer", "Buffered")
	rEmpty := p.Method(pkgElastic, "RingBuffer", "IsEmpty")
	lPeekWB := p.Method(pkgLL, "Buffer", "PeekWithBytes")
	lDiscard := p.Method(pkgLL, "Buffer", "Discard")
	lBuffered := p.Method(pkgLL, "Buffer", "Buffered")
	lEmpty := p.Method(pkgLL, "Buffer", "IsEmpty")
	for _, f := range []*ssa.Function{rPeek, rDiscard, rBuffered, rEmpty, lPeekWB, lDiscard, lBuffered, lEmpty} {
		if f == nil {
			c.undecided("elastic/linkedlist methods", "-", "a method of elastic.RingBuffer or linkedlist.Buffer used by elastic.Buffer was not found")
			return
		}
	}
	extractOf := func(v ssa.Value, call ssa.Value, idx int) bool {
		ex, ok := strip(v).(*ssa.Extract)
		return ok && ex.Tuple == call && ex.Index == idx
	}
	// ---- Peek
	if fn := c.needMethod(pkgElastic, "Buffer", "Peek"); fn != nil {
		c.examined(len(fn.Blocks))
		rp := p.callsIn(fn, rPeek)
		okP := len(rp) == 1
		why := "no single ring Peek"
		if okP {
			call := rp[0].Value()
			n := 0
			for _, r := range returnsReachable(fn) {
				rv := strip(results(r.(*ssa.Return))[0])
				var elems []ssa.Value
				if lc, is := p.isCallTo(rv, lPeekWB); is {
					elems = varargElems(lc.Call.Args[len(lc.Call.Args)-1])
					// the same limit is handed on
					if expr(lc.Call.Args[1]) != expr(rp[0].Common().Args[1]) {
						okP, why = false, "PeekWithBytes is given another limit than the ring"
					}
				} else {
					elems = varargElems(rv)
				}
				n++
				if len(elems) != 2 || !extractOf(elems[0], call, 0) || !extractOf(elems[1], call, 1) {
					okP, why = false, "a return does not start with the ring's (head, tail) in that order"
				}
			}
			if n == 0 {
				okP = false
			}
		}
		c.check(okP, "elastic.Buffer.Peek: ring segments first, in order, then the list", p.pos(fn.Pos()), "{head, tail} or listBuffer.PeekWithBytes(n, head, tail)",
			"Peek does not list the ring's head and tail before the overflow list's nodes ("+why+"): the bytes written to the socket are not the oldest bytes, and the following Discard(n) removes different bytes than were sent")
	}
	// ---- PeekWithBytes: given segments before the nodes, into the truncated scratch vector
	{
		fn := lPeekWB
		c.touch(fn)
		c.examined(len(fn.Blocks))
		bsF := p.Field(pkgLL, "Buffer", "bs")
		var given, nodes *ssa.BasicBlock
		for _, sl := range rangeIndexLoops(fn) {
			if prm, ok := strip(sl.coll).(*ssa.Parameter); ok && prm.Parent() == fn {
				given = sl.loop.Header
			}
		}
		nodeT := p.Named(pkgLL, "node")
		// the traversal of the nodes, in PeekWithBytes itself or in a helper (then: where the helper is called)
		p.allInstrsDeep(fn, func(in ssa.Instruction) {
			if ph, ok := in.(*ssa.Phi); ok && nodeT != nil {
				if pt, ok := ph.Type().(*types.Pointer); ok && types.Identical(pt.Elem(), nodeT) {
					if li := lift(in, fn); li != nil {
						nodes = li.Block()
					}
				}
			}
		})
		var trunc ssa.Instruction
		if bsF != nil {
			for _, st := range storesTo(fn, bsF) {
				if sl, ok := strip(st.val).(*ssa.Slice); ok && sl.High != nil && isZero(sl.High) {
					if trunc == nil || dominatesInstr(st.in, trunc) {
						trunc = st.in
					}
				}
			}
		}
		ok := given != nil && nodes != nil && trunc != nil && given != nodes && given.Dominates(nodes) && !nodes.Dominates(given) &&
			trunc.Block().Dominates(given)
		c.check(ok, "linkedlist.PeekWithBytes: given segments precede the list's nodes", p.pos(fn.Pos()), "bs = bs[:0]; for range given {append}; for iter := head … {append}",
			"the segments handed in (the ring's head and tail) are not appended to the emptied scratch vector before the list's own nodes: the peeked byte sequence is not ring-then-list")
	}
	// ---- Discard
	if fn := c.needMethod(pkgElastic, "Buffer", "Discard"); fn != nil {
		c.examined(len(fn.Blocks))
		n := ssa.Value(fn.Params[1])
		rd := p.callsIn(fn, rDiscard)
		ld := p.callsIn(fn, lDiscard)
		ok := len(rd) == 1 && len(ld) == 1
		why := "one Discard per tier expected"
		if ok {
			rcall, lcall := rd[0].Value(), ld[0]
			if strip(rd[0].Common().Args[1]) != n {
				ok, why = false, "the ring is not asked to discard n"
			}
			if !dominatesInstr(rd[0].(ssa.Instruction), lcall.(ssa.Instruction)) {
				ok, why = false, "the list is drained before the ring"
			}
			// list gets n - discardedByRing
			bo, isB := strip(lcall.Common().Args[1]).(*ssa.BinOp)
			if !isB || bo.Op != token.SUB || strip(bo.X) != n || !extractOf(bo.Y, rcall, 0) {
				ok, why = false, "the list is asked to discard "+expr(lcall.Common().Args[1])+", not n minus what the ring discarded"
			}
			// only when the ring did not cover n
			if !guardHas(guardsAt(lcall.Block()), func(g Guard) bool {
				x, op, y, isC := cmpGuard(g)
				if !isC {
					return false
				}
				return (strip(x) == n && op == token.GTR && extractOf(y, rcall, 0)) || (strip(y) == n && op == token.LSS && extractOf(x, rcall, 0))
			}) {
				ok, why = false, "the list is drained although the ring covered n"
			}
			// the sum is reported
			sum := false
			for _, r := range returnsReachable(fn) {
				if !canReach(lcall.(ssa.Instruction), r) {
					continue
				}
				if b2, isB := strip(results(r.(*ssa.Return))[0]).(*ssa.BinOp); isB && b2.Op == token.ADD {
					if (extractOf(b2.X, rcall, 0) && extractOf(b2.Y, lcall.Value(), 0)) || (extractOf(b2.Y, rcall, 0) && extractOf(b2.X, lcall.Value(), 0)) {
						sum = true
					}
				}
			}
			if !sum {
				ok, why = false, "the reported count is not ring + list"
			}
		}
		c.check(ok, "elastic.Buffer.Discard: ring first, the list by the remainder", p.pos(fn.Pos()), "d = ring.Discard(n); if n > d { list.Discard(n-d) }; return d+m",
			"Discard does not drain the ring first and the overflow list by exactly the remainder ("+why+"): after a partial socket write the bytes removed are not the bytes that were sent, so replies are repeated or lost for a slow reader")
	}
	// ---- Buffered / IsEmpty cover both tiers
	if fn := c.needMethod(pkgElastic, "Buffer", "Buffered"); fn != nil {
		c.examined(len(fn.Blocks))
		ok := false
		for _, r := range returnsReachable(fn) {
			if bo, isB := strip(results(r.(*ssa.Return))[0]).(*ssa.BinOp); isB && bo.Op == token.ADD {
				_, a := p.isCallTo(strip(bo.X), rBuffered)
				_, b := p.isCallTo(strip(bo.Y), lBuffered)
				_, a2 := p.isCallTo(strip(bo.Y), rBuffered)
				_, b2 := p.isCallTo(strip(bo.X), lBuffered)
				ok = (a && b) || (a2 && b2)
			} else {
				ok = false
				break
			}
		}
		c.check(ok, "elastic.Buffer.Buffered: both tiers", p.pos(fn.Pos()), "ring.Buffered() + list.Buffered()", "the reported length is not the sum of both tiers")
	}
	if fn := c.needMethod(pkgElastic, "Buffer", "IsEmpty"); fn != nil {
		c.examined(len(fn.Blocks))
		// true only when both report empty: every `true` outcome implies both calls returned true
		ok := true
		n := 0
		for _, cs := range returnCases(fn, 0) {
			n++
			if k, isK := cs.val.(*ssa.Const); isK && k.Value != nil {
				if constBoolValue(k) {
					ok = false // an unconditional true
				}
				continue
			}
			// the value is one tier's answer; the other tier's must be a true fact on this edge
			_, isR := p.isCallTo(strip(cs.val), rEmpty)
			_, isL := p.isCallTo(strip(cs.val), lEmpty)
			other := false
			for _, g := range cs.facts {
				if _, r2 := p.isCallTo(g.Cond, rEmpty); r2 && g.Truth && isL {
					other = true
				}
				if _, l2 := p.isCallTo(g.Cond, lEmpty); l2 && g.Truth && isR {
					other = true
				}
			}
			if !(isR || isL) || !other {
				ok = false
			}
		}
		c.check(ok && n > 0, "elastic.Buffer.IsEmpty: both tiers", p.pos(fn.Pos()), "ring.IsEmpty() && list.IsEmpty()",
			"IsEmpty can report true while one tier still holds bytes: conn.write then writes new data straight to the socket, ahead of the buffered bytes (C01.5 relies on this predicate)")
	}
	// ---- the elastic.RingBuffer wrappers hand the call on unchanged
	ringT := p.Named(pkgRing, "Buffer")
	for _, m := range []string{"Peek", "Discard", "Write", "Buffered", "IsEmpty", "Reset"} {
		fn := c.needMethod(pkgElastic, "RingBuffer", m)
		if fn == nil || ringT == nil {
			continue
		}
		target := p.Method(pkgRing, "Buffer", m)
		if target == nil {
			c.undecided("ring.Buffer."+m, "-", "not found")
			continue
		}
		c.examined(len(fn.Blocks))
		calls := p.callsIn(fn, target)
		ok := len(calls) == 1
		if ok {
			cc := calls[0].Common()
			for i, prm := range fn.Params[1:] {
				if i+1 >= len(cc.Args) || strip(cc.Args[i+1]) != ssa.Value(prm) {
					ok = false
				}
			}
			// every return hands the call's results on, or is the empty case before the call
			for _, r := range returnsReachable(fn) {
				rs := results(r.(*ssa.Return))
				if !canReach(calls[0].(ssa.Instruction), r) {
					continue
				}
				for i, v := range rs {
					sv := strip(v)
					if len(rs) == 1 {
						if sv != calls[0].Value() {
							ok = false
						}
					} else if !extractOf(sv, calls[0].Value(), i) {
						ok = false
					}
				}
			}
		}
		c.check(ok, "elastic.RingBuffer."+m+" hands the call on to the ring unchanged", p.pos(fn.Pos()), "same arguments, same results",
			"the wrapper around the pooled ring does not pass "+m+" through with the same arguments and results")
	}
}

// ---------------------------------------------------------------------------------------------
// C19.8

func ruleC19_8(c *Ctx) {
	p := c.P
	grow := c.needMethod(pkgRing, "Buffer", "grow")
	bufF := p.Field(pkgRing, "Buffer", "buf")
	if grow == nil || bufF == nil {
		return
	}
	c.examined(len(grow.Blocks))
	bs := storesTo(grow, bufF)
	if len(bs) != 1 {
		c.undecided("ring.grow: storage replacement", p.pos(grow.Pos()), fmt.Sprintf("%d stores to rb.buf", len(bs)))
		return
	}
	var alloc ssa.Instruction
	var capv ssa.Value
	switch x := strip(bs[0].val).(type) {
	case *ssa.Call:
		if len(x.Call.Args) >= 1 {
			alloc, capv = x, x.Call.Args[len(x.Call.Args)-1]
		}
	case *ssa.MakeSlice:
		alloc, capv = x, x.Len
	}
	if alloc == nil {
		c.undecided("ring.grow: allocation", c.at(bs[0].in), "the new storage is neither a pool Get(n) nor make([]byte, n)")
		return
	}
	want := ssa.Value(grow.Params[1])
	loopHeaders := map[*ssa.BasicBlock]bool{}
	for _, l := range loopsOf(grow) {
		loopHeaders[l.Header] = true
	}
	target := alloc.Block()
	paths, complete := feasiblePaths(grow.Blocks[0], func(b *ssa.BasicBlock) bool { return b == target }, 500)
	if grow.Blocks[0] == target {
		paths = append(paths, []*ssa.BasicBlock{target})
	}
	okAll := complete && len(paths) > 0
	why := ""
	for _, pa := range paths {
		// resolve the phi of the capacity along the path, but keep loop variables symbolic
		k := capv
		for i := 0; i < 6; i++ {
			ph, ok := k.(*ssa.Phi)
			if !ok || loopHeaders[ph.Block()] {
				break
			}
			var nk ssa.Value
			pb := ph.Block()
			for j := len(pa) - 1; j > 0 && nk == nil; j-- {
				if pa[j] == pb {
					for e, pr := range pb.Preds {
						if pr == pa[j-1] {
							nk = ph.Edges[e]
						}
					}
				}
			}
			if nk == nil {
				break
			}
			k = nk
		}
		if strip(k) == want {
			continue
		}
		if call, ok := strip(k).(*ssa.Call); ok && staticCalleeName(&call.Call) == "rcproxy/core/internal/toolkit.CeilToPowerOfTwo" && strip(call.Call.Args[0]) == want {
			continue
		}
		// a fact on the path: want <= k
		okP := false
		for i := 0; i+1 < len(pa); i++ {
			g, ok := edgeFact(pa[i], pa[i+1])
			if !ok {
				continue
			}
			x, op, y, isC := cmpGuard(g)
			if !isC {
				continue
			}
			same := func(a, b ssa.Value) bool {
				if ka, okA := constInt(a); okA {
					kb, okB := constInt(b)
					return okB && ka == kb
				}
				return strip(a) == strip(b)
			}
			if same(x, want) && same(y, k) && (op == token.LEQ || op == token.LSS) {
				okP = true
			}
			if same(x, k) && same(y, want) && (op == token.GEQ || op == token.GTR) {
				okP = true
			}
		}
		if !okP {
			okAll, why = false, "on a path the storage is allocated with "+expr(k)+" without `newCap <= "+expr(k)+"` having been established"
		}
	}
	c.check(okAll, "ring.grow: capacity obtained >= capacity asked for", c.at(alloc), fmt.Sprintf("%d paths through the sizing policy", len(paths)),
		"grow can allocate less than the capacity it was asked for ("+why+"): the caller established room for its write through grow, so the following copy overruns the storage or overwrites unread bytes")
}

package main

// Rules that extend what is decided behind C04, C08, C12, C17, C18 (added after the first complete pass).

import (
	"fmt"
	"go/token"
	"strings"

	"golang.org/x/tools/go/ssa"
)

func init() {
	rule("C04.7", "E3+E4+E6", "handshake replies are consumed before any reply is matched to a client request: a connection that sends a handshake is Initializing, the reply decoder runs the handshake decoder first and only a complete +OK prefix ends it", 6, ruleC04_7)
	rule("C08.5", "E8", "the bytes handed to the decoders are exactly the bytes the read system call returned", 2, ruleC08_5)
	rule("C12.4", "E4", "parseLen rejects every byte outside '0'..'9' as invalid RESP", 1, ruleC12_4)
	rule("C17.7", "E4", "arity and lookup decisions: a fixed-arity command is rejected unless n equals its class, and a name that is not in the table is UNKNOWN", 2, ruleC17_7)
}

func ruleC04_7(c *Ctx) {
	p := c.P
	so := c.needMethod(pkgServer, "listenServer", "OnSOpened")
	sread := c.needMethod(pkgCore, "conn", "sread")
	idec := c.needMethod(pkgCore, "SRespCodec", "InitializingDecode")
	sdec := c.needMethod(pkgCore, "SRespCodec", "Decode")
	if so == nil || sread == nil || idec == nil || sdec == nil {
		return
	}
	initializing, _ := p.ConstInt(pkgCore, "Initializing")
	initialized, _ := p.ConstInt(pkgCore, "Initialized")
	// (a) OnSOpened, path by path: the last SetInitializeStatus before the return says Initializing exactly when the
	//     returned handshake is not nil (the values may be computed first and passed on: phis are resolved along the path)
	isRet := func(b *ssa.BasicBlock) bool { _, ok := b.Instrs[len(b.Instrs)-1].(*ssa.Return); return ok }
	paths, complete := feasiblePaths(so.Blocks[0], isRet, 2000)
	if isRet(so.Blocks[0]) {
		paths = append(paths, []*ssa.BasicBlock{so.Blocks[0]})
	}
	c.examined(len(paths))
	nSent, nNone, badSent, badNone := 0, 0, "", ""
	for _, pa := range paths {
		r := pa[len(pa)-1].Instrs[len(pa[len(pa)-1].Instrs)-1].(*ssa.Return)
		out := valueOnPath(results(r)[0], pa)
		var last *ssa.Call
		for _, b := range pa {
			for _, in := range b.Instrs {
				if call, ok := in.(*ssa.Call); ok && call.Call.IsInvoke() && call.Call.Method.Name() == "SetInitializeStatus" && strip(call.Call.Value) == ssa.Value(so.Params[1]) {
					last = call
				}
			}
		}
		status := int64(-1)
		if last != nil {
			if k, isK := constInt(valueOnPath(last.Call.Args[0], pa)); isK {
				status = k
			}
		}
		if isNilConst(out) {
			nNone++
			if status != initialized {
				badNone = c.at(r)
			}
		} else {
			nSent++
			if status != initializing {
				badSent = c.at(r)
			}
		}
	}
	if !complete {
		c.undecided("OnSOpened: paths", p.pos(so.Pos()), "too many paths")
	}
	msgA := "a backend connection that sends AUTH/READONLY is not put in the Initializing state (or one that sends nothing is): the handshake's +OK is matched to the first client request on that connection, and every later reply is shifted by one"
	c.check(nSent > 0 && badSent == "", "OnSOpened: handshake sent ⇒ Initializing", p.pos(so.Pos()), fmt.Sprintf("%d paths return a handshake, each after SetInitializeStatus(Initializing)", nSent), msgA+" (return at "+badSent+")")
	c.check(nNone > 0 && badNone == "", "OnSOpened: no handshake ⇒ Initialized", p.pos(so.Pos()), fmt.Sprintf("%d paths return nothing, each after SetInitializeStatus(Initialized)", nNone), msgA+" (return at "+badNone+")")
	// (b) conn.sread: InitializingDecode under status == Initializing, before Decode, its error returned
	ic := p.callsIn(sread, idec)
	dc := p.callsIn(sread, sdec)
	if len(ic) != 1 || len(dc) != 1 {
		c.bad("conn.sread: handshake decoder before the reply decoder", p.pos(sread.Pos()), fmt.Sprintf("expected one InitializingDecode and one Decode call, found %d and %d", len(ic), len(dc)))
	} else {
		gs := guardsOf(ic[0])
		okG := guardHas(gs, func(g Guard) bool {
			_, op, y, ok := cmpGuard(g)
			k, isK := constInt(y)
			return ok && op == token.EQL && isK && k == initializing
		})
		before := canReach(ic[0].(ssa.Instruction), dc[0].(ssa.Instruction)) && !canReach(dc[0].(ssa.Instruction), ic[0].(ssa.Instruction))
		// its error leaves the function
		errRet := false
		allInstrs(sread, func(in ssa.Instruction) {
			if r, ok := in.(*ssa.Return); ok {
				if results(r)[1] == ic[0].Value() {
					errRet = true
				}
			}
		})
		c.check(okG && before && errRet, "conn.sread: handshake decoder before the reply decoder", c.at(ic[0]), "InitializingDecode on status == Initializing, before Decode, error returned",
			"the handshake replies are not consumed (under status == Initializing, before the normal decoder, returning on error): they are decoded as replies to client requests", withGuards(gs))
	}
	// (c) InitializingDecode: Initialized only after the complete prefix was seen and discarded
	c.examined(len(idec.Blocks))
	for _, b := range idec.Blocks {
		for _, in := range b.Instrs {
			call, ok := in.(*ssa.Call)
			if !ok || !call.Call.IsInvoke() || call.Call.Method.Name() != "SetInitializeStatus" {
				continue
			}
			gs := guardsAt(b)
			hasPrefix := guardHas(gs, func(g Guard) bool {
				cl, ok := g.Cond.(*ssa.Call)
				return ok && g.Truth && staticCalleeName(&cl.Call) == "strings.HasPrefix" && strings.Contains(expr(cl.Call.Args[1]), "ShortcutOK")
			})
			enough := guardHas(gs, func(g Guard) bool {
				_, op, y, ok := cmpGuard(g)
				ey := expr(y)
				return ok && op == token.GEQ && strings.Contains(ey, "InitializeStep") && strings.Contains(ey, " * ")
			})
			discards := false
			for _, in2 := range b.Instrs {
				if c2, ok := in2.(*ssa.Call); ok && c2.Call.IsInvoke() && c2.Call.Method.Name() == "Discard" {
					discards = true
				}
			}
			c.check(hasPrefix && enough && discards, "InitializingDecode: Initialized only after all +OK were seen and consumed", c.at(in), "behind TotalSize >= step*len(+OK) and HasPrefix(buffer, ShortcutOK[step]), with the Discard",
				"the connection is declared initialised without having seen and consumed the complete run of +OK replies: a partial handshake reply is decoded as a client's reply", withGuards(gs))
		}
	}
	// (c2) "wait for more" is decided by: what has arrived is a prefix of what is expected (not the other way round)
	{
		incomplete := p.Global("rcproxy/core/pkg/errors", "ErrIncompletePacket")
		found, okP := false, true
		var at ssa.Instruction
		allInstrs(idec, func(in ssa.Instruction) {
			r, ok := in.(*ssa.Return)
			if !ok {
				return
			}
			ld, ok := results(r)[0].(*ssa.UnOp)
			if !ok || incomplete == nil || ld.X != ssa.Value(incomplete) {
				return
			}
			for _, g := range guardsAt(r.Block()) {
				cl, ok := g.Cond.(*ssa.Call)
				if !ok || !g.Truth || staticCalleeName(&cl.Call) != "strings.HasPrefix" {
					continue
				}
				found, at = true, in
				if !strings.Contains(expr(cl.Call.Args[0]), "ShortcutOK") || strings.Contains(expr(cl.Call.Args[1]), "ShortcutOK") {
					okP = false
				}
			}
		})
		if found {
			c.check(okP, "InitializingDecode: partial handshake reply waits", c.at(at), "HasPrefix(expected, received) ⇒ incomplete",
				"the test for a partly arrived handshake reply has its arguments the wrong way round (received has the expected text as prefix - which the branch above already handled - instead of expected having the received bytes as prefix): a two-step handshake whose +OK replies arrive in different reads is not waited for, the first +OK is matched to the first client request on that connection and every later reply is shifted")
		} else {
			c.undecided("InitializingDecode: partial handshake reply waits", p.pos(idec.Pos()), "no ErrIncompletePacket return under a HasPrefix test found")
		}
	}
	// (d) ShortcutOK[n] is n times +OK
	if rows, ok := p.mapLiteralExprs(pkgCore, "ShortcutOK"); ok {
		for k, v := range rows {
			c.check(strings.Count(v, "OK") == int(k) && strings.Count(v, "OK") > 0, fmt.Sprintf("ShortcutOK[%d]", k), "-", v, fmt.Sprintf("ShortcutOK[%d] is not %d concatenated +OK replies: %s", k, k, v))
		}
	} else {
		c.undecided("ShortcutOK table", "-", "not a map literal")
	}
}

// mapLiteralExprs renders the values of a package-level map literal with integer keys as source-like strings.
func (p *Prog) mapLiteralExprs(pkg, name string) (map[int64]string, bool) {
	vs, idx, pk := p.VarDecl(pkg, name)
	if vs == nil || idx >= len(vs.Values) {
		return nil, false
	}
	out := map[int64]string{}
	ok := true
	astInspectKV(vs.Values[idx], func(k, v interface{ Pos() token.Pos }) {
		_ = k
		_ = v
	})
	cl, isCL := vs.Values[idx].(interface{})
	_ = cl
	_ = isCL
	return compositeIntKeys(pk, vs.Values[idx], out), ok
}

func ruleC08_5(c *Ctx) {
	p := c.P
	rd := c.needMethod(pkgCore, "eventloop", "read")
	if rd == nil {
		return
	}
	c.examined(len(rd.Blocks))
	bufF := p.Field(pkgCore, "conn", "buffer")
	elBuf := p.Field(pkgCore, "eventloop", "buffer")
	var sys *ssa.Call
	allInstrs(rd, func(in ssa.Instruction) {
		if call, ok := in.(*ssa.Call); ok && staticCalleeName(&call.Call) == "golang.org/x/sys/unix.Read" {
			sys = call
		}
	})
	if sys == nil {
		c.undecided("eventloop.read: read system call", p.pos(rd.Pos()), "unix.Read not found")
		return
	}
	_, intoEl := fieldLoad(sys.Call.Args[1], elBuf)
	c.check(intoEl, "eventloop.read reads into the loop's buffer", c.at(sys), "unix.Read(c.fd, el.buffer)", "the read system call does not fill the event loop's read buffer")
	n := 0
	for _, w := range p.fieldWrites(bufF) {
		if homeFn(w.Fn) != rd {
			continue
		}
		n++
		okS := false
		if sl, ok := w.Val.(*ssa.Slice); ok && (sl.Low == nil || isZero(sl.Low)) && sl.High != nil {
			if _, is := fieldLoad(sl.X, elBuf); is {
				if ex, ok := sl.High.(*ssa.Extract); ok && ex.Tuple == ssa.Value(sys) && ex.Index == 0 {
					okS = true
				}
			}
		}
		// on the path where something was read: err == nil and n != 0
		gs := guardsOf(w.Instr)
		okG := guardHas(gs, func(g Guard) bool {
			x, op, y, ok := cmpGuard(g)
			ex, isEx := x.(*ssa.Extract)
			return ok && isEx && ex.Tuple == ssa.Value(sys) && ex.Index == 1 && op == token.EQL && isNilConst(y)
		})
		c.check(okS && okG, "eventloop.read: c.buffer = el.buffer[:n]", c.at(w.Instr), "exactly the n bytes returned by the read, on its success edge",
			"the connection's fresh bytes are not el.buffer[:n] with n the result of this read (on err == nil): the decoders see stale bytes of another connection's read or miss the tail of this one", withGuards(gs))
	}
	if n == 0 {
		c.bad("eventloop.read: c.buffer = el.buffer[:n]", p.pos(rd.Pos()), "the fresh bytes are never handed to the connection")
	}
}

func ruleC12_4(c *Ctx) {
	p := c.P
	fn := c.need(pkgCore + ".parseLen")
	if fn == nil {
		return
	}
	c.examined(len(fn.Blocks))
	invalid := p.Global(pkgCodec, "ErrInvalidResp")
	lo, hi := false, false
	allInstrs(fn, func(in ssa.Instruction) {
		r, ok := in.(*ssa.Return)
		if !ok {
			return
		}
		rs := results(r)
		ld, ok := rs[len(rs)-1].(*ssa.UnOp)
		if !ok || ld.X != ssa.Value(invalid) {
			return
		}
		for _, g := range decidingConds(r.Block(), 0) {
			x, op, y, ok := cmpGuard(g)
			k, isK := constInt(y)
			if !ok || !isK || !c.contentDerived(x) {
				continue
			}
			if (op == token.LSS && k == '0') || (op == token.LEQ && k == '0'-1) {
				lo = true
			}
			if (op == token.GTR && k == '9') || (op == token.GEQ && k == '9'+1) {
				hi = true
			}
		}
	})
	if !(lo && hi) {
		// positive form: a byte is accumulated into the number only under '0' <= b && b <= '9' (a predicate such as
		// isDigit(b) is expanded by the guard engine), and the loop has an ErrInvalidResp exit
		hasInvalid := false
		allInstrs(fn, func(in ssa.Instruction) {
			if r, ok := in.(*ssa.Return); ok {
				rs := results(r)
				if ld, ok := rs[len(rs)-1].(*ssa.UnOp); ok && ld.X == ssa.Value(invalid) {
					hasInvalid = true
				}
			}
		})
		accLo, accHi, nAcc := true, true, 0
		allInstrs(fn, func(in ssa.Instruction) {
			bo, ok := in.(*ssa.BinOp)
			if !ok || bo.Op != token.SUB {
				return
			}
			if k, isK := constInt(bo.Y); !isK || k != '0' || !c.contentDerived(bo.X) {
				return
			}
			nAcc++
			gl, gh := false, false
			for _, g := range guardsAt(bo.Block()) {
				x, op, y, ok := cmpGuard(g)
				if !ok {
					continue
				}
				if k, isK := constInt(y); isK && c.contentDerived(strip(x)) {
					if (op == token.GEQ && k == '0') || (op == token.GTR && k == '0'-1) {
						gl = true
					}
					if (op == token.LEQ && k == '9') || (op == token.LSS && k == '9'+1) {
						gh = true
					}
				}
				if k, isK := constInt(x); isK && c.contentDerived(strip(y)) {
					if (op == token.LEQ && k == '0') || (op == token.LSS && k == '0'-1) {
						gl = true
					}
					if (op == token.GEQ && k == '9') || (op == token.GTR && k == '9'+1) {
						gh = true
					}
				}
			}
			accLo, accHi = accLo && gl, accHi && gh
		})
		if hasInvalid && nAcc > 0 && accLo && accHi {
			lo, hi = true, true
		}
	}
	c.check(lo && hi, "parseLen: non-digits are invalid", p.pos(fn.Pos()), "b < '0' || b > '9' ⇒ ErrInvalidResp",
		"parseLen does not reject every byte outside '0'..'9' as invalid RESP: lengths such as \"1x\" or \"+3\" are accepted and the raw header is forwarded to a backend, which closes the shared connection with a protocol error")
}

func ruleC17_7(c *Ctx) {
	p := c.P
	ca := c.need(pkgCodec + ".checkArgs")
	t2t := c.need(pkgCodec + ".Transform2Type")
	if ca == nil || t2t == nil {
		return
	}
	wrong, _ := p.ConstInt(pkgCodec, "ReqWrongArgumentsNumber")
	unknown, _ := p.ConstInt(pkgCodec, "UNKNOWN")
	// fixed classes: accepted only when int(nargs) == n
	_ = wrong
	byClass, unclassified, _ := c.arityClasses(ca)
	n := expr(ssa.Value(ca.Params[1]))
	okFixed := true
	nFixed := 0
	why := ""
	for k, cases := range byClass {
		if k < 0 {
			continue
		}
		nFixed++
		for _, ac := range cases {
			eq := false
			for key, v := range ac.facts {
				if !strings.Contains(key, "CommandType2ArgsNumber") || !strings.Contains(key, n) {
					continue
				}
				if (strings.Contains(key, " == "+n+")") && v) || (strings.Contains(key, " != "+n+")") && !v) {
					eq = true
				}
			}
			if !eq {
				okFixed = false
				why = describeFacts(ac.facts)
			}
		}
	}
	c.check(okFixed && nFixed >= 5 && len(unclassified) == 0, "checkArgs: fixed arity is an equality test", p.pos(ca.Pos()), fmt.Sprintf("int(nargs) == n on every accepting path of the %d fixed classes", nFixed),
		"a fixed-arity command is accepted although its argument count differs from its class (or a path accepts without any arity class): requests with missing or surplus arguments are forwarded ("+why+")")
	// the success return yields the command itself
	okSame := false
	allInstrs(ca, func(in ssa.Instruction) {
		if r, ok := in.(*ssa.Return); ok && strip(results(r)[0]) == ssa.Value(ca.Params[0]) {
			okSame = true
		}
	})
	c.check(okSame, "checkArgs: accepted command keeps its type", p.pos(ca.Pos()), "return command", "checkArgs does not return the command type it was given on success")
	// Transform2Type: lookup miss ⇒ UNKNOWN; hit ⇒ checkArgs(v, n)
	miss, hit := false, false
	allInstrs(t2t, func(in ssa.Instruction) {
		r, ok := in.(*ssa.Return)
		if !ok {
			return
		}
		v := results(r)[0]
		gs := guardsOf(r)
		found := func(truth bool) bool {
			return guardHas(gs, func(g Guard) bool {
				ex, ok := g.Cond.(*ssa.Extract)
				if !ok || ex.Index != 1 || g.Truth != truth {
					return false
				}
				_, isLk := ex.Tuple.(*ssa.Lookup)
				return isLk
			})
		}
		if k, isK := constInt(v); isK && k == unknown && found(false) {
			miss = true
		}
		if call, ok := v.(*ssa.Call); ok && call.Call.StaticCallee() == ca && found(true) && strip(call.Call.Args[1]) == ssa.Value(t2t.Params[1]) {
			if ex, ok := call.Call.Args[0].(*ssa.Extract); ok && ex.Index == 0 {
				hit = true
			}
		}
	})
	c.check(miss && hit, "Transform2Type: miss ⇒ UNKNOWN, hit ⇒ checkArgs(type, n)", p.pos(t2t.Pos()), "both edges of the table lookup", "a command name that is not in the table does not become UNKNOWN (or a known one is not arity-checked with the request's argument count): unsupported commands are forwarded")
}

package main

import (
	"fmt"
	"go/token"
	"go/types"
	"sort"
	"strings"

	"golang.org/x/tools/go/ssa"
)

func init() {
	rule("C02.1", "E2+E8", "Frag.Req is only ever built from the consumed request bytes (single-key), from re-encoded keys (multi-key) or from proxy command literals; never patched in place", 6, ruleC02_1)
	rule("C02.2", "E2+E8", "the only in-place mutation of the parse buffer during request decoding is the case fold of the command name", 3, ruleC02_2)
	rule("C02.3", "E2+E8", "reply bytes: Frag.RspBody is a copy of the decoded frame, Msg.RspBody of a single-key request is that copy unmodified", 5, ruleC02_3)
	rule("C02.4", "E3+E8", "both decoders consume exactly the bytes they parsed: one Discard(ReadSize()) of the decode buffer on the success path, none on error paths", 6, ruleC02_4)
	rule("C02.5", "E8", "partial socket writes spill exactly the unsent suffix, in order, into the outbound buffer", 6, ruleC02_5)
	rule("C02.6", "E8", "buffers copy the bytes they are given (callers recycle their slices right after the call)", 6, ruleC02_6)
}

// reachableFuncs returns the module functions reachable from roots through calls resolved by calleesOf
// and through closures created on the way.
func (p *Prog) reachableFuncs(roots ...*ssa.Function) []*ssa.Function {
	seen := map[*ssa.Function]bool{}
	var work []*ssa.Function
	push := func(f *ssa.Function) {
		if f == nil || seen[f] || f.Blocks == nil || !p.ownFunc(f) {
			return
		}
		seen[f] = true
		work = append(work, f)
	}
	for _, r := range roots {
		push(r)
	}
	for len(work) > 0 {
		f := work[len(work)-1]
		work = work[:len(work)-1]
		allInstrs(f, func(in ssa.Instruction) {
			if ci, ok := in.(ssa.CallInstruction); ok {
				fns, _ := p.calleesOf(ci.Common())
				for _, g := range fns {
					push(g)
				}
			}
			if mc, ok := in.(*ssa.MakeClosure); ok {
				if g, ok := mc.Fn.(*ssa.Function); ok {
					push(g)
				}
			}
		})
	}
	var out []*ssa.Function
	for f := range seen {
		out = append(out, f)
	}
	sort.Slice(out, func(i, j int) bool { return fnKey(out[i]) < fnKey(out[j]) })
	return out
}

// byteRootKind classifies where a []byte / string value ultimately comes from.
func (c *Ctx) byteRootKinds(v ssa.Value, self *types.Var) map[string][]string {
	return c.byteRootKindsDepth(v, self, 0)
}

func (c *Ctx) byteRootKindsDepth(v ssa.Value, self *types.Var, depth int) map[string][]string {
	p := c.P
	readBuf := p.Method(pkgCodec, "Buffer", "ReadBuf")
	kinds := map[string][]string{}
	roots := flowRoots(v, func(call *ssa.Call) []ssa.Value {
		n := staticCalleeName(&call.Call)
		switch n {
		case "rcproxy/core/pkg/utils.S2B", "rcproxy/core/pkg/utils.B2S":
			return call.Call.Args
		case "(rcproxy/core/codec.Error).Bytes", "(rcproxy/core/codec.Status).Bytes", "(rcproxy/core/codec.Error).String", "(rcproxy/core/codec.Status).String":
			return call.Call.Args
		case "strconv.AppendInt", "strconv.AppendUint":
			return call.Call.Args[:1] // dst with decimal digits appended
		}
		// a pure module helper (e.g. an extracted "append this encoded" function): its result is made of its arguments
		if f := call.Call.StaticCallee(); f != nil && p.inlinable(f) && p.isPure(f, 0) {
			return call.Call.Args
		}
		return nil
	})
	for _, r := range roots {
		k := "other"
		switch x := r.(type) {
		case *ssa.Const:
			k = "const"
		case *ssa.MakeSlice:
			k = "fresh"
		case *ssa.Alloc:
			k = "fresh"
		case *ssa.Call:
			n := staticCalleeName(&x.Call)
			switch {
			case readBuf != nil && x.Call.StaticCallee() == readBuf:
				k = "readbuf"
			case n == "strconv.Itoa":
				k = "itoa"
			case n == "fmt.Sprintf":
				k = "sprintf"
			default:
				k = "call:" + n
			}
		case *ssa.UnOp:
			if f, _, ok := anyFieldLoad(x); ok {
				if f == self {
					k = "self"
				} else {
					k = "field:" + f.Name()
				}
			} else if _, ok := x.X.(*ssa.Global); ok {
				k = "global:" + expr(x)
			} else if ia, ok := x.X.(*ssa.IndexAddr); ok {
				k = "elem:" + expr(ia.X)
			}
		case *ssa.Extract:
			k = "extract:" + expr(x)
		case *ssa.Parameter:
			k = "param:" + x.Name()
			// a parameter of a helper stands for what its call sites pass
			if h := x.Parent(); depth < 3 && p.isHelper(h) {
				idx := -1
				for i, prm := range h.Params {
					if prm == x {
						idx = i
					}
				}
				sites := p.helperSites(h)
				resolved := idx >= 0 && len(sites) > 0
				sub := map[string][]string{}
				for _, s := range sites {
					if s.Call == nil || idx >= len(s.Call.Args) {
						resolved = false
						break
					}
					saved := paramBind[x]
					delete(paramBind, x)
					for kk, vv := range c.byteRootKindsDepth(s.Call.Args[idx], self, depth+1) {
						sub[kk] = append(sub[kk], vv...)
					}
					if saved != nil {
						paramBind[x] = saved
					}
				}
				if resolved {
					for kk, vv := range sub {
						kinds[kk] = append(kinds[kk], vv...)
					}
					continue
				}
			}
		case *ssa.Lookup, *ssa.Index:
			k = "elem:" + expr(r)
		}
		if ex, ok := r.(*ssa.Extract); ok {
			if nx, ok := ex.Tuple.(*ssa.Next); ok {
				k = "rangeelem:" + expr(nx.Iter.(*ssa.Range).X)
			}
		}
		kinds[k] = append(kinds[k], expr(r))
	}
	return kinds
}

func kindList(m map[string][]string) string {
	var ks []string
	for k := range m {
		ks = append(ks, k)
	}
	sort.Strings(ks)
	return strings.Join(ks, ",")
}

// ---------------------------------------------------------------------------------------------
// C02.1

func ruleC02_1(c *Ctx) {
	p := c.P
	req := p.Field(pkgCore, "Frag", "Req")
	if req == nil {
		c.undecided("field Frag.Req", "-", "not found")
		return
	}
	def := p.Method(pkgCore, "CRespCodec", "Default")
	eval := p.Method(pkgCore, "CRespCodec", "Eval")
	ws := p.fieldWrites(req)
	c.examined(len(ws))
	seenVerbatim := map[*ssa.Function]bool{}
	for _, w := range ws {
		encl := homeFn(w.Fn)
		c.touch(encl)
		name := "Frag.Req write in " + shortFn(encl)
		if w.Kind != "store" {
			c.bad(name+" ("+w.Kind+")", c.at(w.Instr), "request bytes are modified in place after they were copied: what the backend receives differs from what the client sent")
			continue
		}
		kinds := c.byteRootKinds(w.Val, req)
		inFam := func(root *ssa.Function) bool {
			if root == nil {
				return false
			}
			for _, g := range p.family(root) {
				if g == w.Fn || g == encl {
					return true
				}
			}
			return false
		}
		_, fromReadBuf := kinds["readbuf"]
		if encl == def || encl == eval || ((inFam(def) || inFam(eval)) && fromReadBuf) {
			if inFam(def) {
				seenVerbatim[def] = true
			}
			if inFam(eval) {
				seenVerbatim[eval] = true
			}
			// verbatim copy: append(frag.Req[:0], buf.ReadBuf()...)
			only := true
			for k := range kinds {
				if k != "self" && k != "readbuf" {
					only = false
				}
			}
			_, hasRB := kinds["readbuf"]
			okShape := false
			if call, ok := w.Val.(*ssa.Call); ok {
				if b, ok := call.Call.Value.(*ssa.Builtin); ok && b.Name() == "append" && len(call.Call.Args) == 2 {
					if sl, ok := call.Call.Args[0].(*ssa.Slice); ok && sl.High != nil && isZero(sl.High) {
						if rb, ok := call.Call.Args[1].(*ssa.Call); ok && rb.Call.StaticCallee() == p.Method(pkgCodec, "Buffer", "ReadBuf") {
							// the buffer must be the function's own buf parameter
							if prm, ok := rb.Call.Args[0].(*ssa.Parameter); ok && (prm.Parent() == encl || prm.Parent() == w.Fn) {
								okShape = true
							}
						}
					}
				}
			}
			seenVerbatim[encl] = true
			c.check(only && hasRB && okShape, name, c.at(w.Instr), "Req = append(Req[:0], buf.ReadBuf()...) of the buffer being decoded",
				"a single-key request's bytes are not the verbatim copy of the consumed bytes (sources: "+kindList(kinds)+"): the backend would receive something other than what the client sent")
			continue
		}
		allowed := true
		// dropping the request bytes (nil / empty literal) is only legitimate where a fragment object is set up or reset
		if cst, isC := strip(w.Val).(*ssa.Const); isC && cst.Value == nil {
			if _, fresh := strip(w.Base).(*ssa.Alloc); !fresh && !strings.Contains(fnKey(encl), "fragPool") {
				c.bad(name+" (cleared)", c.at(w.Instr), "Frag.Req is set to nil outside the fragment pool: the bytes are still needed after the first send - a -MOVED/-ASK redirect re-queues the same fragment on another node, which would then be sent an empty request while the fragment is counted as awaiting a reply")
				continue
			}
		}
		for k := range kinds {
			switch {
			case k == "self", k == "const", k == "fresh", k == "itoa", k == "readbuf":
			case strings.HasPrefix(k, "rangeelem:"), strings.HasPrefix(k, "elem:"), strings.HasPrefix(k, "global:*rcproxy/core/codec.LFCRByte"):
			default:
				allowed = false
			}
		}
		c.check(allowed, name, c.at(w.Instr), "built from "+kindList(kinds),
			"Frag.Req receives bytes from an unexpected source ("+kindList(kinds)+")")
	}
	for _, f := range []*ssa.Function{def, eval} {
		if f != nil && !seenVerbatim[f] {
			c.bad("Frag.Req write in "+shortFn(f), p.pos(f.Pos()), "the single-key path no longer stores the consumed bytes into Frag.Req")
		}
	}
}

// ---------------------------------------------------------------------------------------------
// C02.2

func ruleC02_2(c *Ctx) {
	p := c.P
	dec := c.needMethod(pkgCore, "CRespCodec", "Decode")
	toLower := c.need(pkgCodec + ".toLower")
	t2t := c.need(pkgCodec + ".Transform2Type")
	parseLine := c.needMethod(pkgCore, "CRespCodec", "parseLine")
	if dec == nil || toLower == nil || t2t == nil || parseLine == nil {
		return
	}
	fns := p.reachableFuncs(dec)
	c.examined(len(fns))
	nStores := 0
	for _, fn := range fns {
		if strings.HasPrefix(fnKey(fn), "rcproxy/core/pkg/logging") || strings.HasPrefix(fnKey(fn), "(*rcproxy/core/pkg/logging") ||
			strings.Contains(fnKey(fn), "rcproxy/core/pkg/utils.Format") {
			continue // formatters write into their own fresh buffers; checked below by the freshness test anyway
		}
		allInstrs(fn, func(in ssa.Instruction) {
			st, ok := in.(*ssa.Store)
			if !ok {
				return
			}
			ia, ok := st.Addr.(*ssa.IndexAddr)
			if !ok {
				return
			}
			sl, ok := ia.X.Type().Underlying().(*types.Slice)
			if !ok {
				return
			}
			if b, ok := sl.Elem().Underlying().(*types.Basic); !ok || b.Kind() != types.Uint8 {
				return
			}
			nStores++
			c.touch(fn)
			roots := flowRoots(ia.X, nil)
			fresh := true
			for _, r := range roots {
				switch r.(type) {
				case *ssa.MakeSlice, *ssa.Alloc:
				default:
					fresh = false
				}
			}
			name := "byte store in " + shortFn(fn)
			if fn == toLower {
				c.ok(name, c.at(in), "the case fold itself")
				return
			}
			c.check(fresh, name, c.at(in), "store into a freshly allocated slice",
				"a byte of a slice that may alias the client's request bytes is overwritten during decoding ("+strings.Join(rootStrings(roots), "; ")+"): the forwarded request differs from what the client sent")
		})
	}
	// toLower is applied only to the command name: single call site chain Decode → Transform2Type(first parseLine result) → toLower(command)
	ts := p.SitesOf(toLower)
	okT := len(ts) == 1 && homeFn(ts[0].Fn) == t2t && ts[0].Call != nil && strip(ts[0].Call.Args[0]) == ssa.Value(t2t.Params[0])
	c.check(okT, "toLower call sites", p.pos(toLower.Pos()), "only Transform2Type(command) folds case",
		fmt.Sprintf("toLower is applied somewhere other than to Transform2Type's command argument (%d sites): request arguments would be altered", len(ts)))
	t2s := p.SitesOf(t2t)
	okS := false
	detail := fmt.Sprintf("%d call sites", len(t2s))
	if len(t2s) == 1 && homeFn(t2s[0].Fn) == dec && t2s[0].Call != nil {
		arg := throughTuple(t2s[0].Call.Args[0])
		// called from a constructor helper of Decode (`newRequestMsg(c, msg, n)`): what the helper's one call site passes
		for i := 0; i < 3; i++ {
			prm, isP := arg.(*ssa.Parameter)
			if !isP || !p.isHelper(prm.Parent()) {
				break
			}
			sites := p.helperSites(prm.Parent())
			idx := -1
			for k, q := range prm.Parent().Params {
				if q == prm {
					idx = k
				}
			}
			if len(sites) != 1 || sites[0].Call == nil || idx < 0 || idx >= len(sites[0].Call.Args) {
				break
			}
			arg = throughTuple(sites[0].Call.Args[idx])
		}
		if ex, ok := arg.(*ssa.Extract); ok && ex.Index == 0 {
			if call, ok := p.isCallTo(ex.Tuple, parseLine); ok {
				// it must be the first parseLine of the request: no other parseLine call (in Decode or its callees) can precede it
				first := true
				for _, other := range p.callsIn(dec, parseLine) {
					if other.(ssa.Instruction) != ssa.Instruction(call) && canReach(other.(ssa.Instruction), call) {
						first = false
					}
				}
				for _, callee := range []string{"Frag1", "Frag2", "Eval", "Default"} {
					if f := p.Method(pkgCore, "CRespCodec", callee); f != nil {
						for _, other := range p.callsIn(dec, f) {
							if canReach(other.(ssa.Instruction), call) {
								first = false
							}
						}
					}
				}
				okS = first
				detail = "argument is result #0 of the first parseLine of the request"
				if !first {
					detail = "the folded slice is not the first bulk string of the request"
				}
			}
		} else {
			detail = "argument is " + expr(arg)
		}
	}
	c.check(okS, "Transform2Type argument", p.pos(t2t.Pos()), detail, "the slice handed to Transform2Type (and folded in place) is not the command name of the request: "+detail)
}

// ---------------------------------------------------------------------------------------------
// C02.3

func ruleC02_3(c *Ctx) {
	p := c.P
	frb := p.Field(pkgCore, "Frag", "RspBody")
	mrb := p.Field(pkgCore, "Msg", "RspBody")
	sdec := c.needMethod(pkgCore, "SRespCodec", "Decode")
	sdef := c.needMethod(pkgCore, "SRespCodec", "Default")
	if frb == nil || mrb == nil || sdec == nil || sdef == nil {
		return
	}
	ws := p.fieldWrites(frb)
	c.examined(len(ws))
	copySeen := false
	for _, w := range ws {
		encl := homeFn(w.Fn)
		c.touch(encl)
		name := "Frag.RspBody write in " + shortFn(encl)
		if w.Kind != "store" {
			c.bad(name+" ("+w.Kind+")", c.at(w.Instr), "reply bytes are modified in place")
			continue
		}
		kinds := c.byteRootKinds(w.Val, frb)
		okK := true
		for k := range kinds {
			if k != "self" && k != "readbuf" {
				okK = false
			}
		}
		if _, has := kinds["readbuf"]; has && encl == sdec {
			copySeen = true
		}
		c.check(okK, name, c.at(w.Instr), "sources: "+kindList(kinds), "a fragment's reply bytes come from something other than the decoded frame ("+kindList(kinds)+")")
	}
	c.check(copySeen, "SRespCodec.Decode copies the frame", p.pos(sdec.Pos()), "Frag.RspBody = append(RspBody[:0], buf.ReadBuf()...)", "SRespCodec.Decode no longer stores the decoded frame into Frag.RspBody")

	mws := p.fieldWrites(mrb)
	c.examined(len(mws))
	relay := false
	for _, w := range mws {
		encl := homeFn(w.Fn)
		c.touch(encl)
		name := "Msg.RspBody write in " + shortFn(encl)
		if w.Kind != "store" {
			c.bad(name+" ("+w.Kind+")", c.at(w.Instr), "reply bytes are modified in place after assembly")
			continue
		}
		kinds := c.byteRootKinds(w.Val, mrb)
		if encl == sdef {
			if _, has := kinds["field:RspBody"]; has {
				// the relay store: append(msg.RspBody[:0], f.RspBody...) with f the parameter
				okShape := false
				if call, ok := w.Val.(*ssa.Call); ok && len(call.Call.Args) == 2 {
					if sl, ok := call.Call.Args[0].(*ssa.Slice); ok && sl.High != nil && isZero(sl.High) {
						if base, ok := fieldLoad(call.Call.Args[1], frb); ok && strip(base) == ssa.Value(sdef.Params[1]) {
							okShape = true
						}
					}
				}
				onlySelf := len(kinds) <= 2
				for k := range kinds {
					if k != "self" && k != "field:RspBody" {
						onlySelf = false
					}
				}
				relay = relay || (okShape && onlySelf)
				c.check(okShape && onlySelf, name+" (relay)", c.at(w.Instr), "Msg.RspBody = append(Msg.RspBody[:0], f.RspBody...)",
					"the reply of a single-key request is not the backend's frame unmodified (sources: "+kindList(kinds)+")")
				continue
			}
		}
		okK := true
		for k := range kinds {
			switch {
			case k == "self", k == "const", k == "fresh", k == "itoa", k == "sprintf", k == "field:RspBody", k == "field:Error", k == "field:Rsp":
			case strings.HasPrefix(k, "elem:"), strings.HasPrefix(k, "global:*rcproxy/core/codec.LFCRByte"), strings.HasPrefix(k, "rangeelem:"):
			default:
				okK = false
			}
		}
		c.check(okK, name, c.at(w.Instr), "sources: "+kindList(kinds), "Msg.RspBody receives bytes from an unexpected source ("+kindList(kinds)+")")
	}
	c.check(relay, "SRespCodec.Default relays the frame", p.pos(sdef.Pos()), "present", "SRespCodec.Default no longer copies the fragment's frame into the request's reply")
	// the Msg written by Default is the fragment's own request
	peer := p.Field(pkgCore, "Frag", "Peer")
	okPeer := true
	for _, w := range mws {
		if homeFn(w.Fn) != sdef {
			continue
		}
		if base, ok := fieldLoad(w.Base, peer); !ok || strip(base) != ssa.Value(sdef.Params[1]) {
			okPeer = false
		}
	}
	c.check(okPeer, "SRespCodec.Default writes f.Peer", p.pos(sdef.Pos()), "the reply is stored in the fragment's own request", "SRespCodec.Default stores the reply into a Msg other than f.Peer")
}

// ---------------------------------------------------------------------------------------------
// C02.4

func ruleC02_4(c *Ctx) {
	p := c.P
	newBuf := p.PkgFunc(pkgCodec, "NewBuffer")
	readSize := p.Method(pkgCodec, "Buffer", "ReadSize")
	if newBuf == nil || readSize == nil {
		c.undecided("anchors codec.NewBuffer/ReadSize", "-", "not found")
		return
	}
	for _, d := range []struct{ typ, name string }{{"CRespCodec", "Decode"}, {"SRespCodec", "Decode"}} {
		fn := c.needMethod(pkgCore, d.typ, d.name)
		if fn == nil {
			continue
		}
		c.examined(len(fn.Blocks))
		tag := d.typ + ".Decode"
		var discards []ssa.CallInstruction
		allInstrs(fn, func(in ssa.Instruction) {
			if ci, ok := in.(ssa.CallInstruction); ok && ci.Common().IsInvoke() && ci.Common().Method.Name() == "Discard" {
				discards = append(discards, ci)
			}
		})
		if len(discards) != 1 {
			c.bad(tag+": one Discard", p.pos(fn.Pos()), fmt.Sprintf("expected exactly one Discard call, found %d: bytes of the stream would be lost or decoded twice", len(discards)))
			continue
		}
		dc := discards[0]
		// receiver: the connection parameter ; argument: ReadSize() of NewBuffer(Peek(0))
		okArg := false
		desc := expr(dc.Common().Args[0])
		if rs, ok := strip(dc.Common().Args[0]).(*ssa.Call); ok && rs.Call.StaticCallee() == readSize {
			if nb, ok := strip(rs.Call.Args[0]).(*ssa.Call); ok && nb.Call.StaticCallee() == newBuf {
				if ex, ok := strip(nb.Call.Args[0]).(*ssa.Extract); ok && ex.Index == 0 {
					if pk, ok := ex.Tuple.(*ssa.Call); ok && pk.Call.IsInvoke() && pk.Call.Method.Name() == "Peek" &&
						strip(pk.Call.Value) == ssa.Value(fn.Params[1]) && len(pk.Call.Args) == 1 && isZero(pk.Call.Args[0]) {
						okArg = strip(dc.Common().Value) == ssa.Value(fn.Params[1])
					}
				}
			}
		}
		c.check(okArg, tag+": Discard(buf.ReadSize())", c.at(dc), "consumes the read cursor of the buffer built from c.Peek(0), on the same connection",
			"the number of bytes consumed ("+desc+") is not the read cursor of the decode buffer of this connection: the next request would start in the middle of this one or this one would be decoded again")
		if l := innermostLoop(loopsOf(fn), dc.Block()); l != nil {
			c.bad(tag+": Discard once", c.at(dc), "Discard is inside a loop")
		}
		nret := 0
		allInstrs(fn, func(in ssa.Instruction) {
			r, ok := in.(*ssa.Return)
			if !ok || len(r.Results) != 2 {
				return
			}
			nret++
			name := fmt.Sprintf("%s: return #%d", tag, nret)
			if isNilConst(results(r)[1]) {
				c.check(dominatesInstr(dc.(ssa.Instruction), r), name+" (success)", c.at(r), "dominated by the Discard",
					"a successful decode can return without consuming its bytes: the same request is decoded again on the next round (duplicated)")
			} else {
				c.check(!canReach(dc.(ssa.Instruction), r), name+" (error)", c.at(r), "no Discard on this path",
					"an error/incomplete return is reachable after the Discard: a partial request would be consumed and the stream corrupted")
			}
		})
	}
}

// ---------------------------------------------------------------------------------------------
// C02.5

func ruleC02_5(c *Ctx) {
	p := c.P
	wr := c.needMethod(pkgCore, "conn", "write")
	wv := c.needMethod(pkgCore, "conn", "writev")
	op := c.needMethod(pkgCore, "conn", "open")
	bufWrite := p.Method(pkgElastic, "Buffer", "Write")
	bufWritev := p.Method(pkgElastic, "Buffer", "Writev")
	if wr == nil || wv == nil || op == nil || bufWrite == nil || bufWritev == nil {
		return
	}
	// conn.write and conn.open: every Buffer.Write argument is `data` whole or data[sent:] with sent the syscall result
	for _, fn := range []*ssa.Function{wr, op} {
		c.examined(len(fn.Blocks))
		var sys *ssa.Call
		allInstrs(fn, func(in ssa.Instruction) {
			if call, ok := in.(*ssa.Call); ok && staticCalleeName(&call.Call) == "golang.org/x/sys/unix.Write" {
				sys = call
			}
		})
		if sys == nil {
			c.undecided(shortFn(fn)+": syscall", p.pos(fn.Pos()), "unix.Write not found")
			continue
		}
		data := fn.Params[1]
		c.check(strip(sys.Call.Args[1]) == ssa.Value(data), shortFn(fn)+": syscall writes the input", c.at(sys), "unix.Write(fd, data)", "the socket write is not given the function's input slice: "+expr(sys.Call.Args[1]))
		nspill := 0
		p.virtualCalls(fn, []*ssa.Function{bufWrite}, func(bw ssa.CallInstruction) {
			arg := strip(bw.Common().Args[1])
			name := fmt.Sprintf("%s: spill #%d", shortFn(fn), nspill+1)
			nspill++
			if strip(arg) == ssa.Value(data) {
				// whole input: must not be reachable after a (partially) successful write
				partial := false
				for _, g := range guardsOf(bw) {
					if x, o, y, ok := cmpGuard(g); ok && o == token.EQL && isNilConst(y) {
						if ex, ok := x.(*ssa.Extract); ok && ex.Tuple == ssa.Value(sys) {
							partial = true // err == nil edge: some bytes may have gone out
						}
					}
				}
				c.check(!partial, name+" (whole input)", c.at(bw), "whole input buffered where nothing was sent",
					"the whole input is buffered on a path where the socket write succeeded: the client receives the sent prefix twice")
				return
			}
			sl, ok := arg.(*ssa.Slice)
			okS := ok && strip(sl.X) == ssa.Value(data) && sl.High == nil && sl.Low != nil
			if okS {
				ex, ok := strip(sl.Low).(*ssa.Extract)
				okS = ok && ex.Index == 0 && ex.Tuple == ssa.Value(sys)
			}
			// guard: sent < len(data) and err == nil
			okG := false
			for _, g := range guardsOf(bw) {
				if x, o, y, ok := cmpGuard(g); ok && o == token.LSS {
					if ex, ok := strip(x).(*ssa.Extract); ok && ex.Tuple == ssa.Value(sys) && ex.Index == 0 && strings.HasPrefix(expr(y), "builtin:len(param1") {
						okG = true
					}
				}
			}
			c.check(okS && okG, name+" (unsent suffix)", c.at(bw), "buffers data[sent:] on sent < len(data)",
				"after a partial write the bytes buffered for later are "+expr(arg)+" (guards "+strings.Join(guardStrings(guardsOf(bw)), " && ")+") instead of data[sent:] on sent < len(data): a slow reader receives a reply with a hole or a repeat", withGuards(guardsOf(bw)))
		})
		c.check(nspill >= 2, shortFn(fn)+": spill paths", p.pos(fn.Pos()), fmt.Sprintf("%d buffer writes", nspill), "the EAGAIN and the partial-write spill paths are not both present: unsent bytes would be dropped")
	}

	// conn.writev
	c.examined(len(wv.Blocks))
	var sys *ssa.Call
	allInstrs(wv, func(in ssa.Instruction) {
		if call, ok := in.(*ssa.Call); ok && staticCalleeName(&call.Call) == "rcproxy/core/internal/io.Writev" {
			sys = call
		}
	})
	if sys == nil {
		c.undecided("(*conn).writev: syscall", p.pos(wv.Pos()), "io.Writev not found")
		return
	}
	bs := wv.Params[1]
	c.check(strip(sys.Call.Args[1]) == ssa.Value(bs), "(*conn).writev: syscall writes the input", c.at(sys), "io.Writev(fd, bs)", "the vectored write is not given the input vector")
	// element rewrite bs[i] = bs[i][sent:]
	var rewrite *ssa.Store
	p.allInstrsDeep(wv, func(in ssa.Instruction) {
		if st, ok := in.(*ssa.Store); ok {
			if ia, ok := st.Addr.(*ssa.IndexAddr); ok && strip(ia.X) == ssa.Value(bs) {
				rewrite = st
			}
		}
	})
	if rewrite == nil {
		c.bad("(*conn).writev: partially sent element", p.pos(wv.Pos()), "no `bs[i] = bs[i][sent:]` found: after a partial vectored write the element that was cut is re-sent whole or dropped")
		return
	}
	ia := rewrite.Addr.(*ssa.IndexAddr)
	sl, okSl := rewrite.Val.(*ssa.Slice)
	okRw := false
	var sentPhi *ssa.Phi
	if okSl && sl.High == nil && sl.Low != nil {
		if ld, ok := sl.X.(*ssa.UnOp); ok {
			if ia2, ok := ld.X.(*ssa.IndexAddr); ok && strip(ia2.X) == ssa.Value(bs) && expr(ia2.Index) == expr(ia.Index) {
				if ph, ok := sl.Low.(*ssa.Phi); ok {
					sentPhi = ph
					okRw = true
				}
			}
		}
	}
	c.check(okRw, "(*conn).writev: partially sent element", c.at(rewrite), "bs[i] = bs[i][sent:]", "the element hit by the partial write is rewritten as "+expr(rewrite.Val)+", not bs[i][sent:] with the same i")
	if sentPhi != nil {
		// sent starts as the syscall's count and decreases by len(bs[i]) for every element that went out whole
		init, dec := false, false
		for _, e := range sentPhi.Edges {
			if ex, ok := strip(e).(*ssa.Extract); ok && ex.Tuple == ssa.Value(sys) && ex.Index == 0 {
				init = true
			}
			if bo, ok := e.(*ssa.BinOp); ok && bo.Op == token.SUB && bo.X == ssa.Value(sentPhi) && strings.HasPrefix(expr(bo.Y), "builtin:len(param1<bs>[") {
				dec = true
			}
		}
		c.check(init && dec, "(*conn).writev: sent accounting", c.at(rewrite), "sent = n; sent -= len(bs[i]) per fully sent element",
			"the running count of sent bytes is not (syscall result minus the lengths of the elements fully sent): the cut is made at the wrong offset")
		okG := false
		for _, g := range guardsOf(rewrite) {
			if x, o, y, ok := cmpGuard(g); ok && o == token.LSS && x == ssa.Value(sentPhi) && strings.HasPrefix(expr(y), "builtin:len(param1<bs>[") {
				okG = true
			}
		}
		c.check(okG, "(*conn).writev: cut element test", c.at(rewrite), "on sent < len(bs[i])", "the element to cut is not selected by sent < len(bs[i])", withGuards(guardsOf(rewrite)))
	}
	// tail handed to the buffer: bs[pos:] with pos the index of the cut element
	nW := 0
	for _, bw := range p.callsIn(wv, bufWritev) {
		arg := bw.Common().Args[1]
		if strip(arg) == ssa.Value(bs) {
			continue // whole vector (backlog / EAGAIN)
		}
		nW++
		sl, ok := through(arg).(*ssa.Slice)
		okT := ok && strip(sl.X) == ssa.Value(bs) && sl.High == nil && sl.Low != nil
		if okT {
			okT = false
			if ph, ok := sl.Low.(*ssa.Phi); ok && sl.Low != ia.Index {
				for _, e := range ph.Edges {
					if expr(e) == expr(ia.Index) {
						okT = true
					}
				}
			} else if sl.Low == ia.Index || expr(sl.Low) == expr(ia.Index) {
				okT = true
			}
			// cut and tail both computed by one helper (`Writev(unsentTail(bs, sent))`): the cut precedes the tail there
			if okT && sl.Parent() == rewrite.Parent() && sl.Parent() != wv && !canReach(rewrite, sl) {
				okT = false
			}
		}
		c.check(okT && dominatesOrSameLoopExit(rewrite, bw.(ssa.Instruction)), "(*conn).writev: unsent tail", c.at(bw), "buffers bs[pos:] with pos the cut element",
			"after a partial vectored write the vector buffered for later is "+expr(arg)+", which does not start at the element that was cut: replies are dropped or repeated for a slow reader")
	}
	c.check(nW == 1, "(*conn).writev: one tail spill", p.pos(wv.Pos()), "one", fmt.Sprintf("expected one spill of the unsent tail, found %d", nW))
}

// dominatesOrSameLoopExit: the spill happens after the rewrite on the path that performed it.
func dominatesOrSameLoopExit(a, b ssa.Instruction) bool {
	if la := lift(a, outermost(b.Parent())); la != nil {
		// (when the rewrite happens inside a helper, la is the helper's call: before b or one of b's operands)
		return canReach(la, b)
	}
	return false
}

// ---------------------------------------------------------------------------------------------
// C02.6

type retainFinding struct {
	fn   *ssa.Function
	in   ssa.Instruction
	what string
}

// retains reports the ways in which parameter index pi of fn (a []byte or [][]byte) can outlive the call.
func (c *Ctx) retains(fn *ssa.Function, pi int, depth int, memo map[string][]retainFinding) []retainFinding {
	key := fmt.Sprintf("%s#%d", fnKey(fn), pi)
	if r, ok := memo[key]; ok {
		return r
	}
	memo[key] = nil // break recursion optimistically
	var out []retainFinding
	if fn.Blocks == nil {
		return nil
	}
	tainted := map[ssa.Value]bool{fn.Params[pi]: true}
	changed := true
	for changed {
		changed = false
		allInstrs(fn, func(in ssa.Instruction) {
			v, ok := in.(ssa.Value)
			if !ok || tainted[v] {
				return
			}
			switch x := in.(type) {
			case *ssa.Slice:
				if tainted[x.X] {
					tainted[v], changed = true, true
				}
			case *ssa.Phi:
				for _, e := range x.Edges {
					if tainted[e] {
						tainted[v], changed = true, true
					}
				}
			case *ssa.UnOp:
				// load of an element of a tainted [][]byte
				if ia, ok := x.X.(*ssa.IndexAddr); ok && tainted[ia.X] && x.Op == token.MUL {
					if _, isSlice := x.Type().Underlying().(*types.Slice); isSlice {
						tainted[v], changed = true, true
					}
				}
			case *ssa.Index:
				if tainted[x.X] {
					if _, isSlice := x.Type().Underlying().(*types.Slice); isSlice {
						tainted[v], changed = true, true
					}
				}
			case *ssa.Extract:
				if nx, ok := x.Tuple.(*ssa.Next); ok {
					if rg, ok := nx.Iter.(*ssa.Range); ok && tainted[rg.X] && x.Index == 2 {
						if _, isSlice := x.Type().Underlying().(*types.Slice); isSlice {
							tainted[v], changed = true, true
						}
					}
				}
			case *ssa.ChangeType:
				if tainted[x.X] {
					tainted[v], changed = true, true
				}
			case *ssa.Convert:
				// []byte → string copies; string(b) is safe. unsafe conversions are calls.
			case *ssa.Call:
				if b, ok := x.Call.Value.(*ssa.Builtin); ok && b.Name() == "append" {
					// append(dst, tainted...) where elements are bytes copies; where elements are slices it retains
					if len(x.Call.Args) == 2 && tainted[x.Call.Args[1]] {
						if st, ok := x.Call.Args[1].Type().Underlying().(*types.Slice); ok {
							if _, inner := st.Elem().Underlying().(*types.Slice); inner {
								tainted[v], changed = true, true
							}
						}
					}
					if tainted[x.Call.Args[0]] {
						tainted[v], changed = true, true
					}
					// a vararg slice holding a tainted element
					for _, e := range varargElems(x.Call.Args[len(x.Call.Args)-1]) {
						if tainted[e] {
							tainted[v], changed = true, true
						}
					}
				}
			}
		})
	}
	isHeapDst := func(addr ssa.Value) bool {
		switch a := addr.(type) {
		case *ssa.FieldAddr:
			return true
		case *ssa.IndexAddr:
			// element of something that is not a local vararg array
			if al, ok := a.X.(*ssa.Alloc); ok && !al.Heap {
				return false
			}
			if tainted[a.X] {
				return false // rewriting the caller's own vector element (bs[i] = bs[i][n:]) keeps nothing new
			}
			return true
		case *ssa.Global:
			return true
		case *ssa.Alloc:
			return a.Heap && len(cellStores(a)) > 0 && escapesToClosure(a)
		}
		return true
	}
	allInstrs(fn, func(in ssa.Instruction) {
		switch x := in.(type) {
		case *ssa.Store:
			if tainted[x.Val] && isHeapDst(x.Addr) {
				out = append(out, retainFinding{fn, in, "stored in " + expr(x.Addr)})
			}
		case *ssa.MapUpdate:
			if tainted[x.Value] || tainted[x.Key] {
				out = append(out, retainFinding{fn, in, "stored in a map"})
			}
		case *ssa.Return:
			for _, r := range results(x) {
				if tainted[r] {
					out = append(out, retainFinding{fn, in, "returned to the caller"})
				}
			}
		case *ssa.Send:
			if tainted[x.X] {
				out = append(out, retainFinding{fn, in, "sent on a channel"})
			}
		case *ssa.MakeClosure:
			for _, b := range x.Bindings {
				if tainted[b] {
					out = append(out, retainFinding{fn, in, "captured by a closure"})
				}
			}
		case ssa.CallInstruction:
			cc := x.Common()
			if b, ok := cc.Value.(*ssa.Builtin); ok {
				switch b.Name() {
				case "copy":
					if len(cc.Args) == 2 && tainted[cc.Args[0]] {
						// copying INTO the caller's slice is not retention
					}
				}
				return
			}
			for ai, a := range cc.Args {
				if !tainted[a] {
					continue
				}
				fns, dyn := c.P.calleesOf(cc)
				if dyn || (len(fns) == 0 && !cc.IsInvoke()) {
					name := staticCalleeName(cc)
					if name == "" {
						out = append(out, retainFinding{fn, in, "passed to an unresolved function value"})
					}
					continue
				}
				if cc.IsInvoke() && len(fns) == 0 {
					out = append(out, retainFinding{fn, in, "passed to a foreign interface method " + cc.Method.Name()})
					continue
				}
				for _, g := range fns {
					if g.Blocks == nil {
						if !knownNonRetaining(g) {
							out = append(out, retainFinding{fn, in, "passed to " + fnKey(g) + " (no body, not known to copy)"})
						}
						continue
					}
					if depth <= 0 {
						out = append(out, retainFinding{fn, in, "passed to " + fnKey(g) + " beyond the inlining bound"})
						continue
					}
					idx := ai
					if cc.IsInvoke() {
						idx = ai + 1
					}
					if idx >= len(g.Params) {
						continue
					}
					for _, r := range c.retains(g, idx, depth-1, memo) {
						out = append(out, retainFinding{r.fn, r.in, r.what + " (via " + shortFn(g) + ")"})
					}
				}
			}
		}
	})
	memo[key] = out
	return out
}

func escapesToClosure(a *ssa.Alloc) bool {
	for _, r := range *a.Referrers() {
		if _, ok := r.(*ssa.MakeClosure); ok {
			return true
		}
	}
	return false
}

func knownNonRetaining(f *ssa.Function) bool {
	switch fnKey(f) {
	case "bytes.IndexByte", "bytes.Equal", "bytes.HasPrefix", "golang.org/x/sys/unix.Write", "golang.org/x/sys/unix.Writev":
		return true
	}
	return false
}

func ruleC02_6(c *Ctx) {
	p := c.P
	type tgt struct {
		pkg, typ, m string
		param       int
	}
	memo := map[string][]retainFinding{}
	for _, t := range []tgt{
		{pkgElastic, "Buffer", "Write", 1}, {pkgElastic, "Buffer", "Writev", 1},
		{pkgElastic, "RingBuffer", "Write", 1},
		{pkgRing, "Buffer", "Write", 1},
		{pkgLL, "Buffer", "PushBack", 1}, {pkgLL, "Buffer", "PushFront", 1},
	} {
		fn := c.needMethod(t.pkg, t.typ, t.m)
		if fn == nil {
			continue
		}
		fs := c.retains(fn, t.param, 4, memo)
		c.examined(len(fn.Blocks))
		name := shortFn(fn) + " does not keep its argument"
		if len(fs) == 0 {
			c.ok(name, p.pos(fn.Pos()), "the slice parameter flows only into copy/len/slicing and non-retaining callees")
			continue
		}
		var ds []string
		for _, f := range fs {
			ds = append(ds, f.what+" at "+c.at(f.in))
		}
		c.bad(name, c.at(fs[0].in), "the caller's slice is "+strings.Join(uniqueStrings(ds), "; ")+": eventloop.sread recycles Msg.RspBody and the event loop reuses its read buffer right after the call, so a slow reader is sent overwritten bytes")
	}
}

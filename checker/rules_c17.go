package main

import (
	"fmt"
	"go/constant"
	"go/token"
	"os"
	"path/filepath"
	"regexp"
	"sort"
	"strings"

	"golang.org/x/tools/go/ssa"
)

func init() {
	rule("C17.1", "E6", "command tables agree: name↔type maps are inverse bijections, every command has an arity row handled by checkArgs, names are lower case, and the set equals the documented one", 300, ruleC17_1)
	rule("C17.2", "E3+E4", "unknown, oversized and wrong-arity requests and PING/QUIT are answered locally before anything is routed", 6, ruleC17_2)
	rule("C17.3", "E8", "the request size limit is applied to the bytes this request consumed", 1, ruleC17_3)
	rule("C17.4", "E3+E8", "oversized replies are replaced by an error before merging; request and reply limits come from one option", 4, ruleC17_4)
	rule("C17.5", "E3+E8", "the command name is folded to lower case before the table lookup, on the same bytes", 2, ruleC17_5)

	rule("C18.1", "E3+E4", "a client is admitted only if the whitelist validates its address; a rejected one is closed before any read", 4, ruleC18_1)
	rule("C18.2", "E2+E3", "reloading the whitelist removes the addresses that are no longer listed", 1, ruleC18_2)
	rule("C18.3", "E4+E6", "the watcher reloads on every way the file can change: write, create (rename onto the name) and rename", 3, ruleC18_3)
}

func ruleC17_1(c *Ctx) {
	p := c.P
	s2t, ok1 := p.mapLiteral(pkgCodec, "CommandStr2Type")
	t2s, ok2 := p.mapLiteral(pkgCodec, "CommandType2Str")
	t2n, ok3 := p.mapLiteral(pkgCodec, "CommandType2ArgsNumber")
	if !ok1 || !ok2 || !ok3 {
		c.undecided("codec command tables", "-", "CommandStr2Type / CommandType2Str / CommandType2ArgsNumber are not constant map literals")
		return
	}
	c.examined(len(s2t) + len(t2s) + len(t2n))
	unknown, _ := p.ConstInt(pkgCodec, "UNKNOWN")
	tooLarge, _ := p.ConstInt(pkgCodec, "ReqTooLarge")
	marker, _ := p.ConstInt(pkgCodec, "ReqWriteCmdStart")
	iv := func(v constant.Value) int64 { i, _ := constant.Int64Val(constant.ToInt(v)); return i }
	byType := map[int64]string{}
	for _, r := range t2s {
		k := iv(r.Key)
		if old, dup := byType[k]; dup {
			c.bad("CommandType2Str duplicate key", p.pos(r.Pos), fmt.Sprintf("type %d maps to both %q and %q", k, old, constant.StringVal(r.Val)))
		}
		byType[k] = constant.StringVal(r.Val)
	}
	arity := map[int64]int64{}
	for _, r := range t2n {
		arity[iv(r.Key)] = iv(r.Val)
	}
	// NArgs classes for which checkArgs has an accepting path
	handled := map[int64]bool{}
	if ca := c.need(pkgCodec + ".checkArgs"); ca != nil {
		byClass, _, _ := c.arityClasses(ca)
		for k := range byClass {
			handled[k] = true
		}
	}
	seenName := map[string]bool{}
	seenType := map[int64]string{}
	var names []string
	for _, r := range s2t {
		name := constant.StringVal(r.Key)
		t := iv(r.Val)
		names = append(names, name)
		row := "command " + name
		if seenName[name] {
			c.bad(row+" duplicate", p.pos(r.Pos), "the name occurs twice in CommandStr2Type")
		}
		seenName[name] = true
		if other, dup := seenType[t]; dup {
			c.bad(row+" shares its type", p.pos(r.Pos), fmt.Sprintf("%q and %q map to the same command type %d: one of them is routed and checked as the other", name, other, t))
		}
		seenType[t] = name
		c.check(name == strings.ToLower(name), row+": lower case", p.pos(r.Pos), "lower case", "the table key is not lower case: after case folding the command can never be found (it is rejected as unknown)")
		c.check(byType[t] == name, row+": CommandType2Str is the inverse", p.pos(r.Pos), "round-trips", fmt.Sprintf("CommandType2Str[%d] is %q, not %q: statistics and re-encoded fragments use the wrong command name", t, byType[t], name))
		c.check(t > unknown && t < tooLarge && t != marker, row+": type is a request type", p.pos(r.Pos), fmt.Sprintf("%d", t), fmt.Sprintf("type %d is not strictly between UNKNOWN and ReqTooLarge (or is the write marker): OnCReact would treat the command as unknown/oversized", t))
		a, has := arity[t]
		c.check(has && handled[a], row+": arity rule", p.pos(r.Pos), fmt.Sprintf("arity class %d handled by checkArgs", a),
			"the command has no arity row (or its arity class is not handled by a case of checkArgs): every request for it is answered 'wrong number of arguments', or none is checked")
	}
	c.check(len(t2s) == len(s2t), "CommandType2Str has no extra rows", "-", fmt.Sprintf("%d rows each", len(s2t)), fmt.Sprintf("CommandType2Str has %d rows, CommandStr2Type %d", len(t2s), len(s2t)))
	// documentation
	doc := filepath.Join(p.Repo, "docs", "command.md")
	b, err := os.ReadFile(doc)
	if err != nil {
		c.undecided("docs/command.md", "-", "cannot read the documented command table: "+err.Error())
		return
	}
	re := regexp.MustCompile(`(?m)^\|\s*([A-Za-z]+)\s*\|\s*(Yes|No)\s*\|`)
	yes := map[string]bool{}
	for _, m := range re.FindAllStringSubmatch(string(b), -1) {
		if m[2] == "Yes" {
			yes[strings.ToLower(m[1])] = true
		}
	}
	if len(yes) < 50 {
		c.undecided("docs/command.md", "-", fmt.Sprintf("only %d supported commands parsed from the document", len(yes)))
		return
	}
	sort.Strings(names)
	for _, n := range names {
		if n == "auth" {
			continue // answered by the proxy itself; the document lists AUTH under "No" (not forwarded)
		}
		c.check(yes[n], "documented: "+n, "docs/command.md", "listed as supported", "the proxy serves "+n+" but the documented supported set does not list it")
	}
	for n := range yes {
		if !seenName[n] {
			c.bad("documented: "+n, "docs/command.md", "the documented supported set lists "+n+" but the proxy's command table does not contain it: it is rejected as unknown")
		}
	}
}

func ruleC17_2(c *Ctx) {
	p := c.P
	on := c.needMethod(pkgServer, "listenServer", "OnCReact")
	getConn := c.needMethod(pkgServer, "listenServer", "getConn")
	enqOut := c.needMethod(pkgCore, "conn", "EnqueueOutFrag")
	enqIn := c.needMethod(pkgCore, "conn", "EnqueueInMsg")
	if on == nil || getConn == nil || enqOut == nil || enqIn == nil {
		return
	}
	c.examined(len(on.Blocks))
	typeF := p.Field(pkgCore, "Msg", "Type")
	k := func(n string) int64 { v, _ := p.ConstInt(pkgCodec, n); return v }
	unknown, sentinel := k("UNKNOWN"), k("Sentinel")
	type need struct {
		name  string
		k     int64
		reply string
	}
	needs := []need{{"ReqTooLarge", k("ReqTooLarge"), "req msg length too large"}, {"ReqWrongArgumentsNumber", k("ReqWrongArgumentsNumber"), "wrong number of arguments"},
		{"ReqPing", k("ReqPing"), "+PONG"}, {"ReqQuit", k("ReqQuit"), "+OK"}}
	typeCmp := func(g Guard, op token.Token, val int64) bool {
		x, o, y, ok := cmpGuard(g)
		v, isK := constInt(y)
		if !ok || !isK || v != val || o != op {
			return false
		}
		base, is := fieldLoad(x, typeF)
		return is && strip(base) == ssa.Value(on.Params[1])
	}
	// every forwarding action is behind all the local-answer tests
	var acts []ssa.CallInstruction
	acts = append(acts, p.callsIn(on, getConn)...)
	acts = append(acts, p.callsIn(on, enqOut)...)
	acts = append(acts, p.callsIn(on, enqIn)...)
	if len(acts) == 0 {
		c.undecided("OnCReact: forwarding actions", p.pos(on.Pos()), "none found")
		return
	}
	for _, a := range acts {
		gs := guardsOf(a)
		var missing []string
		if !guardHas(gs, func(g Guard) bool { return typeCmp(g, token.GTR, unknown) }) {
			missing = append(missing, "Type > UNKNOWN")
		}
		if !guardHas(gs, func(g Guard) bool { return typeCmp(g, token.LSS, sentinel) }) {
			missing = append(missing, "Type < Sentinel")
		}
		for _, n := range needs {
			nn := n
			if !guardHas(gs, func(g Guard) bool { return typeCmp(g, token.NEQ, nn.k) }) {
				missing = append(missing, "Type != "+n.name)
			}
		}
		c.check(len(missing) == 0, "OnCReact: "+staticCalleeName(a.Common())+" only for servable requests", c.at(a), "behind the unknown / too-large / arity / PING / QUIT tests",
			"a request can be routed or queued without the test(s) "+strings.Join(missing, ", ")+": a rejected (or locally answered) request reaches a backend", withGuards(gs))
	}
	// a return inside a helper of OnCReact counts when OnCReact hands the helper's reply and action on unchanged
	// on the edge where the helper reports that it answered (`if reply, act, done := answerLocally(r, c); done { return reply, act }`)
	passedOn := func(r *ssa.Return) bool {
		h := r.Parent()
		if h == on {
			return true
		}
		for _, s := range p.helperSites(h) {
			call, ok := s.Instr.(*ssa.Call)
			if !ok || outermost(s.Fn) != on {
				continue
			}
			rs := results(r)
			for _, or := range returnsReachable(on) {
				ors := results(or.(*ssa.Return))
				if len(ors) != 2 {
					continue
				}
				e0, ok0 := ors[0].(*ssa.Extract)
				e1, ok1 := ors[1].(*ssa.Extract)
				if !ok0 || !ok1 || e0.Tuple != ssa.Value(call) || e1.Tuple != ssa.Value(call) || e0.Index != 0 || e1.Index != 1 {
					continue
				}
				// guarded by a boolean result of the call that is true at this helper return
				for _, g := range guardsAtRaw(or.Block()) {
					ex, isEx := g.Cond.(*ssa.Extract)
					if !isEx || ex.Tuple != ssa.Value(call) || ex.Index >= len(rs) {
						continue
					}
					if cst, isC := rs[ex.Index].(*ssa.Const); isC && cst.Value != nil && constBoolValue(cst) == g.Truth {
						return true
					}
				}
			}
		}
		return false
	}
	fam := p.family(on)
	for _, g := range fam {
		if g != on {
			bindAgreeing(g, p.helperSites(g))
		}
	}
	// each rejecting edge returns its reply
	for _, fnx := range fam {
		for _, b := range fnx.Blocks {
			ifi, ok := b.Instrs[len(b.Instrs)-1].(*ssa.If)
			if !ok {
				continue
			}
			bo, ok := ifi.Cond.(*ssa.BinOp)
			if !ok || bo.Op != token.EQL {
				continue
			}
			if base, is := fieldLoad(bo.X, typeF); !is || strip(base) != ssa.Value(on.Params[1]) {
				continue
			}
			v, isK := constInt(bo.Y)
			if !isK {
				continue
			}
			for _, n := range needs {
				if n.k != v {
					continue
				}
				tb := b.Succs[0]
				okR := false
				if r, ok := tb.Instrs[len(tb.Instrs)-1].(*ssa.Return); ok {
					okR = strings.Contains(returnLabel(r), n.reply) && passedOn(r)
					if n.name == "ReqQuit" {
						if a, isK := constInt(results(r)[1]); !isK || a != 1 {
							okR = false // action Close
						}
					}
				}
				c.check(okR, "OnCReact: "+n.name+" answered locally", c.at(ifi), "returns "+n.reply, "the "+n.name+" case does not return its local reply ("+n.reply+")")
			}
		}
	}
	// unknown command edge
	okU := false
	for _, fnx := range fam {
		allInstrs(fnx, func(in ssa.Instruction) {
			if r, ok := in.(*ssa.Return); ok && strings.Contains(returnLabel(r), "unknown command") && passedOn(r) {
				conds := decidingConds(r.Block(), 0)
				okAll := len(conds) == 2
				for _, g := range conds {
					if !(typeCmp(g, token.LEQ, unknown) || typeCmp(g, token.GEQ, sentinel)) {
						okAll = false
					}
				}
				okU = okAll
			}
		})
	}
	c.check(okU, "OnCReact: unknown commands answered locally", p.pos(on.Pos()), "Type <= UNKNOWN || Type >= Sentinel ⇒ -ERR unknown command", "the unknown-command reply is not returned exactly for types outside (UNKNOWN, Sentinel)")
}

func ruleC17_3(c *Ctx) {
	p := c.P
	dec := c.needMethod(pkgCore, "CRespCodec", "Decode")
	stl := c.needMethod(pkgCore, "CRespCodec", "sizeTooLarge")
	if dec == nil || stl == nil {
		return
	}
	readSize := p.Method(pkgCodec, "Buffer", "ReadSize")
	parseLine := p.Method(pkgCore, "CRespCodec", "parseLine")
	calls := p.callsIn(dec, stl)
	if len(calls) != 1 {
		c.bad("CRespCodec.Decode: request size test", p.pos(dec.Pos()), fmt.Sprintf("expected one sizeTooLarge test, found %d", len(calls)))
		return
	}
	call := calls[0]
	arg := strip(call.Common().Args[1])
	rs, isRS := p.isCallTo(arg, readSize)
	okArg := isRS
	// after all arguments were parsed: every parseLine call (direct or in the argument parsers) precedes it
	if okArg {
		for _, m := range []string{"Frag1", "Frag2", "Eval", "Default"} {
			if f := p.Method(pkgCore, "CRespCodec", m); f != nil {
				for _, pc := range p.callsIn(dec, f) {
					if canReach(call.(ssa.Instruction), pc.(ssa.Instruction)) {
						okArg = false
					}
				}
			}
		}
		for _, pc := range p.callsIn(dec, parseLine) {
			if canReach(call.(ssa.Instruction), pc.(ssa.Instruction)) {
				okArg = false
			}
		}
		_ = rs
	}
	c.check(okArg, "CRespCodec.Decode: size test uses this request's size", c.at(call), "sizeTooLarge(buf.ReadSize()) after the arguments were parsed",
		"the size limit is tested against "+expr(arg)+" (or before the arguments are parsed), which is not the number of bytes this request consumed: with pipelining, small requests are rejected as too large (everything buffered is counted) or large ones pass")
	// the result sets Type = ReqTooLarge
	tooLarge, _ := p.ConstInt(pkgCodec, "ReqTooLarge")
	typeF := p.Field(pkgCore, "Msg", "Type")
	okSet := false
	for _, w := range p.fieldWrites(typeF) {
		if homeFn(w.Fn) == dec {
			if k, isK := constInt(w.Val); isK && k == tooLarge {
				if guardHas(guardsOf(w.Instr), func(g Guard) bool { return g.Cond == call.Value() && g.Truth }) {
					okSet = true
				}
			}
		}
	}
	c.check(okSet, "CRespCodec.Decode: oversized ⇒ ReqTooLarge", c.at(call), "Type = ReqTooLarge on the true edge", "an oversized request is not marked ReqTooLarge")
	// sizeTooLarge compares with MsgMaxLength: size > limit
	okCmp := false
	maxF := p.Field(pkgCore, "CRespCodec", "MsgMaxLength")
	allInstrs(stl, func(in ssa.Instruction) {
		if bo, ok := in.(*ssa.BinOp); ok && bo.Op == token.GTR && strip(bo.X) == ssa.Value(stl.Params[1]) {
			if _, is := fieldLoad(bo.Y, maxF); is {
				okCmp = true
			}
		}
	})
	c.check(okCmp, "CRespCodec.sizeTooLarge: size > MsgMaxLength", p.pos(stl.Pos()), "strictly greater than the limit", "sizeTooLarge is not `size > rc.MsgMaxLength`")
}

func ruleC17_4(c *Ctx) {
	p := c.P
	sread := c.needMethod(pkgCore, "conn", "sread")
	stl := c.needMethod(pkgCore, "SRespCodec", "sizeTooLarge")
	if sread == nil || stl == nil {
		return
	}
	rspBody := p.Field(pkgCore, "Frag", "RspBody")
	errF := p.Field(pkgCore, "Frag", "Error")
	calls := p.callsIn(sread, stl)
	okT := len(calls) == 1
	if okT {
		call := calls[0]
		arg := expr(strip(call.Common().Args[1]))
		okT = strings.HasPrefix(arg, "builtin:len(") && strings.Contains(arg, ".RspBody)")
		_ = rspBody
		// sets f.Error on the true edge, and precedes the merge dispatch
		setsErr := false
		for _, w := range p.fieldWrites(errF) {
			if homeFn(w.Fn) == sread && guardHas(guardsOf(w.Instr), func(g Guard) bool { return g.Cond == call.Value() && g.Truth }) {
				if s, ok := constString(w.Val); ok && strings.Contains(s, "rsp msg length too large") {
					setsErr = true
				}
			}
		}
		before := true
		allInstrs(sread, func(in ssa.Instruction) {
			if cl, ok := in.(*ssa.Call); ok {
				if cal := cl.Call.StaticCallee(); cal != nil && recvNamed(cal) != nil && recvNamed(cal).Obj().Name() == "SRespCodec" {
					switch cal.Name() {
					case "MGet", "MSet", "Del", "Default":
						if !dominatesInstr(call.(ssa.Instruction), in) {
							before = false
						}
					}
				}
			}
		})
		c.check(okT && setsErr && before, "conn.sread: oversized fragment reply fails the request", c.at(call), "sizeTooLarge(len(f.RspBody)) ⇒ f.Error, before the merge",
			"a fragment reply larger than the limit is not turned into the 'rsp msg length too large' error before it is merged/relayed")
	} else {
		c.bad("conn.sread: oversized fragment reply fails the request", p.pos(sread.Pos()), fmt.Sprintf("expected one sizeTooLarge test on the reply, found %d", len(calls)))
	}
	// merged MGET reply re-tested: the length of Msg.RspBody (not of the fragment's own reply), after the assembly loop
	if mg := c.needMethod(pkgCore, "SRespCodec", "MGet"); mg != nil {
		maxF := p.Field(pkgCore, "SRespCodec", "MsgMaxLength")
		msgRsp := p.Field(pkgCore, "Msg", "RspBody")
		okM, why := false, "no comparison of len(msg.RspBody) with the limit found"
		// the assembly: every store to Msg.RspBody made by MGet or its helpers, lifted into MGet
		var asm []ssa.Instruction
		p.allInstrsDeep(mg, func(in ssa.Instruction) {
			if st, ok := in.(*ssa.Store); ok {
				if fa, ok := st.Addr.(*ssa.FieldAddr); ok && fieldVar(fa.X.Type(), fa.Field) == msgRsp {
					asm = append(asm, in)
				}
			}
		})
		// a store and the comparison seen in one function: the one that contains both (directly or through a helper call)
		together := func(a, b ssa.Instruction) (ssa.Instruction, ssa.Instruction) {
			if la := lift(a, outermost(b.Parent())); la != nil {
				return la, b
			}
			if lb := lift(b, outermost(a.Parent())); lb != nil {
				return a, lb
			}
			la, lb := lift(a, mg), lift(b, mg)
			return la, lb
		}
		lenOfMerged := func(v ssa.Value) bool {
			call, ok := strip(v).(*ssa.Call)
			if !ok {
				return false
			}
			if b, ok := call.Call.Value.(*ssa.Builtin); !ok || b.Name() != "len" {
				return false
			}
			_, is := fieldLoad(call.Call.Args[0], msgRsp)
			return is
		}
		p.allInstrsDeep(mg, func(in ssa.Instruction) {
			var x ssa.Value
			if bo, ok := in.(*ssa.BinOp); ok && bo.Op == token.GTR {
				if _, is := fieldLoad(bo.Y, maxF); is {
					x = bo.X
				}
			}
			if call, ok := in.(*ssa.Call); ok && call.Call.StaticCallee() == stl && len(call.Call.Args) == 2 {
				x = call.Call.Args[1]
			}
			if x == nil {
				return
			}
			if !lenOfMerged(x) {
				why = "the limit is compared with " + expr(x) + ", not with the length of the merged reply"
				return
			}
			// measured after the assembly: every store to the merged reply either comes before the comparison and cannot
			// come after it, or is the replacement by the error on the comparison's own true edge
			after := len(asm) > 0
			for _, a := range asm {
				onOwnEdge := false
				for _, g := range guardsAt(a.Block()) {
					if g.Cond == ssa.Value(in.(ssa.Value)) && g.Truth {
						onOwnEdge = true
					}
				}
				if onOwnEdge {
					continue
				}
				la, lin := together(a, in)
				if la == nil || lin == nil || !canReach(la, lin) || canReach(lin, la) {
					after = false
				}
			}
			if !after {
				why = "the merged reply is measured before it was assembled"
				return
			}
			okM = true
		})
		c.check(okM, "SRespCodec.MGet: merged reply re-tested against the limit", p.pos(mg.Pos()), "len(msg.RspBody) > rc.MsgMaxLength after the assembly loop",
			"the merged MGET reply is not tested against the reply size limit ("+why+"): fragments that are each within the limit add up to a reply larger than the configured maximum, which is sent to the client")
	}
	// both limits from one option in serve
	if serve := c.need(pkgCore + ".serve"); serve != nil {
		var vals []string
		allInstrs(serve, func(in ssa.Instruction) {
			st, ok := in.(*ssa.Store)
			if !ok {
				return
			}
			fa, ok := st.Addr.(*ssa.FieldAddr)
			if !ok || fieldName(fa.X.Type(), fa.Field) != "MsgMaxLength" {
				return
			}
			vals = append(vals, expr(st.Val))
		})
		c.check(len(vals) == 2 && vals[0] == vals[1] && strings.Contains(vals[0], "RedisMsgMaxLength"), "serve: one size limit for requests and replies", p.pos(serve.Pos()), strings.Join(vals, " / "),
			"the request and reply codecs are not configured from the same RedisMsgMaxLength option: "+strings.Join(vals, " / "))
	}
	// sizeTooLarge (server side) is size > limit
	okCmp := false
	maxF := p.Field(pkgCore, "SRespCodec", "MsgMaxLength")
	allInstrs(stl, func(in ssa.Instruction) {
		if bo, ok := in.(*ssa.BinOp); ok && bo.Op == token.GTR && strip(bo.X) == ssa.Value(stl.Params[1]) {
			if _, is := fieldLoad(bo.Y, maxF); is {
				okCmp = true
			}
		}
	})
	c.check(okCmp, "SRespCodec.sizeTooLarge: size > MsgMaxLength", p.pos(stl.Pos()), "strictly greater than the limit", "sizeTooLarge is not `size > rc.MsgMaxLength`")
}

func ruleC17_5(c *Ctx) {
	p := c.P
	t2t := c.need(pkgCodec + ".Transform2Type")
	toLower := c.need(pkgCodec + ".toLower")
	if t2t == nil || toLower == nil {
		return
	}
	tab := p.Global(pkgCodec, "CommandStr2Type")
	var lookup *ssa.Lookup
	allInstrs(t2t, func(in ssa.Instruction) {
		if lk, ok := in.(*ssa.Lookup); ok {
			if ld, ok := lk.X.(*ssa.UnOp); ok && ld.X == ssa.Value(tab) {
				lookup = lk
			}
		}
	})
	if lookup == nil {
		c.bad("Transform2Type: table lookup", p.pos(t2t.Pos()), "no lookup in CommandStr2Type found")
		return
	}
	calls := p.callsIn(t2t, toLower)
	okF := len(calls) == 1 && dominatesInstr(calls[0].(ssa.Instruction), lookup)
	c.check(okF, "Transform2Type: fold before lookup", c.at(lookup), "toLower(command) dominates the lookup", "the command name is looked up before (or without) being folded to lower case: `GET`/`Get` are rejected as unknown")
	okS := false
	if cv, ok := lookup.Index.(*ssa.Convert); ok && strip(cv.X) == ssa.Value(t2t.Params[0]) && len(calls) == 1 && strip(calls[0].Common().Args[0]) == ssa.Value(t2t.Params[0]) {
		okS = true
	}
	c.check(okS, "Transform2Type: lookup of the folded bytes", c.at(lookup), "string(command) of the slice that was folded", "the lookup key is not the folded command slice")
	// toLower folds exactly A-Z
	okR := false
	allInstrs(toLower, func(in ssa.Instruction) {
		if st, ok := in.(*ssa.Store); ok {
			if bo, ok := st.Val.(*ssa.BinOp); ok && (bo.Op == token.XOR || bo.Op == token.OR || bo.Op == token.ADD) {
				if k, isK := constInt(bo.Y); isK && k == 0x20 {
					gs := guardsOf(st)
					ge := guardHas(gs, func(g Guard) bool {
						_, op, y, ok := cmpGuard(g)
						k, isK := constInt(y)
						return ok && isK && op == token.GEQ && k == 'A'
					})
					le := guardHas(gs, func(g Guard) bool {
						_, op, y, ok := cmpGuard(g)
						k, isK := constInt(y)
						return ok && isK && op == token.LEQ && k == 'Z'
					})
					okR = ge && le
				}
			}
		}
	})
	c.check(okR, "toLower folds exactly 'A'..'Z'", p.pos(toLower.Pos()), "b ^ 0x20 on 'A' <= b <= 'Z'", "toLower does not fold exactly the bytes 'A'..'Z' by 0x20")
}

// ---------------------------------------------------------------------------------------------
// C18

func ruleC18_1(c *Ctx) {
	p := c.P
	on := c.needMethod(pkgServer, "listenServer", "OnCOpened")
	validate := c.needMethod(pkgAuthIP, "ipMap", "Validate")
	if on == nil || validate == nil {
		return
	}
	c.examined(len(on.Blocks) + len(validate.Blocks))
	closeK, _ := p.ConstInt(pkgCore, "Close")
	noneK, _ := p.ConstInt(pkgCore, "None")
	n := 0
	allInstrs(on, func(in ssa.Instruction) {
		r, ok := in.(*ssa.Return)
		if !ok {
			return
		}
		n++
		act, isK := constInt(results(r)[1])
		gs := guardsOf(r)
		admitted := guardHas(gs, func(g Guard) bool { _, is := p.isCallTo(g.Cond, validate); return is && g.Truth })
		rejected := guardHas(gs, func(g Guard) bool { _, is := p.isCallTo(g.Cond, validate); return is && !g.Truth })
		switch {
		case isK && act == noneK:
			c.check(admitted, fmt.Sprintf("OnCOpened: return #%d admits only validated addresses", n), c.at(r), "on IpMap.Validate(ip)", "a connection is admitted (action None) on a path where the whitelist did not validate its address", withGuards(gs))
		case isK && act == closeK:
			c.check(isNilConst(results(r)[0]), fmt.Sprintf("OnCOpened: return #%d closes without a reply", n), c.at(r), "(nil, Close)", "a rejected connection is sent bytes before it is closed")
			_ = rejected
		default:
			c.bad(fmt.Sprintf("OnCOpened: return #%d", n), c.at(r), "unexpected action")
		}
	})
	// the address validated is the host part of the connection's remote address
	for _, call := range p.callsIn(on, validate) {
		arg := expr(strip(call.Common().Args[1]))
		c.check(strings.Contains(arg, `strings.Split(invoke<RemoteAddr>(param1<c>), ":")[0]`), "OnCOpened: validates the peer's address", c.at(call), "host part of c.RemoteAddr()", "the whitelist is consulted with "+arg+", not the host part of the connection's remote address")
	}
	// Validate: true unconditionally only when disabled
	enable := p.Field(pkgAuthIP, "ipMap", "enable")
	allInstrs(validate, func(in ssa.Instruction) {
		r, ok := in.(*ssa.Return)
		if !ok {
			return
		}
		k, isConst := results(r)[0].(*ssa.Const)
		if !isConst {
			return
		}
		gs := guardsOf(r)
		if k.Value.String() == "false" {
			okF := guardHas(gs, func(g Guard) bool { _, is := fieldLoad(g.Cond, enable); return is && g.Truth }) &&
				guardHas(gs, func(g Guard) bool {
					ex, ok := g.Cond.(*ssa.Extract)
					return ok && ex.Index == 1 && !g.Truth
				})
			c.check(okF, "ipMap.Validate: false only for an unlisted address while enabled", c.at(r), "enabled and not found", "Validate rejects on another condition than `enabled and address not in the set`", withGuards(gs))
		}
	})
	okT := true
	for _, g := range decidingCondsOfTrueReturn(validate) {
		isEn := false
		if _, is := fieldLoad(g.Cond, enable); is && !g.Truth {
			isEn = true
		}
		isFound := false
		if ex, ok := g.Cond.(*ssa.Extract); ok && ex.Index == 1 && g.Truth {
			isFound = true
		}
		if !isEn && !isFound {
			okT = false
		}
	}
	c.check(okT, "ipMap.Validate: true only when disabled or listed", p.pos(validate.Pos()), "!enable, or found in the set", "Validate admits an address on a path that is neither `whitelist disabled` nor `address found`")
	// the action reaches handleAction synchronously in eventloop.open
	if open := c.needMethod(pkgCore, "eventloop", "open"); open != nil {
		ha := p.Method(pkgCore, "eventloop", "handleAction")
		okH := false
		for _, call := range p.callsIn(open, ha) {
			if ph, ok := call.Common().Args[2].(*ssa.Phi); ok {
				for _, e := range ph.Edges {
					if ex, ok := e.(*ssa.Extract); ok && ex.Index == 1 {
						if cl, ok := ex.Tuple.(*ssa.Call); ok && cl.Call.IsInvoke() && cl.Call.Method.Name() == "OnCOpened" {
							okH = true
						}
					}
				}
			}
		}
		c.check(okH, "eventloop.open: OnCOpened's action is handled before returning to the poller", p.pos(open.Pos()), "handleAction(c, action)", "the action returned by OnCOpened does not reach handleAction in eventloop.open: a rejected client stays connected and its requests are served")
		if ha != nil {
			closeConn := p.Method(pkgCore, "eventloop", "closeConn")
			okC := false
			for _, call := range p.callsIn(ha, closeConn) {
				if guardHas(guardsOf(call), func(g Guard) bool {
					_, op, y, ok := cmpGuard(g)
					k, isK := constInt(y)
					return ok && op == token.EQL && isK && k == closeK
				}) {
					okC = true
				}
			}
			c.check(okC, "eventloop.handleAction: Close closes the connection", p.pos(ha.Pos()), "case Close: closeConn", "handleAction does not close the connection for action Close")
		}
	}
}

func decidingCondsOfTrueReturn(fn *ssa.Function) []Guard {
	var out []Guard
	allInstrs(fn, func(in ssa.Instruction) {
		if r, ok := in.(*ssa.Return); ok {
			if k, isConst := results(r)[0].(*ssa.Const); isConst && k.Value.String() == "true" {
				out = append(out, decidingConds(r.Block(), 0)...)
			}
		}
	})
	return out
}

func ruleC18_2(c *Ctx) {
	p := c.P
	parse := c.needMethod(pkgAuthIP, "AuthIp", "parseAuthIp")
	if parse == nil {
		return
	}
	c.examined(len(parse.Blocks))
	ipMap := p.Global(pkgAuthIP, "IpMap")
	removes := false
	var at ssa.Instruction
	// (the map operations may live in a helper such as (*ipMap).apply(auth), called on IpMap)
	p.allInstrsDeep(parse, func(in ssa.Instruction) {
		ci, ok := in.(ssa.CallInstruction)
		if !ok {
			return
		}
		n := staticCalleeName(ci.Common())
		if strings.HasSuffix(n, "hashmap.HashMap).Del") && len(ci.Common().Args) > 0 {
			recv := ci.Common().Args[0]
			onMap := strings.Contains(expr(recv), "authip.IpMap") || strings.Contains(expr(strip(recv)), "authip.IpMap")
			if fa, isFA := recv.(*ssa.FieldAddr); isFA && !onMap {
				onMap = strings.Contains(expr(strip(fa.X)), "authip.IpMap")
			}
			if onMap {
				removes = true
				at = in
			}
		}
	})
	// or a fresh map swapped in
	p.allInstrsDeep(parse, func(in ssa.Instruction) {
		if st, ok := in.(*ssa.Store); ok {
			if fa, ok := st.Addr.(*ssa.FieldAddr); ok && fa.X == ssa.Value(ipMap) && fieldName(fa.X.Type(), fa.Field) == "HashMap" {
				removes = true
				at = in
			}
			if st.Addr == ssa.Value(ipMap) {
				removes = true
				at = in
			}
		}
	})
	c.check(removes, "parseAuthIp: reload removes unlisted addresses", posOr(c, at, parse), "stale keys are deleted (or the set is replaced)",
		"reloading the whitelist only ever inserts: an address removed from the file stays admitted until the proxy is restarted")
	if removes && at != nil {
		// the removal is reached only when the file was read and parsed
		okG := guardHas(guardsOf(at), func(g Guard) bool {
			_, op, y, ok := cmpGuard(g)
			return ok && op == token.EQL && isNilConst(y)
		})
		c.check(okG, "parseAuthIp: removal only after a successful parse", c.at(at), "behind the read/unmarshal error checks", "addresses are removed although the file could not be read or parsed: a transiently unreadable file locks everybody out")
	}
}

func ruleC18_3(c *Ctx) {
	p := c.P
	watch := c.needMethod(pkgAuthIP, "AuthIp", "watchYml")
	parse := c.needMethod(pkgAuthIP, "AuthIp", "parseAuthIp")
	if watch == nil || parse == nil {
		return
	}
	ops := map[string]int64{}
	for _, n := range []string{"Write", "Create", "Rename"} {
		v, ok := p.foreignConstInt("github.com/fsnotify/fsnotify", n)
		if !ok {
			c.undecided("fsnotify."+n, "-", "constant not found in export data")
			continue
		}
		ops[n] = v
	}
	// conditions of the form ev.Op & K == K that lead to parseAuthIp
	found := map[int64]bool{}
	// the watch loop: a closure of watchYml, or a function of the package that watchYml starts (`go a.watchLoop(w)`) or calls
	var cands []*ssa.Function
	seenC := map[*ssa.Function]bool{}
	var addC func(f *ssa.Function, depth int)
	addC = func(f *ssa.Function, depth int) {
		withClosures(f, func(g *ssa.Function) {
			if seenC[g] {
				return
			}
			seenC[g] = true
			cands = append(cands, g)
			if depth >= 2 {
				return
			}
			allInstrs(g, func(in ssa.Instruction) {
				if ci, ok := in.(ssa.CallInstruction); ok {
					if callee := ci.Common().StaticCallee(); callee != nil && callee != parse && callee.Blocks != nil && calleePkg(callee) == pkgAuthIP {
						addC(callee, depth+1)
					}
				}
			})
		})
	}
	addC(watch, 0)
	for _, fn := range cands {
		c.touch(fn)
		calls := directCallsIn(fn, parse)
		if len(calls) == 0 {
			continue
		}
		for _, call := range calls {
			// all If conditions from which the call's block is reachable via their true edge
			for _, b := range fn.Blocks {
				ifi, ok := b.Instrs[len(b.Instrs)-1].(*ssa.If)
				if !ok {
					continue
				}
				// a predicate helper (isReloadOp(ev.Op)): every single-bit test that makes it return true counts
				{
					cond, neg := ifi.Cond, false
					for {
						u, ok := cond.(*ssa.UnOp)
						if !ok {
							break
						}
						cond, neg = u.X, !neg
					}
					if call, ok := cond.(*ssa.Call); ok {
						if h := call.Call.StaticCallee(); h != nil && p.isHelper(h) {
							tb := b.Succs[0]
							if neg {
								tb = b.Succs[1]
							}
							var hdr *ssa.BasicBlock
							if l := innermostLoop(loopsOf(fn), b); l != nil {
								hdr = l.Header
							}
							if tb == call.Block() || tb == callBlock(calls) || reachableBlocks(tb, func(x *ssa.BasicBlock) bool { return x == hdr })[callBlock(calls)] {
								for _, bit := range trueBits(h) {
									found[bit] = true
								}
							}
							continue
						}
					}
				}
				bo, ok := ifi.Cond.(*ssa.BinOp)
				if !ok || (bo.Op != token.EQL && bo.Op != token.NEQ) {
					continue
				}
				and, ok := bo.X.(*ssa.BinOp)
				if !ok || and.Op != token.AND {
					continue
				}
				mask, isK := constInt(and.Y)
				k2, isK2 := constInt(bo.Y)
				if !isK || !isK2 {
					continue
				}
				// which single bits make the test succeed on its own?
				var bits []int64
				tb := b.Succs[0]
				switch {
				case bo.Op == token.EQL && k2 == mask && mask&(mask-1) == 0: // Op&K == K, K one bit
					bits = []int64{mask}
				case bo.Op == token.NEQ && k2 == 0: // Op&M != 0: any bit of M
					for bit := int64(1); bit <= mask; bit <<= 1 {
						if mask&bit != 0 {
							bits = append(bits, bit)
						}
					}
				case bo.Op == token.EQL && k2 == 0: // Op&M == 0: the false edge is the reload edge
					tb = b.Succs[1]
					for bit := int64(1); bit <= mask; bit <<= 1 {
						if mask&bit != 0 {
							bits = append(bits, bit)
						}
					}
				default:
					continue
				}
				k := int64(0)
				_ = k
				var hdr *ssa.BasicBlock
				if l := innermostLoop(loopsOf(fn), b); l != nil {
					hdr = l.Header
				}
				if tb == call.Block() || reachableBlocks(tb, func(x *ssa.BasicBlock) bool { return x == hdr })[call.Block()] {
					for _, bit := range bits {
						found[bit] = true
					}
				}
			}
		}
	}
	c.examined(len(found))
	for _, n := range []string{"Write", "Create", "Rename"} {
		why := map[string]string{
			"Write":  "an in-place rewrite of the file is not picked up",
			"Create": "a file replaced by rename (write temp + rename onto the name, what editors and config management do) is reported as Create on the watched name and is not picked up",
			"Rename": "a rename of the file is not picked up",
		}[n]
		c.check(found[ops[n]], "watcher reloads on fsnotify."+n, p.pos(watch.Pos()), "ev.Op&"+n+" == "+n+" leads to parseAuthIp", "the watcher does not reload on "+n+": "+why)
	}
}

// foreignConstInt reads an integer constant of a dependency from its export data.
func (p *Prog) foreignConstInt(pkgPath, name string) (int64, bool) {
	for _, pk := range p.Pkgs {
		for path, imp := range pk.Imports {
			if path == pkgPath && imp.Types != nil {
				if k, ok := imp.Types.Scope().Lookup(name).(interface{ Val() constant.Value }); ok {
					v, exact := constant.Int64Val(constant.ToInt(k.Val()))
					return v, exact
				}
			}
		}
	}
	return 0, false
}

func callBlock(calls []ssa.CallInstruction) *ssa.BasicBlock {
	if len(calls) == 0 {
		return nil
	}
	return calls[0].Block()
}

// trueBits: the single bits b such that `op & b != 0` alone makes predicate helper h return true: mask tests
// (x&K == K, x&M != 0) that are a returned value, an edge of a returned `||` phi, or a branch to `return true`.
func trueBits(h *ssa.Function) []int64 {
	var out []int64
	maskBits := func(v ssa.Value) []int64 {
		bo, ok := v.(*ssa.BinOp)
		if !ok {
			return nil
		}
		and, ok := bo.X.(*ssa.BinOp)
		if !ok || and.Op != token.AND {
			return nil
		}
		mask, isK := constInt(and.Y)
		k2, isK2 := constInt(bo.Y)
		if !isK || !isK2 {
			return nil
		}
		var bits []int64
		switch {
		case bo.Op == token.EQL && k2 == mask && mask&(mask-1) == 0:
			bits = []int64{mask}
		case bo.Op == token.NEQ && k2 == 0:
			for bit := int64(1); bit <= mask; bit <<= 1 {
				if mask&bit != 0 {
					bits = append(bits, bit)
				}
			}
		}
		return bits
	}
	for _, r := range returnsReachable(h) {
		ret := r.(*ssa.Return)
		v := results(ret)[0]
		out = append(out, maskBits(v)...)
		if ph, ok := v.(*ssa.Phi); ok {
			for i, e := range ph.Edges {
				out = append(out, maskBits(e)...)
				// a constant-true edge: the branch that led here
				if k, isK := e.(*ssa.Const); isK && k.Value != nil && k.Value.String() == "true" {
					if g, ok := edgeFact(ph.Block().Preds[i], ph.Block()); ok && g.Truth {
						out = append(out, maskBits(g.Cond)...)
					}
				}
			}
		}
		if k, isK := v.(*ssa.Const); isK && k.Value != nil && k.Value.String() == "true" {
			for _, g := range decidingConds(ret.Block(), 0) {
				if g.Truth {
					out = append(out, maskBits(g.Cond)...)
				}
			}
		}
	}
	return out
}

// directCallsIn: the calls of target in fn itself (closures and helpers are visited as functions of their own).
func directCallsIn(fn, target *ssa.Function) []ssa.CallInstruction {
	var out []ssa.CallInstruction
	allInstrs(fn, func(in ssa.Instruction) {
		if ci, ok := in.(ssa.CallInstruction); ok && ci.Common().StaticCallee() == target {
			out = append(out, ci)
		}
	})
	return out
}

package main

import (
	"fmt"
	"go/token"
	"go/types"
	"strings"

	"golang.org/x/tools/go/ssa"
)

func init() {
	rule("C07.1", "E2+E3", "Msg.FragDoneNumber counts each fragment reply once: ++ in conn.sread before the merge dispatch, = len(Body) on whole-request error, = 0 on recycle", 4, ruleC07_1)
	rule("C07.2", "E3+E4+E5a", "MGet/MSet/Del complete the request (Done, RspBody) only on the edge where all fragments have answered; otherwise they return Continue", 9, ruleC07_2)
	rule("C07.3", "E2+E3+E8", "before completion only per-fragment state or commutative accumulators are written; the final assembly reads request-ordered state, so arrival order cannot matter", 8, ruleC07_3)
	rule("C07.4", "E8", "MGET assembly: header counts the requested keys; key k contributes Body[Hash(k)].Rsp[i] with i the position of k in its slot group, once", 5, ruleC07_4)
}

// completionGuard matches  f.Peer.FragDoneNumber < len(f.Peer.Body)  for parameter f.
// completionCond recognises the test that separates "fragments still outstanding" from "all answered":
// FragDoneNumber < len(Body) (waiting on the true edge) or any equivalent spelling (>=, operands swapped; the
// request reached through f.Peer directly or through a local `msg := f.Peer`). waitOnTrue tells which edge waits.
func (c *Ctx) completionCond(v ssa.Value, f ssa.Value) (waitOnTrue bool, ok bool) {
	p := c.P
	if un, isU := v.(*ssa.UnOp); isU && un.Op == token.NOT {
		w, ok := c.completionCond(un.X, f)
		return !w, ok
	}
	if call, isC := v.(*ssa.Call); isC {
		// the test in a predicate helper: `if fragsPending(f, sfd, "mget") { return codec.Continue }`
		return c.completionHelper(call, f)
	}
	bo, isB := v.(*ssa.BinOp)
	if !isB {
		return false, false
	}
	fdn := p.Field(pkgCore, "Msg", "FragDoneNumber")
	body := p.Field(pkgCore, "Msg", "Body")
	peer := p.Field(pkgCore, "Frag", "Peer")
	ofPeer := func(m ssa.Value) bool {
		pf, ok := fieldLoad(m, peer)
		return ok && strip(pf) == f
	}
	isCount := func(x ssa.Value) bool {
		m, ok := fieldLoad(x, fdn)
		return ok && ofPeer(m)
	}
	isLen := func(x ssa.Value) bool {
		call, ok := strip(x).(*ssa.Call)
		if !ok {
			return false
		}
		if b, ok := call.Call.Value.(*ssa.Builtin); !ok || b.Name() != "len" {
			return false
		}
		m, ok := fieldLoad(call.Call.Args[0], body)
		return ok && ofPeer(m)
	}
	op := bo.Op
	switch {
	case isCount(bo.X) && isLen(bo.Y):
	case isLen(bo.X) && isCount(bo.Y):
		op = flipCmp(op)
	default:
		return false, false
	}
	switch op {
	case token.LSS:
		return true, true // count < len: waiting
	case token.GEQ:
		return false, true // count >= len: complete on the true edge
	}
	return false, false
}

// completionHelper: call is a call of a boolean helper whose answer is decided by the completion test on the parameter
// that receives f: every return on one edge of that test gives one constant, every return on the other edge the other.
func (c *Ctx) completionHelper(call *ssa.Call, f ssa.Value) (waitOnTrue bool, ok bool) {
	h := call.Call.StaticCallee()
	if h == nil || !c.P.isHelper(h) || h.Signature.Results().Len() != 1 || len(h.Blocks) == 0 {
		return false, false
	}
	var prm *ssa.Parameter
	for i, a := range call.Call.Args {
		if strip(a) == f && i < len(h.Params) {
			prm = h.Params[i]
		}
	}
	if prm == nil {
		return false, false
	}
	for _, b := range h.Blocks {
		ifi, isIf := b.Instrs[len(b.Instrs)-1].(*ssa.If)
		if !isIf {
			continue
		}
		if _, isCall := ifi.Cond.(*ssa.Call); isCall {
			continue
		}
		var innerWait, is bool
		withBinding(h, call.Call.Args, func() { innerWait, is = c.completionCond(ifi.Cond, strip(prm)) })
		if !is {
			continue
		}
		var onTrue, onFalse []bool
		okAll := true
		for _, r := range returnsReachable(h) {
			cst, isC := results(r.(*ssa.Return))[0].(*ssa.Const)
			if !isC || cst.Value == nil {
				okAll = false
				break
			}
			switch {
			case b.Succs[0].Dominates(r.Block()) && b.Succs[0] != b.Succs[1] && len(b.Succs[0].Preds) == 1:
				onTrue = append(onTrue, constBoolValue(cst))
			case b.Succs[1].Dominates(r.Block()) && len(b.Succs[1].Preds) == 1:
				onFalse = append(onFalse, constBoolValue(cst))
			default:
				okAll = false
			}
		}
		same := func(xs []bool) bool {
			for _, x := range xs {
				if x != xs[0] {
					return false
				}
			}
			return len(xs) > 0
		}
		if !okAll || !same(onTrue) || !same(onFalse) || onTrue[0] == onFalse[0] {
			return false, false
		}
		c.touch(h)
		if innerWait {
			return onTrue[0], true
		}
		return onFalse[0], true
	}
	return false, false
}

func (c *Ctx) isCompletionCond(v ssa.Value, f ssa.Value) bool {
	_, ok := c.completionCond(v, f)
	return ok
}

func ruleC07_1(c *Ctx) {
	p := c.P
	fdn := p.Field(pkgCore, "Msg", "FragDoneNumber")
	body := p.Field(pkgCore, "Msg", "Body")
	sread := c.needMethod(pkgCore, "conn", "sread")
	if fdn == nil || sread == nil {
		return
	}
	ws := p.fieldWrites(fdn)
	c.examined(len(ws))
	incs := 0
	for _, w := range ws {
		encl := homeFn(w.Fn)
		c.touch(encl)
		name := "Msg.FragDoneNumber write in " + shortFn(encl)
		switch {
		case isZero(w.Val) && encl.Name() == "Put":
			c.ok(name+" (reset)", c.at(w.Instr), "= 0 on recycle")
		case encl == sread:
			if bo, ok := w.Val.(*ssa.BinOp); ok && bo.Op == token.ADD && isOne(bo.Y) {
				if base, ok := fieldLoad(bo.X, fdn); ok && expr(base) == expr(w.Base) {
					incs++
					// once per reply and before every merge call
					inLoop := innermostLoop(loopsOf(sread), w.Instr.Block()) != nil
					domAll := true
					n := 0
					p.allInstrsDeep(sread, func(in ssa.Instruction) {
						if call, ok := in.(*ssa.Call); ok {
							if cal := call.Call.StaticCallee(); cal != nil && recvNamed(cal) != nil && recvNamed(cal).Obj().Name() == "SRespCodec" {
								switch cal.Name() {
								case "MGet", "MSet", "Del", "Default":
									n++
									if !dominatesInstr(w.Instr, in) {
										domAll = false
									}
								}
							}
						}
					})
					c.check(!inLoop && domAll && n == 4, name+" (++)", c.at(w.Instr), "one increment per decoded reply, before the merge dispatch",
						"the per-request counter of answered fragments is not incremented exactly once before the merge functions run: completion is detected too early (short reply) or never (client waits forever)")
					continue
				}
			}
			// whole-request error: = len(msg.Body) of the same message
			if call, ok := w.Val.(*ssa.Call); ok {
				if b, ok := call.Call.Value.(*ssa.Builtin); ok && b.Name() == "len" {
					if base, ok := fieldLoad(call.Call.Args[0], body); ok && expr(base) == expr(w.Base) {
						c.ok(name+" (= len(Body))", c.at(w.Instr), "whole-request error completes the count")
						continue
					}
				}
			}
			c.bad(name, c.at(w.Instr), "unexpected assignment to the answered-fragments counter: "+expr(w.Val))
		default:
			// any other writer: acceptable only if it sets the counter to len(Body) of the same message (a completion)
			okLen := false
			if call, ok := w.Val.(*ssa.Call); ok {
				if b, ok := call.Call.Value.(*ssa.Builtin); ok && b.Name() == "len" {
					if base, ok := fieldLoad(call.Call.Args[0], body); ok && expr(base) == expr(w.Base) {
						okLen = true
					}
				}
			}
			c.check(okLen, name, c.at(w.Instr), "= len(Body): completes the request", "the answered-fragments counter is modified outside conn.sread / msgPool.Put by something other than a completion (= len(Body)): "+expr(w.Val))
		}
	}
	c.check(incs == 1, "conn.sread increments the counter once", p.pos(sread.Pos()), "one ++", fmt.Sprintf("%d increments of Msg.FragDoneNumber in conn.sread", incs))
}

func mergeFuncs(c *Ctx) map[string]*ssa.Function {
	out := map[string]*ssa.Function{}
	for _, n := range []string{"MGet", "MSet", "Del"} {
		if f := c.needMethod(pkgCore, "SRespCodec", n); f != nil {
			out[n] = f
		}
	}
	return out
}

func ruleC07_2(c *Ctx) {
	p := c.P
	doneF := p.Field(pkgCore, "Msg", "Done")
	rsp := p.Field(pkgCore, "Msg", "RspBody")
	cont := p.Global(pkgCodec, "Continue")
	for name, fn := range mergeFuncs(c) {
		c.examined(len(fn.Blocks))
		f := ssa.Value(fn.Params[1])
		tag := "SRespCodec." + name
		// the guard
		var guardIf *ssa.If
		for _, b := range fn.Blocks {
			if ifi, ok := b.Instrs[len(b.Instrs)-1].(*ssa.If); ok && c.isCompletionCond(ifi.Cond, f) {
				guardIf = ifi
			}
		}
		if guardIf == nil {
			c.bad(tag+": completion test", p.pos(fn.Pos()), "no test `f.Peer.FragDoneNumber < len(f.Peer.Body)` found: the request is completed when the first fragment answers (short or partial reply) or never")
			continue
		}
		// the waiting edge returns Continue
		waitOnTrue, _ := c.completionCond(guardIf.Cond, f)
		tb := guardIf.Block().Succs[0]
		if !waitOnTrue {
			tb = guardIf.Block().Succs[1]
		}
		okCont := false
		if r, ok := tb.Instrs[len(tb.Instrs)-1].(*ssa.Return); ok {
			if ld, ok := results(r)[0].(*ssa.UnOp); ok && ld.X == ssa.Value(cont) {
				okCont = true
			}
		}
		c.check(okCont, tag+": waits while fragments are outstanding", c.at(guardIf), "returns codec.Continue on FragDoneNumber < len(Body)", "the edge on which fragments are still outstanding does not return codec.Continue: eventloop.sread would flush an incomplete request")
		// the merge functions tell the event loop one of two things: wait (Continue) or go on and flush (nil)
		for _, r := range returnsReachable(fn) {
			rv := results(r.(*ssa.Return))[0]
			okR := isNilConst(rv)
			if ld, ok := rv.(*ssa.UnOp); ok && ld.X == ssa.Value(cont) {
				okR = true
			}
			if !okR {
				c.bad(tag+": returns nil or Continue", c.at(r), "the merge function returns "+expr(rv)+": eventloop.sread knows Continue and MovedOrAsk only and leaves its loop on anything else without flushing - the request is completed (Done, reply stored) but its reply stays in the queue until some later reply for the same client happens to flush it")
			}
		}
		isGuard := func(g Guard) bool { return g.If == guardIf && g.Truth == !waitOnTrue }
		n := 0
		p.allInstrsDeep(fn, func(in ssa.Instruction) {
			st, ok := in.(*ssa.Store)
			if !ok {
				return
			}
			fa, ok := st.Addr.(*ssa.FieldAddr)
			if !ok {
				return
			}
			fv := fieldVar(fa.X.Type(), fa.Field)
			if fv != doneF && fv != rsp {
				return
			}
			n++
			gs := guardsOf(st)
			c.check(guardHas(gs, isGuard), tag+": Msg."+fv.Name()+" written only when all fragments answered", c.at(in), "dominated by !(FragDoneNumber < len(Body))",
				"the request's "+fv.Name()+" is written before all of its fragments have answered: with two nodes the client gets a reply built from the first answer only", withGuards(gs))
		})
		if n < 2 {
			c.bad(tag+": completion stores", p.pos(fn.Pos()), fmt.Sprintf("only %d stores to Msg.Done/RspBody found: the request is never completed here", n))
		}
	}
}

func ruleC07_3(c *Ctx) {
	p := c.P
	fragT := p.Named(pkgCore, "Frag")
	delNum := p.Field(pkgCore, "Msg", "DelNum")
	okF := p.Field(pkgCore, "Frag", "Ok")
	body := p.Field(pkgCore, "Msg", "Body")
	rsp := p.Field(pkgCore, "Msg", "RspBody")
	fns := mergeFuncs(c)
	for name, fn := range fns {
		f := ssa.Value(fn.Params[1])
		tag := "SRespCodec." + name
		var guardIf *ssa.If
		for _, b := range fn.Blocks {
			if ifi, ok := b.Instrs[len(b.Instrs)-1].(*ssa.If); ok && c.isCompletionCond(ifi.Cond, f) {
				guardIf = ifi
			}
		}
		if guardIf == nil {
			continue // reported by C07.2
		}
		allInstrs(fn, func(in ssa.Instruction) {
			st, ok := in.(*ssa.Store)
			if !ok {
				return
			}
			fa, ok := st.Addr.(*ssa.FieldAddr)
			if !ok {
				return
			}
			waitOnTrue, _ := c.completionCond(guardIf.Cond, f)
			if guardHas(guardsOf(st), func(g Guard) bool { return g.If == guardIf && g.Truth == !waitOnTrue }) {
				return // after completion
			}
			fv := fieldVar(fa.X.Type(), fa.Field)
			owner := fa.X.Type()
			if pt, ok := owner.(*types.Pointer); ok {
				owner = pt.Elem()
			}
			switch {
			case types.Identical(owner, fragT) && strip(fa.X) == f:
				c.ok(tag+": pre-completion write to f."+fv.Name(), c.at(in), "state of the answering fragment only")
			case fv == delNum:
				bo, ok := st.Val.(*ssa.BinOp)
				okAcc := ok && bo.Op == token.ADD
				if okAcc {
					_, l := fieldLoad(bo.X, delNum)
					_, r := fieldLoad(bo.Y, delNum)
					okAcc = l || r
				}
				c.check(okAcc, tag+": pre-completion write to Msg.DelNum", c.at(in), "DelNum = DelNum + n (commutative)", "the per-request accumulator is not updated as DelNum + n: the sum depends on the order in which nodes answer")
			default:
				c.bad(tag+": pre-completion write to "+fv.Name(), c.at(in), "state other than the answering fragment's own (or a commutative accumulator) is written before all fragments have answered: the final reply can depend on the arrival order")
			}
		})
	}
	// final assembly per command
	if fn := fns["Del"]; fn != nil {
		okD := false
		var at ssa.Instruction
		for _, b := range fn.Blocks {
			for _, t := range c.emissions(fn, rsp)[b] {
				if t.kind == "val" || t.kind == "other" {
					at = t.at
				}
				if t.v != nil {
					if call, ok := strip(t.v).(*ssa.Call); ok && staticCalleeName(&call.Call) == "fmt.Sprintf" {
						fm, _ := constString(call.Call.Args[0])
						els := varargElems(call.Call.Args[1])
						if fm == ":%d\r\n" && len(els) == 1 {
							if _, is := fieldLoad(els[0], delNum); is {
								okD = true
							}
						}
					}
				}
			}
		}
		c.check(okD, "SRespCodec.Del: reply is the accumulated count", posOr(c, at, fn), "\":%d\\r\\n\" of Msg.DelNum", "the DEL reply is not the RESP integer of the accumulated per-node counts")
	}
	if fn := fns["MSet"]; fn != nil {
		// OK only on the edge where the loop over all fragments saw no failure
		em := c.emissions(fn, rsp)
		// what a path stores into the reply: each emitted value is resolved along the path (`reply := OK; if failed
		// { reply = ErrUnKnown }; RspBody = append(RspBody[:0], reply...)` stores either, depending on the way taken)
		isOKText := func(t string) bool { return strings.Contains(t, "\"+OK\\r\\n\"") }
		classify := func(pa []*ssa.BasicBlock) (sawOK, sawErr bool) {
			for i, b := range pa {
				for _, t := range em[b] {
					switch {
					case t.kind == "lit" && t.text == "+OK\r\n":
						sawOK = true
					case t.kind == "val":
						text := t.text
						if t.v != nil {
							text = expr(valueOnPath(t.v, pa[:i+1]))
							if ph, isPhi := t.v.(*ssa.Phi); isPhi && ph.Block() == b && i == 0 {
								text = t.text
							}
						}
						if isOKText(text) {
							sawOK = true
						}
						if strings.Contains(text, "-ERR") {
							sawErr = true
						}
					}
				}
			}
			return
		}
		var okBlock, errBlock *ssa.BasicBlock
		for b, ts := range em {
			for _, t := range ts {
				if t.kind == "val" && isOKText(t.text) {
					okBlock = b
				}
				if t.kind == "val" && strings.Contains(t.text, "-ERR") {
					errBlock = b
				}
				if t.kind == "lit" && t.text == "+OK\r\n" {
					okBlock = b
				}
			}
		}
		if okBlock == nil {
			c.bad("SRespCodec.MSet: OK reply", p.pos(fn.Pos()), "no store of +OK into Msg.RspBody found")
		} else {
			// the loop ranging over msg.Body
			var loop *Loop
			for _, l := range loopsOf(fn) {
				for b := range l.Blocks {
					for _, in := range b.Instrs {
						if nx, ok := in.(*ssa.Next); ok {
							if rg, ok := nx.Iter.(*ssa.Range); ok {
								if _, is := fieldLoad(rg.X, body); is {
									loop = l
								}
							}
						}
					}
				}
			}
			isRet := func(x *ssa.BasicBlock) bool { _, r := x.Instrs[len(x.Instrs)-1].(*ssa.Return); return r }
			okAll, okErr := false, false
			if loop != nil && !loop.Blocks[okBlock] && loop.Header.Dominates(okBlock) {
				// (a) +OK is stored only on ways that leave the loop through its exhaustion edge: every feasible path from
				//     the header that stores +OK leaves the loop at the header (flags such as allOk / failed are followed)
				paths, complete := feasiblePaths(loop.Header, isRet, 400)
				nOK := 0
				okAll = complete
				for _, pa := range paths {
					if sawOK, _ := classify(pa); sawOK {
						nOK++
						if len(pa) > 1 && loop.Blocks[pa[1]] {
							okAll = false
						}
					}
				}
				if nOK == 0 {
					okAll = false
				}
			}
			c.check(okAll, "SRespCodec.MSet: OK only if every fragment is Ok", firstPos(c, em[okBlock]), "the +OK store is reached only after the loop over all of Msg.Body ran to exhaustion",
				"+OK is stored without having examined every fragment of the request: a node's failure is reported as success depending on iteration/arrival order")
			if errBlock != nil && loop != nil {
				// (b) from the !v.Ok edge of the per-fragment test every feasible way out stores the error reply and never +OK
				for b := range loop.Blocks {
					ifi, ok := b.Instrs[len(b.Instrs)-1].(*ssa.If)
					if !ok {
						continue
					}
					if _, is := fieldLoad(ifi.Cond, okF); !is {
						continue
					}
					bad := b.Succs[1]
					paths, complete := feasiblePathsVia(b, bad, isRet, 400)
					okErr = complete && len(paths) > 0
					for _, pa := range paths {
						sawOK, sawErr := classify(pa)
						if !sawErr || sawOK {
							okErr = false
						}
					}
				}
			}
			c.check(okErr, "SRespCodec.MSet: error when a fragment is not Ok", firstPos(c, em[errBlock]), "error reply on !v.Ok", "no error reply is produced on the !v.Ok edge of the loop over the fragments")
		}
		// f.Ok is the type test of this fragment's reply
		okSet := false
		typeF := p.Field(pkgCore, "Frag", "Type")
		rspOk, _ := p.ConstInt(pkgCodec, "RspOk")
		for _, w := range p.fieldWrites(okF) {
			if homeFn(w.Fn) != fn {
				continue
			}
			if bo, ok := w.Val.(*ssa.BinOp); ok && bo.Op == token.EQL {
				if base, is := fieldLoad(bo.X, typeF); is && strip(base) == ssa.Value(fn.Params[1]) {
					if k, isK := constInt(bo.Y); isK && k == rspOk && strip(w.Base) == ssa.Value(fn.Params[1]) {
						okSet = true
					}
				}
			}
		}
		c.check(okSet, "SRespCodec.MSet: f.Ok = (f.Type == RspOk)", p.pos(fn.Pos()), "per-fragment success is the reply type of that fragment", "Frag.Ok is not set from this fragment's own reply type")
	}
}

func reachedOnlyFromLoop(l *Loop, b *ssa.BasicBlock) bool {
	for _, pr := range b.Preds {
		if !l.Blocks[pr] {
			return false
		}
	}
	return len(b.Preds) > 0
}

func posOr(c *Ctx, in ssa.Instruction, fn *ssa.Function) string {
	if in != nil {
		return c.at(in)
	}
	return c.P.pos(fn.Pos())
}

func firstPos(c *Ctx, ts []token_) string {
	if len(ts) > 0 {
		return c.at(ts[0].at)
	}
	return "-"
}

func ruleC07_4(c *Ctx) {
	p := c.P
	fn := c.needMethod(pkgCore, "SRespCodec", "MGet")
	hash := c.need(pkgHash + ".Hash")
	if fn == nil || hash == nil {
		return
	}
	c.examined(len(fn.Blocks))
	keys := p.Field(pkgCore, "Msg", "Keys")
	frags := p.Field(pkgCore, "Msg", "Frags")
	body := p.Field(pkgCore, "Msg", "Body")
	rspF := p.Field(pkgCore, "Frag", "Rsp")
	rsp := p.Field(pkgCore, "Msg", "RspBody")
	// the assembly may have been extracted into a helper of MGet: analyse the family member that iterates msg.Keys
	for _, g := range p.family(fn) {
		for _, sl := range rangeIndexLoops(g) {
			if _, is := fieldLoad(sl.coll, keys); is {
				fn = g
			}
		}
	}
	c.touch(fn)
	em := c.emissions(fn, rsp)
	sls := rangeIndexLoops(fn)
	var outer, inner *sliceLoop
	for i := range sls {
		if _, is := fieldLoad(sls[i].coll, keys); is {
			outer = &sls[i]
		}
	}
	if outer == nil {
		c.bad("SRespCodec.MGet: assembly iterates the requested keys in order", p.pos(fn.Pos()), "no `for _, k := range msg.Keys` over the whole key list was found: the reply does not have one element per requested key in request order")
		return
	}
	c.ok("SRespCodec.MGet: assembly iterates the requested keys in order", p.pos(fn.Pos()), "range msg.Keys, index 0..len-1")
	// header: reset '*' itoa(len(msg.Keys)) CRLF in a block that dominates the outer loop
	var hdr []token_
	for b, ts := range em {
		if len(ts) >= 3 && ts[0].kind == "reset" && b.Dominates(outer.loop.Header) {
			hdr = ts
		}
	}
	okH := len(hdr) == 4 && hdr[1].kind == "byte" && hdr[1].text == "*" && hdr[2].kind == "itoa" && hdr[3].kind == "crlf"
	if okH {
		okH = false
		if call, ok := hdr[2].v.(*ssa.Call); ok {
			if b, ok := call.Call.Value.(*ssa.Builtin); ok && b.Name() == "len" {
				if _, is := fieldLoad(call.Call.Args[0], keys); is {
					okH = true
				}
			}
		}
	}
	c.check(okH, "SRespCodec.MGet: array header counts the requested keys", firstPos(c, hdr), "'*' itoa(len(msg.Keys)) CRLF", "the reply header is "+tokString(hdr)+", not '*' len(msg.Keys) CRLF: the client's reply stream goes out of step")
	// inner loop over msg.Frags[Hash(k)]
	var k ssa.Value
	for i := range sls {
		lk, ok := strip(sls[i].coll).(*ssa.Lookup)
		if !ok {
			continue
		}
		if _, is := fieldLoad(lk.X, frags); !is {
			continue
		}
		if hc, ok := p.isCallTo(strip(lk.Index), hash); ok && outer.isElem(hc.Call.Args[0]) && outer.loop.Blocks[sls[i].loop.Header] {
			inner = &sls[i]
			k = hc.Call.Args[0]
		}
	}
	if inner == nil {
		if c.mgetSearchHelperForm(fn, outer, em, frags, body, rspF, hash) {
			return
		}
		c.bad("SRespCodec.MGet: position of the key in its slot group", p.pos(fn.Pos()), "no search of key k in msg.Frags[Hash(k)] was found inside the loop over the keys")
		return
	}
	// the element appended
	var app token_
	n := 0
	var appBlock *ssa.BasicBlock
	for b, ts := range em {
		if inner.loop.Blocks[b] || (outer.loop.Blocks[b] && b != outer.loop.Header) {
			for _, t := range ts {
				app = t
				appBlock = b
				n++
			}
		}
	}
	if n != 1 {
		c.bad("SRespCodec.MGet: one element per key", p.pos(fn.Pos()), fmt.Sprintf("%d appends to the reply inside the loop over the keys", n))
		return
	}
	// value: msg.Body[Hash(k)].Rsp[idx] with idx the inner index
	okV := false
	if ld, ok := strip(app.v).(*ssa.UnOp); ok {
		if ia, ok := ld.X.(*ssa.IndexAddr); ok && ia.Index == inner.index {
			if fr, ok := fieldLoad(ia.X, rspF); ok {
				if lk, ok := strip(fr).(*ssa.Lookup); ok {
					if _, is := fieldLoad(lk.X, body); is {
						if hc, ok := p.isCallTo(strip(lk.Index), hash); ok && hc.Call.Args[0] == k {
							okV = true
						}
					}
				}
			}
		}
	}
	c.check(okV, "SRespCodec.MGet: element for key k", c.at(app.at), "msg.Body[Hash(k)].Rsp[i], i = position of k in msg.Frags[Hash(k)]",
		"the element appended for a key is "+app.text+", not the answer at the key's own position in its slot's fragment: keys of one slot get each other's values")
	// guarded by v == k
	gs := guardsAt(appBlock)
	okG := guardHas(gs, func(g Guard) bool {
		x, op, y, ok := cmpGuard(g)
		if !ok || op != token.EQL {
			return false
		}
		return (inner.isElem(x) && strip(y) == strip(k)) || (inner.isElem(y) && strip(x) == strip(k))
	})
	c.check(okG, "SRespCodec.MGet: position found by key equality", c.at(app.at), "on v == k", "the position in the slot group is not selected by equality with the key", withGuards(gs))
	// once per key: after the append control leaves the inner loop
	again := reachableBlocks(appBlock, func(b *ssa.BasicBlock) bool { return b == outer.loop.Header })[inner.loop.Header]
	c.check(!again, "SRespCodec.MGet: one element per key", c.at(app.at), "the search stops at the first match", "after appending the element the search over the slot group continues: a key that occurs twice in the request contributes too many elements")
}

// indexSearch recognises a helper `func(coll []T, key T) int` that returns the first index i with coll[i] == key
// and a negative constant when there is none; returns the parameter positions of coll and key.
func (p *Prog) indexSearch(h *ssa.Function) (collIdx, keyIdx int, ok bool) {
	if h == nil || !p.isHelper(h) || h.Signature.Results().Len() != 1 {
		return 0, 0, false
	}
	if b, isB := h.Signature.Results().At(0).Type().Underlying().(*types.Basic); !isB || b.Info()&types.IsInteger == 0 {
		return 0, 0, false
	}
	saved := map[*ssa.Parameter]ssa.Value{}
	for _, prm := range h.Params {
		if v, had := paramBind[prm]; had {
			saved[prm] = v
			delete(paramBind, prm)
		}
	}
	defer func() {
		for k, v := range saved {
			paramBind[k] = v
		}
	}()
	var loop *sliceLoop
	sls := rangeIndexLoops(h)
	for i := range sls {
		if prm, isP := strip(sls[i].coll).(*ssa.Parameter); isP && prm.Parent() == h {
			loop = &sls[i]
		}
	}
	if loop == nil {
		return 0, 0, false
	}
	collIdx, keyIdx = -1, -1
	for i, prm := range h.Params {
		if ssa.Value(prm) == strip(loop.coll) {
			collIdx = i
		}
	}
	found, miss := false, false
	for _, r := range returnsReachable(h) {
		rv := strip(results(r.(*ssa.Return))[0])
		if n, isK := constInt(rv); isK {
			// the "not found" result: a negative constant returned once the loop is exhausted
			if n >= 0 || loop.loop.Blocks[r.Block()] || len(r.Block().Preds) != 1 || r.Block().Preds[0] != loop.loop.Header {
				return 0, 0, false
			}
			miss = true
			continue
		}
		// (a block that returns is not part of the natural loop; it is entered from the loop body under the equality guard)
		if rv != strip(loop.index) || !loop.loop.Header.Dominates(r.Block()) {
			return 0, 0, false
		}
		okG := false
		for _, g := range guardsAt(r.Block()) {
			x, op, y, isC := cmpGuard(g)
			if !isC || op != token.EQL {
				continue
			}
			if loop.isElem(y) {
				x, y = y, x
			}
			if loop.isElem(x) {
				for i, prm := range h.Params {
					if ssa.Value(prm) == strip(y) {
						keyIdx, okG = i, true
					}
				}
			}
		}
		if !okG {
			return 0, 0, false
		}
		found = true
	}
	return collIdx, keyIdx, found && miss && collIdx >= 0 && keyIdx >= 0
}

// mgetSearchHelperForm: `if i := firstIndex(msg.Frags[Hash(k)], k); i >= 0 { append(…, msg.Body[Hash(k)].Rsp[i]...) }`.
func (c *Ctx) mgetSearchHelperForm(fn *ssa.Function, outer *sliceLoop, em map[*ssa.BasicBlock][]token_, frags, body, rspF *types.Var, hash *ssa.Function) bool {
	p := c.P
	var idx *ssa.Call
	var k ssa.Value
	allInstrs(fn, func(in ssa.Instruction) {
		call, ok := in.(*ssa.Call)
		if !ok || !outer.loop.Blocks[call.Block()] {
			return
		}
		h := call.Call.StaticCallee()
		ci, ki, ok := p.indexSearch(h)
		if !ok {
			return
		}
		lk, ok := strip(call.Call.Args[ci]).(*ssa.Lookup)
		if !ok {
			return
		}
		if _, is := fieldLoad(lk.X, frags); !is {
			return
		}
		if hc, ok := p.isCallTo(strip(lk.Index), hash); ok && outer.isElem(hc.Call.Args[0]) && strip(call.Call.Args[ki]) == strip(hc.Call.Args[0]) {
			idx, k = call, hc.Call.Args[0]
		}
	})
	if idx == nil {
		return false
	}
	c.touch(idx.Call.StaticCallee())
	var app token_
	n := 0
	var appBlock *ssa.BasicBlock
	for b, ts := range em {
		if outer.loop.Blocks[b] && b != outer.loop.Header {
			for _, t := range ts {
				app, appBlock = t, b
				n++
			}
		}
	}
	if n != 1 {
		c.bad("SRespCodec.MGet: one element per key", p.pos(fn.Pos()), fmt.Sprintf("%d appends to the reply inside the loop over the keys", n))
		return true
	}
	okV := false
	if ld, ok := strip(app.v).(*ssa.UnOp); ok {
		if ia, ok := ld.X.(*ssa.IndexAddr); ok && strip(ia.Index) == ssa.Value(idx) {
			if fr, ok := fieldLoad(ia.X, rspF); ok {
				if lk, ok := strip(fr).(*ssa.Lookup); ok {
					if _, is := fieldLoad(lk.X, body); is {
						if hc, ok := p.isCallTo(strip(lk.Index), hash); ok && strip(hc.Call.Args[0]) == strip(k) {
							okV = true
						}
					}
				}
			}
		}
	}
	c.check(okV, "SRespCodec.MGet: element for key k", c.at(app.at), "msg.Body[Hash(k)].Rsp[i], i = position of k in msg.Frags[Hash(k)] (search helper)",
		"the element appended for a key is "+app.text+", not the answer at the key's own position in its slot's fragment: keys of one slot get each other's values")
	gs := guardsAt(appBlock)
	okG := guardHas(gs, func(g Guard) bool {
		x, op, y, ok := cmpGuard(g)
		if !ok || strip(x) != ssa.Value(idx) {
			return false
		}
		n, isK := constInt(y)
		return isK && ((op == token.GEQ && n == 0) || (op == token.GTR && n == -1) || (op == token.NEQ && n == -1))
	})
	c.check(okG, "SRespCodec.MGet: position found by key equality", c.at(app.at), "on i >= 0 of the first-index search by equality", "the position in the slot group is not selected by equality with the key", withGuards(gs))
	inOther := false
	for _, l := range loopsOf(fn) {
		if l.Header != outer.loop.Header && l.Blocks[appBlock] && outer.loop.Blocks[l.Header] {
			inOther = true
		}
	}
	c.check(!inOther, "SRespCodec.MGet: one element per key", c.at(app.at), "one append per key", "the element is appended inside a further loop: a key contributes too many elements")
	return true
}

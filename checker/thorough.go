package main

import (
	"encoding/json"
	"os"
	"os/exec"
	"path/filepath"
)

// thoroughExtras adds, in the thorough tier, the result of the seeded-mutant self-test for this
// property to the evidence (informational: it does not change the verdict, because on an edited tree a
// mutant may legitimately fail to apply).
func thoroughExtras(res *runResult, repo, verif string, pd *PropDef) {
	script := filepath.Join(verif, "scripts", "selftest.py")
	if _, err := os.Stat(script); err != nil {
		res.Extra["selftest"] = map[string]interface{}{"ran": false, "reason": "scripts/selftest.py not found"}
		return
	}
	if repo != "/repo" {
		res.Extra["selftest"] = map[string]interface{}{"ran": false, "reason": "self-test mutates copies of /repo only"}
		return
	}
	tmp, err := os.CreateTemp("", "rcvet-selftest-*.json")
	if err != nil {
		return
	}
	tmp.Close()
	defer os.Remove(tmp.Name())
	cmd := exec.Command("python3", script, "--prop", pd.ID, "--jobs", "8", "--json", tmp.Name())
	cmd.Env = os.Environ()
	out, _ := cmd.CombinedOutput()
	var results []map[string]interface{}
	if b, err := os.ReadFile(tmp.Name()); err == nil {
		json.Unmarshal(b, &results)
	}
	fired, missed, na := 0, 0, 0
	var missedIDs []string
	for _, r := range results {
		st, _ := r["status"].(string)
		switch {
		case len(st) >= 2 && st[:2] == "ok":
			fired++
		case len(st) >= 14 && st[:14] == "not-applicable":
			na++
		default:
			missed++
			if id, ok := r["id"].(string); ok {
				missedIDs = append(missedIDs, id+": "+st)
			}
		}
	}
	tail := string(out)
	if len(tail) > 300 {
		tail = tail[len(tail)-300:]
	}
	res.Extra["selftest"] = map[string]interface{}{"ran": true, "mutants": len(results), "behaved_as_expected": fired, "not_as_expected": missed,
		"not_applicable_to_this_tree": na, "details_not_as_expected": missedIDs, "informational": true, "log_tail": tail}
}

package main

// Robustness against behaviour-preserving refactorings (DESIGN.md section 6, "false alarms"):
//   G1  accessor inlining: a call to a small pure module function that returns one expression is seen
//       through (parameters bound to the call's arguments), unless a rule anchors on that function;
//   G2  predicate helpers: a guard `h(args)` / `!h(args)` / `h(args) == nil` additionally yields the
//       branch outcomes that hold on every path of h to a return with that result;
//   G3  conditions computed as values (`a && b` in a switch case or assignment) are decomposed.
// Inlining bound: depth 2; helpers larger than 60 blocks are not expanded.

import (
	"go/token"
	"go/types"

	"golang.org/x/tools/go/ssa"
)

var (
	curProg   *Prog
	paramBind = map[*ssa.Parameter]ssa.Value{}
	inlining  = false // enabled for the second pass, once the anchors of the rules are known
)

func bindCall(fn *ssa.Function, args []ssa.Value) {
	for i, p := range fn.Params {
		if i < len(args) {
			paramBind[p] = args[i]
		}
	}
}

// withBinding runs f with fn's parameters bound to args and restores the previous bindings afterwards.
func withBinding(fn *ssa.Function, args []ssa.Value, f func()) {
	saved := map[*ssa.Parameter]ssa.Value{}
	had := map[*ssa.Parameter]bool{}
	for _, p := range fn.Params {
		if v, ok := paramBind[p]; ok {
			saved[p], had[p] = v, true
		}
	}
	bindCall(fn, args)
	f()
	for _, p := range fn.Params {
		if had[p] {
			paramBind[p] = saved[p]
		} else {
			delete(paramBind, p)
		}
	}
}

func boundParam(v ssa.Value) (ssa.Value, bool) {
	p, ok := v.(*ssa.Parameter)
	if !ok {
		return nil, false
	}
	b, ok := paramBind[p]
	if !ok || b == v {
		return nil, false
	}
	return b, true
}

func (p *Prog) inlinable(fn *ssa.Function) bool {
	if p == nil || fn == nil || fn.Blocks == nil || !p.ownFunc(fn) || p.anchors[p.declared(fn)] || fn.Synthetic != "" {
		return false
	}
	return len(fn.Blocks) <= 60
}

var pureCache = map[*ssa.Function]int{}

// isPure: no stores outside fresh locals, no map updates, sends, go/defer, and only calls to pure
// functions (a short list of externals, builtins, other pure module functions).
func (p *Prog) isPure(fn *ssa.Function, depth int) bool {
	if v, ok := pureCache[fn]; ok {
		return v == 1
	}
	if depth > 3 || fn.Blocks == nil {
		return false
	}
	pureCache[fn] = 0
	pure := true
	allInstrs(fn, func(in ssa.Instruction) {
		if !pure {
			return
		}
		switch x := in.(type) {
		case *ssa.Store:
			// stores into memory allocated by this very call (locals, vararg arrays, literals) are not effects
			if _, ok := x.Addr.(*ssa.Alloc); ok {
				return
			}
			if ia, ok := x.Addr.(*ssa.IndexAddr); ok {
				if _, ok := ia.X.(*ssa.Alloc); ok {
					return
				}
			}
			if fa, ok := x.Addr.(*ssa.FieldAddr); ok {
				if _, ok := fa.X.(*ssa.Alloc); ok {
					return
				}
			}
			pure = false
		case *ssa.MapUpdate, *ssa.Send, *ssa.Go, *ssa.Defer, *ssa.Panic, *ssa.Select:
			pure = false
		case *ssa.Convert:
			// unsafe reinterpretation (utils.S2B/B2S): the result is not an expression over the arguments
			if b, ok := x.Type().Underlying().(*types.Basic); ok && b.Kind() == types.UnsafePointer {
				pure = false
			}
			if b, ok := x.X.Type().Underlying().(*types.Basic); ok && b.Kind() == types.UnsafePointer {
				pure = false
			}
		case *ssa.Call:
			if _, ok := x.Call.Value.(*ssa.Builtin); ok {
				return
			}
			if x.Call.IsInvoke() {
				// interface getters used as conditions (IsOpened, IsSlave, Fd…) are treated as pure reads
				switch x.Call.Method.Name() {
				case "IsOpened", "IsSlave", "Fd", "InitializeStatus", "InitializeStep", "RemoteAddr", "LocalAddr", "Error":
					return
				}
				pure = false
				return
			}
			callee := x.Call.StaticCallee()
			if callee == nil {
				pure = false
				return
			}
			if p.ownFunc(callee) && callee.Blocks != nil {
				if !p.isPure(callee, depth+1) {
					pure = false
				}
				return
			}
			switch pk := calleePkg(callee); pk {
			case "strings", "bytes", "strconv", "math", "unicode", "errors", "time":
				if pk == "time" && callee.Name() == "Sleep" {
					pure = false
				}
			default:
				pure = false
			}
		}
	})
	if pure {
		pureCache[fn] = 1
	}
	return pure
}

func calleePkg(f *ssa.Function) string {
	if f.Pkg != nil {
		return f.Pkg.Pkg.Path()
	}
	if f.Object() != nil && f.Object().Pkg() != nil {
		return f.Object().Pkg().Path()
	}
	return ""
}

// accessorValue: v is a call to an inlinable pure function all of whose returns yield the same single
// expression: returns that expression with the parameters bound.
func accessorValue(v ssa.Value) (ssa.Value, bool) {
	if !inlining || curProg == nil {
		return nil, false
	}
	call, ok := v.(*ssa.Call)
	if !ok || call.Call.IsInvoke() {
		return nil, false
	}
	fn := call.Call.StaticCallee()
	if fn == nil || !curProg.inlinable(fn) || fn.Signature.Results().Len() != 1 || !curProg.isPure(fn, 0) {
		return nil, false
	}
	rets := returnsReachable(fn)
	if len(rets) == 0 {
		return nil, false
	}
	var val ssa.Value
	for _, r := range rets {
		rv := results(r.(*ssa.Return))[0]
		if val == nil {
			val = rv
		} else if val != rv {
			return nil, false
		}
	}
	if _, isPhi := val.(*ssa.Phi); isPhi {
		return nil, false
	}
	bindCall(fn, call.Call.Args)
	return val, true
}

// ---------------------------------------------------------------------------------------------
// G2 / G3

type retCase struct {
	val   ssa.Value
	facts []Guard
}

func edgeFact(pred, to *ssa.BasicBlock) (Guard, bool) {
	ifi, ok := pred.Instrs[len(pred.Instrs)-1].(*ssa.If)
	if !ok || len(pred.Succs) != 2 || pred.Succs[0] == pred.Succs[1] {
		return Guard{}, false
	}
	cond, truth := ifi.Cond, pred.Succs[0] == to
	for {
		u, ok := cond.(*ssa.UnOp)
		if !ok || u.Op != token.NOT {
			break
		}
		cond, truth = u.X, !truth
	}
	return Guard{Cond: cond, Truth: truth, If: ifi}, true
}

// valueCases splits a value that is a phi over branch outcomes into (edge value, facts on that edge).
func valueCases(v ssa.Value, at *ssa.BasicBlock) []retCase {
	if ph, ok := v.(*ssa.Phi); ok {
		var out []retCase
		for i, e := range ph.Edges {
			pred := ph.Block().Preds[i]
			facts := append([]Guard{}, guardsAtRaw(pred)...)
			if g, ok := edgeFact(pred, ph.Block()); ok {
				facts = append(facts, g)
			}
			out = append(out, retCase{e, facts})
		}
		return out
	}
	return []retCase{{v, append([]Guard{}, guardsAtRaw(at)...)}}
}

func returnCases(fn *ssa.Function, resultIdx int) []retCase {
	var out []retCase
	for _, r := range returnsReachable(fn) {
		ret := r.(*ssa.Return)
		rs := results(ret)
		if resultIdx >= len(rs) {
			continue
		}
		out = append(out, valueCases(rs[resultIdx], ret.Block())...)
	}
	return out
}

func factKey(g Guard) string {
	if g.Truth {
		return "T:" + expr(g.Cond)
	}
	return "F:" + expr(g.Cond)
}

// intersectFacts keeps the facts present in every case.
func intersectFacts(cases []retCase) []Guard {
	if len(cases) == 0 {
		return nil
	}
	count := map[string]int{}
	repr := map[string]Guard{}
	for _, c := range cases {
		seen := map[string]bool{}
		for _, g := range c.facts {
			k := factKey(g)
			if !seen[k] {
				seen[k] = true
				count[k]++
				repr[k] = g
			}
		}
	}
	var out []Guard
	for k, n := range count {
		if n == len(cases) {
			out = append(out, repr[k])
		}
	}
	return out
}

// boolOutcomeFacts: facts implied by "v evaluates to truth" for a boolean v that is a phi of constants
// and conditions (G3), or a call to a predicate helper (G2).
func boolOutcomeFacts(v ssa.Value, truth bool, at *ssa.BasicBlock, depth int) []Guard {
	if depth > 2 {
		return nil
	}
	var cases []retCase
	switch x := v.(type) {
	case *ssa.Phi:
		cases = valueCases(x, at)
	case *ssa.Extract:
		// a boolean result of a multi-result helper: `if reply, act, done := answerLocally(r, c); done {…}`
		call, ok := x.Tuple.(*ssa.Call)
		if !ok || !inlining || curProg == nil || call.Call.IsInvoke() {
			return nil
		}
		fn := call.Call.StaticCallee()
		if fn == nil || !curProg.inlinable(fn) || x.Index >= fn.Signature.Results().Len() {
			return nil
		}
		if b, ok := fn.Signature.Results().At(x.Index).Type().Underlying().(*types.Basic); !ok || b.Kind() != types.Bool {
			return nil
		}
		bindCall(fn, call.Call.Args)
		cases = returnCases(fn, x.Index)
	case *ssa.Call:
		if !inlining || curProg == nil || x.Call.IsInvoke() {
			return nil
		}
		fn := x.Call.StaticCallee()
		if fn == nil || !curProg.inlinable(fn) || fn.Signature.Results().Len() != 1 {
			return nil
		}
		if b, ok := fn.Signature.Results().At(0).Type().Underlying().(*types.Basic); !ok || b.Kind() != types.Bool {
			return nil
		}
		bindCall(fn, x.Call.Args)
		cases = returnCases(fn, 0)
	default:
		return nil
	}
	var sel []retCase
	for _, c := range cases {
		if k, ok := c.val.(*ssa.Const); ok && k.Value != nil {
			if (k.Value.String() == "true") == truth {
				sel = append(sel, c)
			}
			continue
		}
		// non-constant case: it yields `truth` only if its own value does
		c.facts = append(c.facts, Guard{Cond: stripNot(c.val, &truth), Truth: truth})
		sel = append(sel, c)
	}
	out := intersectFacts(sel)
	// expand once more
	var more []Guard
	for _, g := range out {
		more = append(more, boolOutcomeFacts(g.Cond, g.Truth, at, depth+1)...)
	}
	return append(out, more...)
}

func stripNot(v ssa.Value, truth *bool) ssa.Value {
	t := *truth
	for {
		u, ok := v.(*ssa.UnOp)
		if !ok || u.Op != token.NOT {
			break
		}
		v, t = u.X, !t
	}
	_ = t
	return v
}

// nilOutcomeFacts: facts implied by "the error returned by helper call v is nil / non-nil".
func nilOutcomeFacts(v ssa.Value, isNil bool) []Guard {
	if !inlining || curProg == nil {
		return nil
	}
	idx := 0
	if ex, ok := v.(*ssa.Extract); ok {
		idx = ex.Index
		v = ex.Tuple
	}
	call, ok := v.(*ssa.Call)
	if !ok || call.Call.IsInvoke() {
		return nil
	}
	fn := call.Call.StaticCallee()
	if fn == nil || !curProg.ownFunc(fn) || fn.Blocks == nil || len(fn.Blocks) > 60 || curProg.anchors[curProg.declared(fn)] {
		return nil
	}
	bindCall(fn, call.Call.Args)
	var sel []retCase
	for _, c := range returnCases(fn, idx) {
		if isNilConst(c.val) {
			if isNil {
				sel = append(sel, c)
			}
			continue
		}
		switch c.val.(type) {
		case *ssa.MakeInterface, *ssa.UnOp, *ssa.Call:
			// an error value: treated as non-nil
			if !isNil {
				sel = append(sel, c)
			}
			continue
		}
		sel = append(sel, c) // unknown: could be either
	}
	return intersectFacts(sel)
}

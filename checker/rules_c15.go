package main

import (
	"fmt"
	"go/token"
	"go/types"
	"strings"

	"golang.org/x/tools/go/ssa"
)

func init() {
	rule("C15.1", "E2+E3", "fragments taken off a dying backend connection's in-flight queue are completed with an error (or their client is closed)", 1, ruleC15_1)
	rule("C15.2", "E3", "fragments still waiting in a dying backend connection's out queue are completed with an error (or their client is closed)", 1, ruleC15_2)
	rule("C15.3", "E3+E4", "the pool hands out only open connections, drops a pooled connection only because it is closed, and dials when none is left", 4, ruleC15_3)
	rule("C15.4", "E3", "a redirect that cannot be followed (unknown node, dial failure, too many redirects) completes the request with an error", 2, ruleC15_4)
	rule("C15.5", "E3", "every routing failure in OnCReact answers the client with an error reply", 2, ruleC15_5)

	rule("C16.1", "E5a", "a timed-out request is completed like any failed request: Msg.Done and Msg.RspBody (the timeout error) are written, so it can be flushed in its position", 2, ruleC16_1)
	rule("C16.2", "E2", "the timeout error is delivered through the request queue, not written around it", 1, ruleC16_2)
	rule("C16.3", "E3", "only fragments that are not yet Done are timed out; finished ones are just removed from the deadline tree", 2, ruleC16_3)
	rule("C16.4", "E2+E3", "deadline bookkeeping is paired with the in-flight queue: pushed when a fragment goes in flight, deleted when it is dequeued or timed out", 4, ruleC16_4)
}

// completesRequest reports whether fn (following module calls up to depth) stores Msg.Done = true, or
// closes a client connection: a sink that guarantees that a waiting client is eventually answered or dropped.
func (c *Ctx) completesRequest(fn *ssa.Function, depth int, seen map[*ssa.Function]bool) bool {
	if fn == nil || fn.Blocks == nil || seen[fn] || depth < 0 {
		return false
	}
	seen[fn] = true
	p := c.P
	doneF := p.Field(pkgCore, "Msg", "Done")
	found := false
	allInstrs(fn, func(in ssa.Instruction) {
		if found {
			return
		}
		switch x := in.(type) {
		case *ssa.Store:
			if fa, ok := x.Addr.(*ssa.FieldAddr); ok && fieldVar(fa.X.Type(), fa.Field) == doneF {
				if k, ok := x.Val.(*ssa.Const); ok && k.Value.String() == "true" {
					found = true
				}
			}
		case ssa.CallInstruction:
			fns, _ := p.calleesOf(x.Common())
			for _, g := range fns {
				if g.Name() == "closeConn" || (g.Name() == "Close" && recvNamed(g) != nil && recvNamed(g).Obj().Name() == "conn") {
					// closing a connection: counts only when applied to a fragment's owner (decided by the caller of this helper)
					continue
				}
				if p.ownFunc(g) && c.completesRequest(g, depth-1, seen) {
					found = true
				}
			}
		}
	})
	return found
}

// sinkOnPath: starting right after `from`, does every path to a function exit (or to `until`) pass an
// instruction that completes the request of / closes the owner of fragment `frag`?
func (c *Ctx) sinkCalls(fn *ssa.Function, frag ssa.Value) []ssa.Instruction {
	p := c.P
	var out []ssa.Instruction
	ownerF := p.Field(pkgCore, "Frag", "Owner")
	peerF := p.Field(pkgCore, "Frag", "Peer")
	doneF := p.Field(pkgCore, "Msg", "Done")
	allInstrs(fn, func(in ssa.Instruction) {
		switch x := in.(type) {
		case *ssa.Store:
			// frag.Peer.Done = true inline
			if fa, ok := x.Addr.(*ssa.FieldAddr); ok && fieldVar(fa.X.Type(), fa.Field) == doneF {
				if base, ok := fieldLoad(fa.X, peerF); ok && strip(base) == strip(frag) {
					out = append(out, in)
				}
			}
		case ssa.CallInstruction:
			cc := x.Common()
			// a call that receives the fragment (or its Peer) and completes a request
			passes := false
			for _, a := range cc.Args {
				if strip(a) == strip(frag) {
					passes = true
				}
				if base, ok := fieldLoad(a, peerF); ok && strip(base) == strip(frag) {
					passes = true
				}
			}
			if cc.IsInvoke() && strip(cc.Value) == strip(frag) {
				passes = true
			}
			if passes {
				fns, _ := p.calleesOf(cc)
				for _, g := range fns {
					if c.completesRequest(g, 3, map[*ssa.Function]bool{}) {
						out = append(out, in)
					}
				}
			}
			// closing the fragment's owner
			if cc.IsInvoke() && (cc.Method.Name() == "Close" || cc.Method.Name() == "CloseWithCallback") {
				if base, ok := fieldLoad(cc.Value, ownerF); ok && strip(base) == strip(frag) {
					out = append(out, in)
				}
			}
		}
	})
	return out
}

func ruleC15_1(c *Ctx) {
	p := c.P
	onClosed := c.needMethod(pkgServer, "listenServer", "OnSClosed")
	deq := c.needMethod(pkgCore, "conn", "DequeueInFrag")
	if onClosed == nil || deq == nil {
		return
	}
	c.examined(len(onClosed.Blocks))
	calls := p.callsIn(onClosed, deq)
	if len(calls) == 0 {
		c.bad("OnSClosed: in-flight fragments of a closed backend connection", p.pos(onClosed.Pos()), "the in-flight queue of a closing backend connection is not even drained: the clients waiting for those replies are never answered")
		return
	}
	for _, call := range calls {
		frag := call.Value()
		sinks := c.sinkCalls(onClosed, frag)
		c.check(len(sinks) > 0, "OnSClosed: in-flight fragment dropped", c.at(call), "each drained fragment's request is completed with an error or its client is closed",
			"fragments drained from the in-flight queue of a closed backend connection are only logged: nothing completes their requests or closes their clients, so with no request timeout configured those clients wait forever")
	}
}

func ruleC15_2(c *Ctx) {
	p := c.P
	// some function on the teardown path (closeConn → OnSClosed → releaseTCP) must walk outFragQueue and complete its entries
	closeConn := c.needMethod(pkgCore, "eventloop", "closeConn")
	if closeConn == nil {
		return
	}
	outQ := p.Field(pkgCore, "conn", "outFragQueue")
	headF := p.Field(pkgCore, "FragQueue", "head")
	deqOut := p.Method(pkgCore, "conn", "dequeueOutFrag")
	fns := p.reachableFuncs(closeConn)
	c.examined(len(fns))
	drained := false
	var where string
	for _, fn := range fns {
		if strings.Contains(fnKey(fn), "/logging") || strings.Contains(fnKey(fn), "pkg/buffer") {
			continue
		}
		reads := false
		allInstrs(fn, func(in ssa.Instruction) {
			if ld, ok := in.(*ssa.UnOp); ok {
				if q, ok := fieldLoad(ld, headF); ok {
					if _, is := fieldLoad(q, outQ); is {
						reads = true
					}
				}
			}
			if ci, ok := in.(ssa.CallInstruction); ok && deqOut != nil && ci.Common().StaticCallee() == deqOut {
				reads = true
			}
		})
		if reads && fn.Name() != "handleWriteSignal" && c.completesRequest(fn, 3, map[*ssa.Function]bool{}) {
			drained = true
			where = shortFn(fn)
		}
	}
	c.check(drained, "teardown: out-queue fragments of a closed backend connection dropped", p.pos(closeConn.Pos()), "completed by "+where,
		"nothing on the teardown path (closeConn → OnSClosed → releaseTCP) walks the connection's outFragQueue: fragments queued but not yet written when the backend connection dies (or whose write signal finds it closed) are dropped with the queue, and their clients wait forever")
}

func ruleC15_3(c *Ctx) {
	p := c.P
	get := c.needMethod(pkgCore, "Pool", "Get")
	if get == nil {
		return
	}
	c.examined(len(get.Blocks))
	pcC := p.Field(pkgCore, "poolConn", "c")
	dial := p.Method(pkgCore, "Pool", "dial")
	popBack := p.Method(pkgCore, "activeList", "popBack")
	pushFront := p.Method(pkgCore, "activeList", "pushFront")
	// returns of a pooled connection
	nPooled := 0
	allInstrs(get, func(in ssa.Instruction) {
		r, ok := in.(*ssa.Return)
		if !ok {
			return
		}
		v := results(r)[0]
		if isNilConst(v) {
			return
		}
		if _, is := fieldLoad(v, pcC); !is {
			// freshly dialed
			if ex, ok := strip(v).(*ssa.Extract); ok {
				if _, isDial := p.isCallTo(ex.Tuple, dial); isDial {
					okE := guardHas(guardsOf(r), func(g Guard) bool {
						x, op, y, ok := cmpGuard(g)
						e2, isEx := x.(*ssa.Extract)
						return ok && op == token.EQL && isNilConst(y) && isEx && e2.Tuple == ex.Tuple
					})
					c.check(okE, "Pool.Get: dialed connection returned only when dial succeeded", c.at(r), "on err == nil", "a connection is returned although dialing failed")
				}
			}
			return
		}
		nPooled++
		gs := guardsOf(r)
		okO := guardHas(gs, func(g Guard) bool {
			call, ok := g.Cond.(*ssa.Call)
			if !ok || !g.Truth || !call.Call.IsInvoke() || call.Call.Method.Name() != "IsOpened" {
				return false
			}
			_, is := fieldLoad(call.Call.Value, pcC)
			return is
		})
		c.check(okO, "Pool.Get: pooled connection returned only if open", c.at(r), "on pc.c.IsOpened()",
			"the pool can hand out a connection without testing that it is still open: requests are queued on a dead connection and never answered", withGuards(gs))
	})
	if nPooled == 0 {
		c.bad("Pool.Get: reuse of pooled connections", p.pos(get.Pos()), "no pooled connection is ever returned: every request dials a new connection (per-node ordering is lost)")
	}
	// the drop edge: after popBack, the path that does not push the connection back is decided by !IsOpened only
	if popBack != nil && pushFront != nil {
		loops := loopsOf(get)
		for _, pb := range p.callsIn(get, popBack) {
			l := innermostLoop(loops, pb.Block())
			if l == nil {
				continue
			}
			// latch blocks reachable from popBack without passing pushFront
			for _, pr := range l.Header.Preds {
				if !l.Blocks[pr] {
					continue
				}
				// is there a pushFront on every path popBack → pr ? if not, pr is a drop latch
				passes := false
				for _, pf := range p.callsIn(get, pushFront) {
					if l.Blocks[pf.Block()] && pf.Block().Dominates(pr) {
						passes = true
					}
				}
				if passes {
					continue
				}
				conds := decidingConds(pr, 0)
				if ifi, ok := pr.Instrs[len(pr.Instrs)-1].(*ssa.If); ok {
					conds = []Guard{{Cond: ifi.Cond, Truth: pr.Succs[0] == l.Header, If: ifi}}
				}
				okD := len(conds) > 0
				var bad []string
				for _, g := range conds {
					call, ok := g.Cond.(*ssa.Call)
					if ok && !g.Truth && call.Call.IsInvoke() && call.Call.Method.Name() == "IsOpened" {
						continue
					}
					okD = false
					bad = append(bad, g.String())
				}
				c.check(okD, "Pool.Get: a pooled connection is dropped only because it is closed", c.at(pb), "the drop edge is decided by !pc.c.IsOpened() alone",
					"a pooled connection that is still open is dropped from the pool on the condition "+strings.Join(bad, " / ")+": it keeps the fragments already queued on it while a second connection to the same node is dialed, so one client's requests reach the node over two sockets in either order")
			}
		}
	}
	// exhaustion falls through to dial (directly or through a helper)
	if dial != nil {
		reaches := false
		for _, f := range p.reachableFuncs(get) {
			if p.declared(f) == p.declared(dial) {
				reaches = true
			}
		}
		c.check(reaches, "Pool.Get: dials when no pooled connection is usable", p.pos(get.Pos()), "dial() is reachable from Get", "Pool.Get never dials: after a backend loss the node stays unreachable")
	}
	// closed pool returns nil
	closedF := p.Field(pkgCore, "Pool", "closed")
	okClosed := false
	allInstrs(get, func(in ssa.Instruction) {
		if r, ok := in.(*ssa.Return); ok && isNilConst(results(r)[0]) {
			if guardHas(guardsOf(r), func(g Guard) bool { _, is := fieldLoad(g.Cond, closedF); return is && g.Truth }) {
				okClosed = true
			}
		}
	})
	c.check(okClosed, "Pool.Get: a closed pool hands out nothing", p.pos(get.Pos()), "nil on p.closed", "a pool that was closed (its node left the topology) still dials and hands out connections")
}

func ruleC15_4(c *Ctx) {
	p := c.P
	on := c.needMethod(pkgServer, "listenServer", "OnMoved")
	enq := c.needMethod(pkgCore, "conn", "EnqueueOutFrag")
	if on == nil || enq == nil {
		return
	}
	c.examined(len(on.Blocks))
	f := ssa.Value(on.Params[4])
	var resend []ssa.Instruction
	for _, call := range p.callsIn(on, enq) {
		if strip(call.Common().Args[0]) == f {
			resend = append(resend, call.(ssa.Instruction))
		}
	}
	sinks := c.sinkCalls(on, f)
	n := 0
	allInstrs(on, func(in ssa.Instruction) {
		r, ok := in.(*ssa.Return)
		if !ok {
			return
		}
		// does some re-send or sink dominate this return?
		handled := false
		for _, x := range append(append([]ssa.Instruction{}, resend...), sinks...) {
			if dominatesInstr(x, r) {
				handled = true
			}
		}
		n++
		labels := []string{"end of function"}
		if gs := guardsOf(r); len(gs) > 0 {
			labels = []string{"under " + gs[0].String()}
			// the exit is taken when a lookup helper returned nil (`sConn := redirectConn(addr, s, f); if sConn == nil { return }`):
			// one exit per way the helper returns nil, named by the condition inside the helper, so that the construct is the
			// same whether the lookups are written in OnMoved or behind a helper
			if x, op, y, ok := cmpGuard(gs[0]); ok && op == token.EQL && isNilConst(y) {
				if call, isCall := strip(x).(*ssa.Call); isCall {
					if h := call.Call.StaticCallee(); h != nil && p.isHelper(h) && h.Signature.Results().Len() == 1 {
						var ls []string
						withBinding(h, call.Call.Args, func() {
							for _, rc := range returnCases(h, 0) {
								switch {
								case isNilConst(rc.val):
									if len(rc.facts) > 0 {
										ls = append(ls, "under "+rc.facts[len(rc.facts)-1].String())
									} else {
										ls = append(ls, "under "+gs[0].String())
									}
								default:
									if _, isK := rc.val.(*ssa.Const); !isK {
										ls = append(ls, "under ("+expr(rc.val)+" == nil)")
									}
								}
							}
						})
						if len(ls) > 0 {
							labels = ls
						}
					}
				}
			}
		}
		for _, label := range labels {
			name := "OnMoved: exit " + label
			if !handled {
				name = "OnMoved: exit " + label + " drops the request"
			}
			c.check(handled, name, c.at(r), "the fragment was re-sent or its request completed with an error",
				"OnMoved returns here after only logging: the redirected fragment is neither re-sent nor failed, so the request is never answered (redirect to a node the proxy does not know, or that cannot be dialled)", withGuards(guardsOf(r)))
		}
	})
}

func ruleC15_5(c *Ctx) {
	p := c.P
	on := c.needMethod(pkgServer, "listenServer", "OnCReact")
	getConn := c.needMethod(pkgServer, "listenServer", "getConn")
	if on == nil || getConn == nil {
		return
	}
	calls := p.callsIn(on, getConn)
	isErrOf := func(v ssa.Value) bool {
		roots := flowRoots(v, nil)
		if len(roots) == 0 {
			return false
		}
		for _, r := range roots {
			if _, is := p.isCallTo(r, getConn); !is {
				return false
			}
		}
		return true
	}
	n := 0
	allInstrs(on, func(in ssa.Instruction) {
		r, ok := in.(*ssa.Return)
		if !ok {
			return
		}
		onErr := guardHas(guardsOf(r), func(g Guard) bool {
			x, op, y, ok := cmpGuard(g)
			return ok && op == token.NEQ && isNilConst(y) && types.Identical(x.Type(), types.Universe.Lookup("error").Type()) && isErrOf(x)
		})
		if !onErr {
			return
		}
		n++
		c.check(!isNilConst(results(r)[0]), fmt.Sprintf("OnCReact: routing failure return #%d answers the client", n), c.at(r), "non-nil error reply",
			"a routing failure returns without a reply: the request is neither forwarded nor answered and the client waits forever")
	})
	c.examined(len(calls))
	if n == 0 {
		c.undecided("OnCReact: routing failure returns", p.pos(on.Pos()), "no return on getConn's error edge found")
	}
	// getConn: a nil connection is always accompanied by an error
	allInstrs(getConn, func(in ssa.Instruction) {
		r, ok := in.(*ssa.Return)
		if !ok {
			return
		}
		comps := retComponents(r)
		connV := componentOfType(comps, func(t types.Type) bool { n, ok := t.(*types.Named); return ok && n.Obj().Name() == "SConn" })
		errV := componentOfType(comps, func(t types.Type) bool { return types.Identical(t, types.Universe.Lookup("error").Type()) })
		if connV == nil || errV == nil {
			c.undecided("getConn: returned connection and error", c.at(r), "the return does not carry a connection and an error (as results or as fields of a struct built in place)")
			return
		}
		if isNilConst(connV) {
			okE, _ := c.definitelyNonNil(errV, r, 0)
			c.check(okE, "getConn: no connection ⇒ an error", c.at(r), "non-nil error", "getConn can return (nil connection, nil error): OnCReact calls EnqueueOutFrag on a nil connection and the proxy exits")
		}
	})
}

// ---------------------------------------------------------------------------------------------
// C16

func ruleC16_1(c *Ctx) {
	p := c.P
	mt := c.needMethod(pkgCore, "eventloop", "msgTimeout")
	if mt == nil {
		return
	}
	c.examined(len(mt.Blocks))
	// the timeout path: the block that stores msg.Error = ErrMsgRequestTimeout
	msgErr := p.Field(pkgCore, "Msg", "Error")
	doneF := p.Field(pkgCore, "Msg", "Done")
	rspF := p.Field(pkgCore, "Msg", "RspBody")
	var errStore *ssa.Store
	p.allInstrsDeep(mt, func(in ssa.Instruction) {
		if st, ok := in.(*ssa.Store); ok {
			if fa, ok := st.Addr.(*ssa.FieldAddr); ok && fieldVar(fa.X.Type(), fa.Field) == msgErr {
				errStore = st
			}
		}
	})
	if errStore == nil {
		c.undecided("msgTimeout: timeout path", p.pos(mt.Pos()), "no store to Msg.Error found")
		return
	}
	msgBase := errStore.Addr.(*ssa.FieldAddr).X
	for _, want := range []*types.Var{doneF, rspF} {
		found := false
		p.allInstrsDeep(mt, func(in ssa.Instruction) {
			if st, ok := in.(*ssa.Store); ok {
				if fa, ok := st.Addr.(*ssa.FieldAddr); ok && fieldVar(fa.X.Type(), fa.Field) == want && expr(fa.X) == expr(msgBase) {
					found = true
				}
			}
			if ci, ok := in.(ssa.CallInstruction); ok {
				// or through a helper that completes the request
				for _, a := range ci.Common().Args {
					if expr(a) == expr(msgBase) {
						fns, _ := p.calleesOf(ci.Common())
						for _, g := range fns {
							if c.completesRequest(g, 2, map[*ssa.Function]bool{}) {
								found = true
							}
						}
					}
				}
			}
		})
		c.check(found, "msgTimeout completes the request: Msg."+want.Name(), c.at(errStore), "written on the timeout path (as the error branch of conn.sread does)",
			"on timeout the request gets Msg.Error but not Msg."+want.Name()+": it stays undone at its position in the client's queue, the late reply is skipped (fragment Done), so the head of the queue never completes and every later reply on that connection is withheld forever")
	}
}

func ruleC16_2(c *Ctx) {
	// the same construct as C01.3's timeout writer: reported here under C16 as well
	p := c.P
	mt := c.needMethod(pkgCore, "eventloop", "msgTimeout")
	if mt == nil {
		return
	}
	direct := 0
	var at ssa.Instruction
	allInstrs(mt, func(in ssa.Instruction) {
		if ci, ok := in.(ssa.CallInstruction); ok {
			fns, _ := p.calleesOf(ci.Common())
			for _, g := range fns {
				switch g.Name() {
				case "AsyncWrite", "AsyncWritev", "write", "writev", "Write", "Writev":
					if recvNamed(g) != nil && recvNamed(g).Obj().Name() == "conn" {
						direct++
						at = in
					}
				}
			}
		}
	})
	c.check(direct == 0, "writer (*eventloop).msgTimeout → (*conn).AsyncWrite", posOr(c, at, mt), "no direct write to the client from the timeout path",
		"the timeout error is written straight to the client, around the request queue: it is not delivered in the request's pipeline position")
}

func ruleC16_3(c *Ctx) {
	p := c.P
	mt := c.needMethod(pkgCore, "eventloop", "msgTimeout")
	if mt == nil {
		return
	}
	doneF := p.Field(pkgCore, "Frag", "Done")
	fragErr := p.Field(pkgCore, "Frag", "Error")
	msgErr := p.Field(pkgCore, "Msg", "Error")
	get := p.PkgFunc(pkgCore, "getFromTimeoutQueue")
	var frag ssa.Value
	allInstrs(mt, func(in ssa.Instruction) {
		if call, ok := in.(*ssa.Call); ok && get != nil && call.Call.StaticCallee() == get {
			frag = call
		}
	})
	if frag == nil {
		c.undecided("msgTimeout: next deadline", p.pos(mt.Pos()), "getFromTimeoutQueue not found")
		return
	}
	n := 0
	p.allInstrsDeep(mt, func(in ssa.Instruction) {
		st, ok := in.(*ssa.Store)
		if !ok {
			return
		}
		fa, ok := st.Addr.(*ssa.FieldAddr)
		if !ok {
			return
		}
		fv := fieldVar(fa.X.Type(), fa.Field)
		if fv != msgErr && fv != fragErr {
			return
		}
		n++
		gs := guardsOf(st)
		okD := guardHas(gs, func(g Guard) bool {
			base, is := fieldLoad(g.Cond, doneF)
			if !is || g.Truth {
				return false
			}
			// the fragment taken from the deadline tree (possibly through a loop variable)
			roots := flowRoots(base, nil)
			if len(roots) == 0 {
				return false
			}
			for _, r := range roots {
				if call, ok := r.(*ssa.Call); !ok || call.Call.StaticCallee() != get {
					return false
				}
			}
			return true
		})
		okT := guardHas(gs, func(g Guard) bool {
			call, ok := g.Cond.(*ssa.Call)
			return ok && !g.Truth && staticCalleeName(&call.Call) == "(time.Time).Before"
		})
		if !(okD && okT) && st.Parent() == mt {
			// the two tests may be spelled as one compound exit (`if !frag.Done && now.Before(t) { break }` … `if frag.Done
			// { continue }`): then no single guard says "deadline passed", but every feasible path to the store does
			if l := innermostLoopOuter(loopsOf(mt), st.Block()); l != nil {
				paths, complete := pathFacts(l.Header, st.Block(), nil, 512)
				okP := complete && len(paths) > 0
				for _, facts := range paths {
					notDone, passed := false, false
					for k, v := range facts {
						if cond, ok := condOf[k]; ok {
							if base, is := fieldLoad(cond, doneF); is && !v {
								all := true
								for _, r := range flowRoots(base, nil) {
									if call, ok := r.(*ssa.Call); !ok || call.Call.StaticCallee() != get {
										all = false
									}
								}
								if all {
									notDone = true
								}
							}
							if call, ok := cond.(*ssa.Call); ok && !v && staticCalleeName(&call.Call) == "(time.Time).Before" {
								passed = true
							}
						}
					}
					if !notDone || !passed {
						okP = false
					}
				}
				if okP {
					okD, okT = true, true
				}
			}
		}
		c.check(okD && okT, "msgTimeout: "+fv.Name()+" set only for an expired fragment that is not Done", c.at(in), "on !frag.Done and deadline passed",
			"the timeout error is recorded for a fragment that already completed or whose deadline has not passed: a request that was answered gets a second (timeout) reply", withGuards(gs))
	})
	if n == 0 {
		c.undecided("msgTimeout: timeout stores", p.pos(mt.Pos()), "no store of the timeout error found")
	}
}

func ruleC16_4(c *Ctx) {
	p := c.P
	push := c.need(pkgCore + ".pushToTimeoutQueue")
	del := c.need(pkgCore + ".deleteFromTimeoutQueue")
	if push == nil || del == nil {
		return
	}
	enqIn := p.Method(pkgCore, "conn", "enqueueInFrag")
	deqIn := p.Method(pkgCore, "conn", "DequeueInFrag")
	mt := p.Method(pkgCore, "eventloop", "msgTimeout")
	for _, s := range p.SitesOf(push) {
		if s.Fn.Synthetic != "" {
			continue
		}
		okS := homeFn(s.Fn) == enqIn && s.Call != nil && strip(s.Call.Args[0]) == ssa.Value(enqIn.Params[1])
		c.check(okS, "pushToTimeoutQueue in "+shortFn(homeFn(s.Fn)), c.at(s.Instr), "a fragment gets its deadline when (and only when) it goes in flight",
			"a deadline is registered outside enqueueInFrag (or for another fragment): fragments time out that were never sent, or sent ones never do")
	}
	for _, s := range p.SitesOf(del) {
		if s.Fn.Synthetic != "" {
			continue
		}
		encl := homeFn(s.Fn)
		c.check(encl == deqIn || encl == mt, "deleteFromTimeoutQueue in "+shortFn(encl), c.at(s.Instr), "on dequeue and on timeout", "deadlines are deleted from an unexpected place")
	}
	// DequeueInFrag: the fragment popped is the one whose deadline is deleted, and it is the one returned
	if deqIn != nil {
		pop := p.Method(pkgCore, "FragQueue", "PopHead")
		pops := p.callsIn(deqIn, pop)
		dels := p.callsIn(deqIn, del)
		okP := len(pops) == 1 && len(dels) == 1
		if okP {
			okP = pops[0].Block() == dels[0].Block()
			allInstrs(deqIn, func(in ssa.Instruction) {
				if r, ok := in.(*ssa.Return); ok && !isNilConst(results(r)[0]) {
					if expr(strip(results(r)[0])) != expr(strip(dels[0].Common().Args[0])) {
						okP = false
					}
				}
			})
		}
		if len(pops) == 1 {
			// one call consumes one fragment: a fragment that is already Done (timed out, failed by a sibling) was still
			// written to the node, and its late reply must be consumed by it
			inLoop := innermostLoop(loopsOf(deqIn), pops[0].Block()) != nil
			c.check(!inLoop, "DequeueInFrag: one fragment per call", c.at(pops[0]), "the pop is not in a loop",
				"DequeueInFrag pops in a loop (e.g. skipping fragments that are already Done): a timed-out request was still sent, the node still answers it, and that late reply is now taken for the reply of the next live request - every later reply on the connection is shifted by one")
		}
		c.check(okP, "DequeueInFrag: pop, delete the deadline and return the same fragment", p.pos(deqIn.Pos()), "paired in one block", "the fragment popped from the in-flight queue, the one whose deadline is deleted and the one returned are not the same on every path")
	}
	// enqueueInFrag: both the queue and the deadline
	if enqIn != nil {
		pushTail := p.Method(pkgCore, "FragQueue", "PushTail")
		c.check(len(p.callsIn(enqIn, pushTail)) == 1 && len(p.callsIn(enqIn, push)) == 1, "enqueueInFrag: queue and deadline together", p.pos(enqIn.Pos()), "PushTail + pushToTimeoutQueue", "enqueueInFrag no longer does both the in-flight push and the deadline registration")
	}
}

// innermostLoopOuter: the outermost loop that contains b (the per-deadline loop of msgTimeout, not the marking loop inside it).
func innermostLoopOuter(loops []*Loop, b *ssa.BasicBlock) *Loop {
	var out *Loop
	for _, l := range loops {
		if l.Blocks[b] && (out == nil || len(l.Blocks) > len(out.Blocks)) {
			out = l
		}
	}
	return out
}

package main

// Families: an anchor function together with the non-anchor helper functions it calls (depth ≤ 3). A
// behaviour-preserving "extract function" refactoring moves code from an anchor into such a helper; the
// rules therefore look at the family, attribute sites inside a helper to its home function, and lift
// guards and dominance questions to the helper's call site.

import (
	"sort"
	"strings"

	"golang.org/x/tools/go/ssa"
)

func skipPkg(fn *ssa.Function) bool {
	k := fnKey(fn)
	return strings.Contains(k, "/pkg/logging") || strings.Contains(k, "/pkg/utils.") || strings.Contains(k, "core.GlobalStats") || strings.Contains(k, "ProxyStats")
}

// isHelper: a module function with a body that no rule anchors on, and that is only ever called
// directly (never taken as a value, never the target of an interface call resolved by X00).
func (p *Prog) isHelper(g *ssa.Function) bool {
	if g == nil || g.Blocks == nil || !p.ownFunc(g) || g.Synthetic != "" || p.anchors[p.declared(g)] || skipPkg(g) || g.Parent() != nil {
		return false
	}
	if !inlining {
		return false
	}
	sites := p.SitesOf(g)
	if len(sites) == 0 {
		return false
	}
	for _, s := range sites {
		if s.Call == nil || s.Kind == "go" || s.Kind == "defer" || s.Kind == "invoke" {
			return false
		}
		// a helper lives next to its callers: same package
		if s.Fn.Synthetic == "" && calleePkg(outermost(s.Fn)) != calleePkg(g) {
			return false
		}
	}
	return true
}

func (p *Prog) helperSites(g *ssa.Function) []Site {
	var out []Site
	for _, s := range p.SitesOf(g) {
		if s.Fn.Synthetic == "" {
			out = append(out, s)
		}
	}
	return out
}

// family returns fn followed by the helpers reachable from it.
func (p *Prog) family(fn *ssa.Function) []*ssa.Function {
	out := []*ssa.Function{fn}
	seen := map[*ssa.Function]bool{fn: true}
	var walk func(f *ssa.Function, depth int)
	walk = func(f *ssa.Function, depth int) {
		if depth > 3 {
			return
		}
		withClosures(f, func(g *ssa.Function) {
			allInstrs(g, func(in ssa.Instruction) {
				ci, ok := in.(ssa.CallInstruction)
				if !ok {
					return
				}
				h := ci.Common().StaticCallee()
				if h == nil || seen[h] || !p.isHelper(h) {
					return
				}
				seen[h] = true
				out = append(out, h)
				walk(h, depth+1)
			})
		})
	}
	walk(fn, 0)
	return out
}

// homeOf maps a helper to the non-helper function it (transitively) serves, when that is unique.
func (p *Prog) homeOf(fn *ssa.Function) *ssa.Function {
	fn = outermost(fn)
	for i := 0; i < 4; i++ {
		if !p.isHelper(fn) {
			return fn
		}
		homes := map[*ssa.Function]bool{}
		for _, s := range p.helperSites(fn) {
			homes[outermost(s.Fn)] = true
		}
		if len(homes) != 1 {
			return fn
		}
		for h := range homes {
			fn = h
		}
	}
	return fn
}

func homeFn(fn *ssa.Function) *ssa.Function {
	if curProg == nil {
		return outermost(fn)
	}
	return curProg.homeOf(fn)
}

type blockOwner interface {
	Block() *ssa.BasicBlock
	Parent() *ssa.Function
}

// guardsOf: the guards at an instruction, plus - when it sits in a helper - the guards that hold at
// every call site of that helper (parameters bound when the call site is unique).
func guardsOf(x blockOwner) []Guard {
	return guardsOfDepth(x, 0)
}

func guardsOfDepth(x blockOwner, depth int) []Guard {
	out := guardsAt(x.Block())
	fn := outermost(x.Parent())
	if curProg == nil || depth > 3 || !curProg.isHelper(fn) {
		return out
	}
	if s, ok := siteCtx[fn]; ok {
		return append(out, guardsOfDepth(s.Instr, depth+1)...)
	}
	sites := curProg.helperSites(fn)
	bindAgreeing(fn, sites)
	if len(sites) == 1 {
		return append(out, guardsOfDepth(sites[0].Instr, depth+1)...)
	}
	var cases []retCase
	for _, s := range sites {
		cases = append(cases, retCase{facts: guardsOfDepth(s.Instr, depth+1)})
	}
	return append(out, intersectFacts(cases)...)
}

// lift returns the instruction of function `to` that contains `in`: in itself, or the (unique) call site
// through which in's helper is reached from `to`.
func lift(in ssa.Instruction, to *ssa.Function) ssa.Instruction {
	for i := 0; i < 4 && in != nil; i++ {
		f := outermost(in.Parent())
		if f == to || in.Parent() == to {
			return in
		}
		if curProg == nil || !curProg.isHelper(f) {
			return nil
		}
		if s, ok := siteCtx[f]; ok {
			in = s.Instr
			continue
		}
		sites := curProg.helperSites(f)
		if len(sites) != 1 {
			// several call sites: usable only if exactly one of them is in `to`
			var inTo []Site
			for _, s := range sites {
				if outermost(s.Fn) == to {
					inTo = append(inTo, s)
				}
			}
			if len(inTo) != 1 {
				return nil
			}
			sites = inTo
		}
		in = sites[0].Instr
	}
	return nil
}

// onEveryPath: the instruction executes on every path from its function's entry to a return.
func onEveryPath(in ssa.Instruction) bool {
	fn := in.Parent()
	for _, r := range returnsReachable(fn) {
		if !dominatesInstr(in, r) && in != r {
			return false
		}
	}
	return true
}

// allInstrsDeep visits fn and its helpers (parameters of single-call-site helpers bound).
func (p *Prog) allInstrsDeep(fn *ssa.Function, f func(ssa.Instruction)) {
	for _, g := range p.family(fn) {
		if g != fn {
			bindAgreeing(g, p.helperSites(g))
		}
		allInstrs(g, f)
	}
}

func sortFuncs(fs []*ssa.Function) {
	sort.Slice(fs, func(i, j int) bool { return fnKey(fs[i]) < fnKey(fs[j]) })
}

// bindAgreeing binds each parameter of helper g for which all call sites pass the same expression.
func bindAgreeing(g *ssa.Function, sites []Site) {
	if len(sites) == 0 {
		return
	}
	for i, prm := range g.Params {
		var first ssa.Value
		agree := true
		for _, s := range sites {
			if s.Call == nil {
				agree = false
				break
			}
			args := s.Call.Args
			if i >= len(args) {
				agree = false
				break
			}
			if first == nil {
				first = args[i]
			} else if args[i] != first && expr(args[i]) != expr(first) {
				agree = false
			}
		}
		if agree && first != nil {
			paramBind[prm] = first
		} else {
			delete(paramBind, prm)
		}
	}
}

// through sees a value through a call to a helper that has a single return: the returned value, with the
// helper's parameters bound to the call's arguments (used for value identity only, the helper may have effects).
func through(v ssa.Value) ssa.Value {
	for i := 0; i < 3; i++ {
		v = strip(v)
		call, ok := v.(*ssa.Call)
		if !ok || curProg == nil {
			return v
		}
		h := call.Call.StaticCallee()
		if h == nil || !curProg.isHelper(h) || h.Signature.Results().Len() != 1 {
			return v
		}
		rets := returnsReachable(h)
		if len(rets) != 1 {
			return v
		}
		bindCall(h, call.Call.Args)
		v = results(rets[0].(*ssa.Return))[0]
	}
	return v
}

// delegateOf: fn is a thin wrapper - one block whose only call into non-logging module code is a call of a
// helper - returns that helper with its parameters bound to this call's arguments, and the helper's
// parameter that receives fn's parameter `follow` (nil when it is not passed on). Otherwise (fn, follow).
func (p *Prog) delegateOf(fn *ssa.Function, follow *ssa.Parameter) (*ssa.Function, *ssa.Parameter) {
	if fn == nil || len(fn.Blocks) != 1 || curProg == nil {
		return fn, follow
	}
	var calls []*ssa.CallCommon
	other := false
	for _, in := range fn.Blocks[0].Instrs {
		switch x := in.(type) {
		case ssa.CallInstruction:
			if callee := x.Common().StaticCallee(); callee != nil && skipPkg(callee) {
				continue
			}
			if _, isB := x.Common().Value.(*ssa.Builtin); isB {
				continue
			}
			calls = append(calls, x.Common())
		case *ssa.Store, *ssa.MapUpdate:
			other = true
		}
	}
	if other || len(calls) != 1 {
		return fn, follow
	}
	h := calls[0].StaticCallee()
	if h == nil || !p.isHelper(h) {
		return fn, follow
	}
	bindCall(h, calls[0].Args)
	var to *ssa.Parameter
	for i, a := range calls[0].Args {
		if follow != nil && strip(a) == ssa.Value(follow) && i < len(h.Params) {
			to = h.Params[i]
		}
	}
	// strip() resolves bound parameters, so a follow-parameter bound to fn's own parameter stays usable
	return h, to
}

// siteCtx selects, for a helper with several call sites, the call site under which it is currently being
// looked at (set by virtualCalls): guards, dominance and parameter values are then those of that site.
var siteCtx = map[*ssa.Function]Site{}

// virtualCalls visits every call of target made on behalf of fn: the calls in fn itself and, for each call
// site of a helper of fn's family that (transitively) calls target, the call inside the helper seen under that
// site (parameters bound to the site's arguments, guards/dominance lifted to that site). A helper used from two
// places with different arguments (`c.bufferAndWatch(data)` / `c.bufferAndWatch(data[sent:])`) thus yields two
// virtual calls.
func (p *Prog) virtualCalls(fn *ssa.Function, targets []*ssa.Function, f func(call ssa.CallInstruction)) {
	isTarget := func(ci ssa.CallInstruction) bool {
		fns, _ := p.calleesOf(ci.Common())
		for _, g := range fns {
			for _, t := range targets {
				if t != nil && p.declared(g) == p.declared(t) {
					return true
				}
			}
		}
		return false
	}
	var visit func(g *ssa.Function, depth int)
	visit = func(g *ssa.Function, depth int) {
		withClosures(g, func(h *ssa.Function) {
			allInstrs(h, func(in ssa.Instruction) {
				ci, ok := in.(ssa.CallInstruction)
				if !ok {
					return
				}
				if isTarget(ci) {
					f(ci)
					return
				}
				callee := ci.Common().StaticCallee()
				if callee == nil || depth >= 3 || !p.isHelper(callee) {
					return
				}
				if _, busy := siteCtx[callee]; busy {
					return
				}
				site := Site{Fn: h, Instr: in, Call: ci.Common(), Kind: "call"}
				siteCtx[callee] = site
				withBinding(callee, ci.Common().Args, func() { visit(callee, depth+1) })
				delete(siteCtx, callee)
			})
		})
	}
	visit(fn, 0)
}

// virtualInstrs visits every instruction executed on behalf of fn: its own and, for each call site of a helper of
// its family, the helper's instructions seen under that site (see virtualCalls).
func (p *Prog) virtualInstrs(fn *ssa.Function, f func(in ssa.Instruction)) {
	var visit func(g *ssa.Function, depth int)
	visit = func(g *ssa.Function, depth int) {
		withClosures(g, func(h *ssa.Function) {
			allInstrs(h, func(in ssa.Instruction) {
				f(in)
				ci, ok := in.(ssa.CallInstruction)
				if !ok {
					return
				}
				callee := ci.Common().StaticCallee()
				if callee == nil || depth >= 3 || !p.isHelper(callee) {
					return
				}
				if _, busy := siteCtx[callee]; busy {
					return
				}
				siteCtx[callee] = Site{Fn: h, Instr: in, Call: ci.Common(), Kind: "call"}
				withBinding(callee, ci.Common().Args, func() { visit(callee, depth+1) })
				delete(siteCtx, callee)
			})
		})
	}
	visit(fn, 0)
}

// throughTuple sees a component of a multi-result helper's result through the call: `n, name, err := rc.readCommand(c, buf)`
// … name  →  the value the helper returns at that position on its (only) non-trivial return - the error returns hand
// back nil/zero there. Parameters of the helper are bound to the call's arguments.
func throughTuple(v ssa.Value) ssa.Value {
	for i := 0; i < 3; i++ {
		v = strip(v)
		ex, ok := v.(*ssa.Extract)
		if !ok || curProg == nil {
			return v
		}
		call, ok := ex.Tuple.(*ssa.Call)
		if !ok {
			return v
		}
		h := call.Call.StaticCallee()
		if h == nil || !curProg.isHelper(h) {
			return v
		}
		var cand ssa.Value
		for _, r := range returnsReachable(h) {
			rs := results(r.(*ssa.Return))
			if ex.Index >= len(rs) {
				return v
			}
			rv := rs[ex.Index]
			if cst, isC := rv.(*ssa.Const); isC && (cst.Value == nil || cst.Value.String() == "0" || cst.Value.String() == `""` || cst.Value.String() == "false") {
				continue
			}
			if cand != nil && cand != rv {
				return v
			}
			cand = rv
		}
		if cand == nil {
			return v
		}
		bindCall(h, call.Call.Args)
		v = cand
	}
	return v
}

// resolveParamRoots replaces roots that are parameters of a helper by the roots of what its call sites pass there.
func (p *Prog) resolveParamRoots(roots []ssa.Value, depth int) []ssa.Value {
	var out []ssa.Value
	for _, r := range roots {
		prm, ok := r.(*ssa.Parameter)
		if !ok || depth > 2 || !p.isHelper(prm.Parent()) {
			out = append(out, r)
			continue
		}
		h := prm.Parent()
		idx := -1
		for i, q := range h.Params {
			if q == prm {
				idx = i
			}
		}
		sites := p.helperSites(h)
		if idx < 0 || len(sites) == 0 {
			out = append(out, r)
			continue
		}
		for _, s := range sites {
			if s.Call == nil || idx >= len(s.Call.Args) {
				out = append(out, r)
				continue
			}
			out = append(out, p.resolveParamRoots(flowRoots(s.Call.Args[idx], nil), depth+1)...)
		}
	}
	return out
}

package main

import (
	"fmt"
	"go/constant"
	"go/token"
	"go/types"
	"regexp"
	"sort"
	"strings"

	"golang.org/x/tools/go/ssa"
)

func init() {
	rule("X00", "E2", "interface calls resolve to the module's own single implementation (CConn, SConn → *conn; EventHandler → *listenServer over the no-op BuiltinEventEngine)", 3, ruleX00)
	rule("C01.1", "E5c", "MsgQueue: PushTail links the new element on the link that PopHead and every traversal follow from the popped end (FIFO orientation agreement)", 3, func(c *Ctx) { queueOrientation(c, "MsgQueue", "Msg") })
	rule("C01.2", "E3", "OnCReact enqueues the request on the client queue exactly on the paths that return no local reply", 3, ruleC01_2)
	rule("C01.3", "E2+E3", "every site that can put bytes on a socket or into an outbound buffer is a known writer; local and timeout replies must not bypass pending earlier requests", 12, ruleC01_3)
	rule("C01.4", "E2+E3", "the in-order flush writes each collected reply once, front to back, and pops exactly what it wrote, after the write", 6, ruleC01_4)
	rule("C01.5", "E3+E4", "conn.write / conn.writev touch the socket only when the outbound buffer is empty; otherwise they append to it", 4, ruleC01_5)
	rule("C01.6", "E6", "every locally produced reply constant is exactly one RESP simple-string or error line", 10, ruleC01_6)
}

// ---------------------------------------------------------------------------------------------

func ruleX00(c *Ctx) {
	x00Foreign(c)
	type want struct {
		iface string
		impl  string
	}
	for _, w := range []want{{"CConn", "conn"}, {"SConn", "conn"}, {"EventHandler", "listenServer"}} {
		n := c.P.Named(pkgCore, w.iface)
		if n == nil {
			c.undecided("interface "+w.iface, "-", "interface not found")
			continue
		}
		iface, _ := n.Underlying().(*types.Interface)
		if iface == nil {
			c.undecided("interface "+w.iface, "-", "not an interface any more")
			continue
		}
		var impls []string
		for path, pk := range c.P.Pkgs {
			sc := pk.Types.Scope()
			for _, name := range sc.Names() {
				tn, ok := sc.Lookup(name).(*types.TypeName)
				if !ok || tn.IsAlias() {
					continue
				}
				if _, isIface := tn.Type().Underlying().(*types.Interface); isIface {
					continue
				}
				if types.Implements(tn.Type(), iface) || types.Implements(types.NewPointer(tn.Type()), iface) {
					impls = append(impls, path+"."+name)
				}
			}
		}
		sort.Strings(impls)
		c.examined(len(impls))
		var nontrivial []string
		for _, im := range impls {
			if w.iface == "EventHandler" && im == pkgCore+".BuiltinEventEngine" {
				// must stay a no-op: none of its methods may contain a call
				n := c.P.Named(pkgCore, "BuiltinEventEngine")
				calls := 0
				ms := c.P.SSA.MethodSets.MethodSet(types.NewPointer(n))
				for i := 0; i < ms.Len(); i++ {
					if f := c.P.SSA.MethodValue(ms.At(i)); f != nil && f.Blocks != nil {
						allInstrs(f, func(in ssa.Instruction) {
							if _, ok := in.(ssa.CallInstruction); ok {
								calls++
							}
						})
					}
				}
				if calls > 0 {
					nontrivial = append(nontrivial, im+" (no longer a no-op)")
				}
				continue
			}
			nontrivial = append(nontrivial, im)
		}
		wantPkg := pkgCore
		if w.iface == "EventHandler" {
			wantPkg = pkgServer
		}
		exp := wantPkg + "." + w.impl
		if len(nontrivial) == 1 && nontrivial[0] == exp {
			c.ok("implementations of "+w.iface, c.P.pos(n.Obj().Pos()), "single implementation "+exp)
		} else {
			c.undecided("implementations of "+w.iface, c.P.pos(n.Obj().Pos()),
				fmt.Sprintf("expected exactly %s, found %v: who-may-call tables are written for one implementation and cannot be decided for several", exp, nontrivial))
		}
	}
}

// x00Foreign: no connection or handler value is converted to a method-bearing interface declared
// outside the module (io.Writer, …), so that unresolved foreign interface calls cannot reach them.
func x00Foreign(c *Ctx) {
	guarded := map[string]bool{pkgCore + ".conn": true, pkgServer + ".listenServer": true, pkgCore + ".eventloop": true}
	n := 0
	var bad []string
	for _, fn := range c.P.Funcs {
		allInstrs(fn, func(in ssa.Instruction) {
			var from, to types.Type
			switch x := in.(type) {
			case *ssa.MakeInterface:
				from, to = x.X.Type(), x.Type()
			case *ssa.ChangeInterface:
				from, to = x.X.Type(), x.Type()
				if !c.P.moduleInterface(from) {
					return
				}
				it, _ := to.Underlying().(*types.Interface)
				if it == nil || it.NumMethods() == 0 || c.P.moduleInterface(to) {
					return
				}
				n++
				bad = append(bad, shortFn(fn)+" at "+c.at(in)+" ("+from.String()+" → "+to.String()+")")
				return
			default:
				return
			}
			t := from
			if p, ok := t.(*types.Pointer); ok {
				t = p.Elem()
			}
			nt, ok := t.(*types.Named)
			if !ok || nt.Obj().Pkg() == nil || !guarded[nt.Obj().Pkg().Path()+"."+nt.Obj().Name()] {
				return
			}
			n++
			it, _ := to.Underlying().(*types.Interface)
			if it == nil || it.NumMethods() == 0 || c.P.moduleInterface(to) {
				return
			}
			bad = append(bad, shortFn(fn)+" at "+c.at(in)+" ("+from.String()+" → "+to.String()+")")
		})
	}
	c.examined(n)
	c.check(len(bad) == 0, "conversions of conn/handler values to foreign interfaces", "-",
		fmt.Sprintf("%d interface conversions of connection/handler values examined, all to module interfaces or interface{}", n),
		"a connection or handler value is converted to an interface declared outside the module; calls through it are not resolved by the who-may-call rules: "+strings.Join(bad, "; "))
	if len(bad) > 0 {
		c.obs[len(c.obs)-1].Verdict = UNDECIDED
	}
}

// ---------------------------------------------------------------------------------------------
// C01.1 / C10.1

// linkFields returns the fields of elem that point to elem itself (prev/next).
func linkFields(elem *types.Named) []*types.Var {
	st, _ := elem.Underlying().(*types.Struct)
	var out []*types.Var
	for i := 0; st != nil && i < st.NumFields(); i++ {
		if p, ok := st.Field(i).Type().(*types.Pointer); ok && types.Identical(p.Elem(), elem) {
			out = append(out, st.Field(i))
		}
	}
	return out
}

func queueOrientation(c *Ctx, qName, eName string) {
	q := c.P.Named(pkgCore, qName)
	e := c.P.Named(pkgCore, eName)
	push := c.needMethod(pkgCore, qName, "PushTail")
	pop := c.needMethod(pkgCore, qName, "PopHead")
	if q == nil || e == nil || push == nil || pop == nil {
		if q == nil || e == nil {
			c.undecided("types "+qName+"/"+eName, "-", "queue or element type not found")
		}
		return
	}
	links := map[*types.Var]bool{}
	for _, l := range linkFields(e) {
		links[l] = true
	}
	qst, _ := q.Underlying().(*types.Struct)
	ends := map[*types.Var]bool{}
	for i := 0; qst != nil && i < qst.NumFields(); i++ {
		if p, ok := qst.Field(i).Type().(*types.Pointer); ok && types.Identical(p.Elem(), e) {
			ends[qst.Field(i)] = true
		}
	}
	if len(links) != 2 || len(ends) != 2 {
		c.undecided(qName+" shape", c.P.pos(q.Obj().Pos()), fmt.Sprintf("expected two link fields in %s and two end fields in %s, found %d and %d", eName, qName, len(links), len(ends)))
		return
	}

	// PushTail: old end's link ← new element ;  end ← new element
	var pushEnd, pushLink *types.Var
	var pushPos string
	allInstrs(push, func(in ssa.Instruction) {
		st, ok := in.(*ssa.Store)
		if !ok {
			return
		}
		fa, ok := st.Addr.(*ssa.FieldAddr)
		if !ok {
			return
		}
		fv := fieldVar(fa.X.Type(), fa.Field)
		if links[fv] {
			// X must be a load of an end field of the receiver, value the pushed element
			if ef, base, ok := anyFieldLoad(fa.X); ok && ends[ef] && strip(base) == ssa.Value(push.Params[0]) && strip(st.Val) == ssa.Value(push.Params[1]) {
				pushEnd, pushLink, pushPos = ef, fv, c.at(in)
			}
		}
	})
	c.examined(len(push.Blocks) + len(pop.Blocks))
	if pushEnd == nil {
		c.undecided(qName+".PushTail link store", c.P.pos(push.Pos()), "no store `q.<end>.<link> = m` found: the push idiom is not recognised")
		return
	}
	// the same end must then be set to the new element
	endSet := false
	allInstrs(push, func(in ssa.Instruction) {
		if st, ok := in.(*ssa.Store); ok {
			if fa, ok := st.Addr.(*ssa.FieldAddr); ok && fieldVar(fa.X.Type(), fa.Field) == pushEnd && strip(st.Val) == ssa.Value(push.Params[1]) {
				endSet = true
			}
		}
	})
	c.check(endSet, qName+".PushTail end update", pushPos, "push end "+pushEnd.Name()+" is set to the new element", "PushTail links the new element behind "+pushEnd.Name()+" but does not make it the new "+pushEnd.Name())

	// PopHead: end' ← load(end').link'
	var popEnd, popLink *types.Var
	var popPos string
	allInstrs(pop, func(in ssa.Instruction) {
		st, ok := in.(*ssa.Store)
		if !ok {
			return
		}
		fa, ok := st.Addr.(*ssa.FieldAddr)
		if !ok {
			return
		}
		fv := fieldVar(fa.X.Type(), fa.Field)
		if !ends[fv] || strip(fa.X) != ssa.Value(pop.Params[0]) {
			return
		}
		if lf, base, ok := anyFieldLoad(st.Val); ok && links[lf] {
			if ef, qb, ok := anyFieldLoad(base); ok && ef == fv && strip(qb) == ssa.Value(pop.Params[0]) {
				popEnd, popLink, popPos = fv, lf, c.at(in)
			}
		}
	})
	if popEnd == nil {
		c.undecided(qName+".PopHead advance", c.P.pos(pop.Pos()), "no store `q.<end> = q.<end>.<link>` found: the pop idiom is not recognised")
		return
	}
	c.check(popEnd != pushEnd, qName+" push/pop ends", popPos,
		fmt.Sprintf("push at %s, pop at %s", pushEnd.Name(), popEnd.Name()),
		fmt.Sprintf("PushTail and PopHead work on the same end (%s): the queue is a stack, replies/requests would be reversed", popEnd.Name()))
	c.check(popLink == pushLink, qName+" link agreement", popPos,
		fmt.Sprintf("PushTail links via %s, PopHead advances via %s", pushLink.Name(), popLink.Name()),
		fmt.Sprintf("PushTail links the new element as old-%s.%s but PopHead advances along .%s: elements are lost or visited in the wrong order", pushEnd.Name(), pushLink.Name(), popLink.Name()))

	// every traversal of the element chain in the module: starts at popEnd, follows popLink
	n := 0
	for _, fn := range c.P.Funcs {
		if fn.Synthetic != "" || fn == push || fn == pop {
			continue
		}
		// the queue's own other mutators (PopTail, Reset) are not traversals
		if fn.Signature.Recv() != nil && recvNamed(fn) == q && fn.Name() != "AllDone" {
			isTraversal := false
			for range loopsOf(fn) {
				isTraversal = true
			}
			if !isTraversal {
				continue
			}
		}
		for _, tr := range chainTraversals(fn, e, links) {
			n++
			c.touch(fn)
			name := fmt.Sprintf("traversal of %s chain in %s", eName, shortFn(homeFn(fn)))
			okLink := tr.link == popLink
			startOK := false
			startDesc := "?"
			for _, s := range tr.starts {
				if ef, _, ok := anyFieldLoad(s); ok && ends[ef] {
					startDesc = ef.Name()
					startOK = ef == popEnd
				}
			}
			switch {
			case !okLink:
				c.bad(name, tr.pos, fmt.Sprintf("the loop advances along .%s but the queue is consumed from %s along .%s: elements are visited in reverse arrival order", tr.link.Name(), popEnd.Name(), popLink.Name()))
			case !startOK:
				c.bad(name, tr.pos, fmt.Sprintf("the loop starts at %s, not at the end the queue is popped from (%s)", startDesc, popEnd.Name()))
			default:
				c.ok(name, tr.pos, fmt.Sprintf("starts at %s, follows .%s", popEnd.Name(), popLink.Name()))
			}
		}
	}
	c.examined(len(c.P.Funcs))
	_ = n
}

func recvNamed(fn *ssa.Function) *types.Named {
	r := fn.Signature.Recv()
	if r == nil {
		return nil
	}
	t := r.Type()
	if p, ok := t.(*types.Pointer); ok {
		t = p.Elem()
	}
	n, _ := t.(*types.Named)
	return n
}

type traversal struct {
	link   *types.Var
	starts []ssa.Value
	pos    string
}

// chainTraversals finds loops whose induction variable is an element pointer advanced by a link field:
// phi form  x = phi(start, x.link)   and cell form  *cell = (*cell).link  (locals captured by closures).
func chainTraversals(fn *ssa.Function, elem *types.Named, links map[*types.Var]bool) []traversal {
	var out []traversal
	isElemPtr := func(t types.Type) bool {
		p, ok := t.(*types.Pointer)
		return ok && types.Identical(p.Elem(), elem)
	}
	for _, b := range fn.Blocks {
		for _, in := range b.Instrs {
			switch x := in.(type) {
			case *ssa.Phi:
				if !isElemPtr(x.Type()) {
					continue
				}
				var tr *traversal
				for _, e := range x.Edges {
					if lf, base, ok := anyFieldLoad(e); ok && links[lf] && strip(base) == ssa.Value(x) {
						tr = &traversal{link: lf}
					}
				}
				if tr != nil {
					for _, e := range x.Edges {
						if _, base, ok := anyFieldLoad(e); ok && strip(base) == ssa.Value(x) {
							continue
						}
						tr.starts = append(tr.starts, e)
					}
					tr.pos = posOfValue(fn, x)
					out = append(out, *tr)
				}
			case *ssa.Store:
				a, ok := x.Addr.(*ssa.Alloc)
				if !ok {
					continue
				}
				pt, ok := a.Type().(*types.Pointer)
				if !ok || !isElemPtr(pt.Elem()) {
					continue
				}
				lf, base, ok := anyFieldLoad(x.Val)
				if !ok || !links[lf] {
					continue
				}
				ld, ok := base.(*ssa.UnOp)
				if !ok || ld.Op != token.MUL || ld.X != ssa.Value(a) {
					continue
				}
				tr := traversal{link: lf, pos: fn.Prog.Fset.Position(x.Pos()).String()}
				for _, st := range cellStores(a) {
					if st != x {
						tr.starts = append(tr.starts, st.Val)
					}
				}
				tr.pos = ""
				out = append(out, tr)
				out[len(out)-1].pos = shortPos(fn, x.Pos())
			}
		}
	}
	return out
}

func shortPos(fn *ssa.Function, pos token.Pos) string {
	if !pos.IsValid() {
		pos = fn.Pos()
	}
	ps := fn.Prog.Fset.Position(pos)
	f := ps.Filename
	if i := strings.Index(f, "/core/"); i >= 0 {
		f = f[i+1:]
	}
	return fmt.Sprintf("%s:%d", f, ps.Line)
}

func posOfValue(fn *ssa.Function, v ssa.Value) string {
	if v.Pos().IsValid() {
		return shortPos(fn, v.Pos())
	}
	if in, ok := v.(ssa.Instruction); ok {
		for _, x := range in.Block().Instrs {
			if x.Pos().IsValid() {
				return shortPos(fn, x.Pos()) + "~"
			}
		}
	}
	return shortPos(fn, fn.Pos()) + "~"
}

// ---------------------------------------------------------------------------------------------
// C01.2

func ruleC01_2(c *Ctx) {
	on := c.needMethod(pkgServer, "listenServer", "OnCReact")
	enq := c.needMethod(pkgCore, "conn", "EnqueueInMsg")
	if on == nil || enq == nil {
		return
	}
	calls := c.P.callsIn(on, enq)
	c.examined(len(on.Blocks))
	if len(calls) != 1 {
		c.bad("OnCReact: EnqueueInMsg call sites", c.P.pos(on.Pos()), fmt.Sprintf("expected exactly one call of EnqueueInMsg, found %d: a forwarded request must be queued once (0: its reply is dropped and the client closed; >1: its reply is delivered twice)", len(calls)))
		return
	}
	call := calls[0]
	// argument and receiver
	args := call.Common().Args
	argOK := len(args) == 1 && strip(args[0]) == ssa.Value(on.Params[1])
	recvOK := call.Common().IsInvoke() && strip(call.Common().Value) == ssa.Value(on.Params[2])
	c.check(argOK && recvOK, "OnCReact: EnqueueInMsg(r) on c", c.at(call), "the handler's own request is queued on the handler's own client connection",
		"EnqueueInMsg is not called as c.EnqueueInMsg(r) with the handler's parameters: the request would be queued on another connection or another request queued")
	// loop membership: at most once per invocation
	if l := innermostLoop(loopsOf(on), call.Block()); l != nil {
		c.bad("OnCReact: EnqueueInMsg once", c.at(call), "the call sits inside a loop: a request with several fragments would be queued several times and answered several times")
	} else {
		c.ok("OnCReact: EnqueueInMsg once", c.at(call), "not inside a loop")
	}
	nret := 0
	allInstrs(on, func(in ssa.Instruction) {
		r, ok := in.(*ssa.Return)
		if !ok || len(r.Results) < 1 {
			return
		}
		nret++
		name := fmt.Sprintf("OnCReact: return #%d (%s)", nret, returnLabel(r))
		if isNilConst(results(r)[0]) {
			// forwarded: every path to this return passes the enqueue
			if !dominatesInstr(call, r) {
				c.bad(name, c.at(r), "this return yields no local reply (out == nil) but can be reached without EnqueueInMsg: the backend's reply finds an empty client queue and the client is closed / the reply dropped")
			} else {
				c.ok(name, c.at(r), "forwarded path is dominated by EnqueueInMsg")
			}
			return
		}
		if canReach(call, r) {
			c.bad(name, c.at(r), "a locally answered request (out != nil) is also queued: eventloop.cread recycles it while it sits in the queue, and it never becomes Done, so every later reply on the connection is withheld")
		} else {
			c.ok(name, c.at(r), "local reply path never passes EnqueueInMsg")
		}
	})
}

func returnLabel(r *ssa.Return) string {
	if len(r.Results) == 0 {
		return "void"
	}
	v := results(r)[0]
	if isNilConst(v) {
		return "nil"
	}
	if call, ok := v.(*ssa.Call); ok && len(call.Call.Args) > 0 {
		if s, ok := constString(call.Call.Args[0]); ok {
			return strings.TrimSpace(s)
		}
	}
	return strings.TrimSpace(expr(v))
}

// ---------------------------------------------------------------------------------------------
// C01.3 writer table

type writerRow struct {
	encl, callee string // shortFn of the outermost enclosing function; callee key
	role         string
	needs        string // "", "queue-empty-guard", "timeout"
}

var writerTable = []writerRow{
	{"(*conn).open", "golang.org/x/sys/unix.Write", "first write on a freshly opened connection (handshake / OnOpened output)", ""},
	{"(*conn).open", "(*pkg/buffer/elastic.Buffer).Write", "spill of the first write", ""},
	{"(*conn).write", "golang.org/x/sys/unix.Write", "direct write, allowed only with an empty backlog (C01.5)", ""},
	{"(*conn).write", "(*pkg/buffer/elastic.Buffer).Write", "append to backlog", ""},
	{"(*conn).writev", "internal/io.Writev", "direct vectored write, allowed only with an empty backlog (C01.5)", ""},
	{"(*conn).writev", "(*pkg/buffer/elastic.Buffer).Writev", "append to backlog", ""},
	{"(*conn).ReadFrom", "(*pkg/buffer/elastic.Buffer).ReadFrom", "exported gnet API, no caller in the module", "no-caller"},
	{"(*conn).Write", "(*conn).write", "exported gnet API, no caller in the module", "no-caller"},
	{"(*conn).Writev", "(*conn).writev", "exported gnet API, no caller in the module", "no-caller"},
	{"(*conn).Flush", "(*eventloop).write", "exported gnet API, no caller in the module", "no-caller"},
	{"(*conn).asyncWrite", "(*conn).write", "body of an AsyncWrite task", ""},
	{"(*conn).asyncWritev", "(*conn).writev", "body of an AsyncWritev task", ""},
	{"(*conn).AsyncWrite", "(*conn).asyncWrite", "schedules asyncWrite on the event loop", ""},
	{"(*conn).AsyncWritev", "(*conn).asyncWritev", "schedules asyncWritev on the event loop", "no-caller"},
	{"(*conn).handleWriteSignal", "(*conn).writev", "request bytes to a backend connection", ""},
	{"(*eventloop).open", "(*conn).open", "OnCOpened/OnSOpened output", ""},
	{"(*eventloop).cread", "(*conn).write", "locally produced reply", "queue-empty-guard"},
	{"(*eventloop).sread", "(*conn).writev", "in-order flush of completed requests", ""},
	{"(*eventloop).write", "internal/io.Writev", "drain of the backlog on writability", ""},
	{"(*eventloop).write", "golang.org/x/sys/unix.Write", "drain of the backlog on writability", ""},
	{"(*eventloop).closeConn", "internal/io.Writev", "residual drain before close", ""},
	{"(*eventloop).msgTimeout", "(*conn).AsyncWrite", "timeout error", "timeout"},
	{"(*eventloop).callback", "(*eventloop).write", "poller reports writability (default reactor)", ""},
	{"(*conn).handleEvents", "(*eventloop).write", "poller reports writability", ""},
}

func ruleC01_3(c *Ctx) {
	p := c.P
	type target struct {
		key string
		fn  *ssa.Function
	}
	var targets []target
	addM := func(typ, name string) {
		if f := p.Method(pkgCore, typ, name); f != nil {
			targets = append(targets, target{shortFn(f), f})
		} else {
			c.undecided("anchor (*"+typ+")."+name, "-", "writer primitive not found")
		}
	}
	for _, m := range []string{"write", "writev", "open", "Write", "Writev", "AsyncWrite", "AsyncWritev", "asyncWrite", "asyncWritev", "Flush", "ReadFrom"} {
		addM("conn", m)
	}
	addM("eventloop", "write")
	for _, m := range []string{"Write", "Writev", "ReadFrom"} {
		if f := p.Method(pkgElastic, "Buffer", m); f != nil {
			targets = append(targets, target{shortFn(f), f})
		} else {
			c.undecided("anchor elastic.Buffer."+m, "-", "outbound buffer writer not found")
		}
	}
	if f := p.PkgFunc(pkgIO, "Writev"); f != nil {
		targets = append(targets, target{shortFn(f), f})
	} else {
		c.undecided("anchor internal/io.Writev", "-", "not found")
	}
	rows := map[string]*writerRow{}
	for i := range writerTable {
		r := &writerTable[i]
		rows[r.encl+" → "+r.callee] = r
	}
	seen := map[string]int{}
	var sites []struct {
		encl *ssa.Function
		in   ssa.Instruction
		key  string
		row  *writerRow
	}
	// module functions
	for _, t := range targets {
		for _, s := range p.SitesOf(t.fn) {
			if s.Fn.Synthetic != "" {
				continue
			}
			encl := homeFn(s.Fn)
			if encl == p.declared(t.fn) {
				continue
			}
			key := shortFn(encl) + " → " + t.key
			sites = append(sites, struct {
				encl *ssa.Function
				in   ssa.Instruction
				key  string
				row  *writerRow
			}{encl, s.Instr, key, rows[key]})
		}
	}
	// raw syscalls outside the module: unix.Write / unix.Writev / syscall.Write anywhere in the module
	for _, fn := range p.Funcs {
		if fn.Synthetic != "" {
			continue
		}
		allInstrs(fn, func(in ssa.Instruction) {
			ci, ok := in.(ssa.CallInstruction)
			if !ok {
				return
			}
			n := staticCalleeName(ci.Common())
			switch n {
			case "golang.org/x/sys/unix.Write", "golang.org/x/sys/unix.Writev", "syscall.Write", "golang.org/x/sys/unix.Sendto", "golang.org/x/sys/unix.Sendmsg", "golang.org/x/sys/unix.Pwrite", "syscall.Sendto":
				encl := homeFn(fn)
				if shortFn(encl) == "internal/io.Writev" {
					return // the wrapper itself
				}
				if rn := recvNamed(encl); rn != nil && rn.Obj().Name() == "Poller" && len(ci.Common().Args) > 0 &&
					strings.HasPrefix(expr(ci.Common().Args[0]), "param0<") {
					// the poller writing to its own wake-up descriptor (a field of the Poller), not to a connection
					c.ok("poller wake-up write in "+shortFn(encl), c.at(in), "fd is "+expr(ci.Common().Args[0]))
					return
				}
				key := shortFn(encl) + " → " + n
				sites = append(sites, struct {
					encl *ssa.Function
					in   ssa.Instruction
					key  string
					row  *writerRow
				}{encl, in, key, rows[key]})
			}
		})
	}
	c.examined(len(p.Funcs))
	for _, s := range sites {
		seen[s.key]++
		c.touch(s.encl)
		name := "writer " + s.key
		if s.row == nil {
			c.bad(name, c.at(s.in), "a write path to a socket/outbound buffer that is not in the table of known writers: bytes can reach a client outside the in-order flush (review the site; if legitimate add a row with its role)")
			continue
		}
		switch s.row.needs {
		case "":
			c.ok(name, c.at(s.in), s.row.role)
		case "no-caller":
			c.ok(name, c.at(s.in), s.row.role)
		case "queue-empty-guard":
			c.localReplyGuard(name, s.in)
		case "timeout":
			c.bad(name, c.at(s.in), "the timeout error is written straight to the client through AsyncWrite, around the request queue: it is not delivered in the request's pipeline position (earlier undelivered replies are overtaken)")
		}
	}
	// exported wrappers must have no caller inside the module
	for _, r := range writerTable {
		if r.needs != "no-caller" {
			continue
		}
		var f *ssa.Function
		for _, t := range targets {
			if "(*conn)."+strings.TrimPrefix(r.encl, "(*conn).") == r.encl && shortFn(t.fn) == r.encl {
				f = t.fn
			}
		}
		if f == nil {
			continue
		}
		ss := p.SitesOf(f)
		var outside []string
		for _, s := range ss {
			if s.Fn.Synthetic == "" {
				outside = append(outside, shortFn(homeFn(s.Fn))+" at "+c.at(s.Instr))
			}
		}
		c.check(len(outside) == 0, "no caller of "+r.encl, c.P.pos(f.Pos()), "exported gnet wrapper is unused in the module",
			"exported write wrapper is now called from "+strings.Join(outside, ", ")+": an unreviewed path to a client socket")
	}
}

// localReplyGuard: a local reply may be written directly only when nothing older is pending.
func (c *Ctx) localReplyGuard(name string, in ssa.Instruction) {
	empty := c.P.Method(pkgCore, "MsgQueue", "Empty")
	for _, g := range guardsOf(in) {
		if call, ok := c.P.isCallTo(g.Cond, empty); ok && g.Truth {
			_ = call
			c.ok(name, c.at(in), "direct write guarded by inMsgQueue.Empty()", withGuards(guardsOf(in)))
			return
		}
	}
	c.bad(name, c.at(in), "a locally produced reply (PING, AUTH, QUIT, rejected command) is written directly while earlier forwarded requests of the same client may still be pending in inMsgQueue: it overtakes their replies", withGuards(guardsOf(in)))
}

// ---------------------------------------------------------------------------------------------
// C01.4

func ruleC01_4(c *Ctx) {
	p := c.P
	sread := c.needMethod(pkgCore, "eventloop", "sread")
	cread := c.needMethod(pkgCore, "eventloop", "cread")
	deq := c.needMethod(pkgCore, "conn", "dequeueInMsg")
	writev := c.needMethod(pkgCore, "conn", "writev")
	if sread == nil || cread == nil || deq == nil || writev == nil {
		return
	}
	rspBody := p.Field(pkgCore, "Msg", "RspBody")
	done := p.Field(pkgCore, "Msg", "Done")

	// (b) collect loop in sread
	var collect *traversal
	msg := p.Named(pkgCore, "Msg")
	links := map[*types.Var]bool{}
	for _, l := range linkFields(msg) {
		links[l] = true
	}
	trs := chainTraversals(sread, msg, links)
	if len(trs) != 1 {
		c.undecided("sread: collect loop", p.pos(sread.Pos()), fmt.Sprintf("expected one traversal of the Msg chain in eventloop.sread, found %d", len(trs)))
		return
	}
	collect = &trs[0]
	_ = collect
	loops := loopsOf(sread)
	// find the append of RspBody
	var appends []*ssa.Call
	allInstrs(sread, func(in ssa.Instruction) {
		call, ok := in.(*ssa.Call)
		if !ok {
			return
		}
		if b, ok := call.Call.Value.(*ssa.Builtin); !ok || b.Name() != "append" {
			return
		}
		if st, ok := call.Type().(*types.Slice); !ok || !types.Identical(st.Elem(), types.NewSlice(types.Typ[types.Byte])) {
			return
		}
		appends = append(appends, call)
	})
	c.examined(len(sread.Blocks))
	var collectLoop *Loop
	if len(appends) != 1 {
		c.bad("sread: one append per collected reply", p.pos(sread.Pos()), fmt.Sprintf("expected exactly one append to the reply vector in the flush, found %d: a reply would be written twice or not at all", len(appends)))
	} else {
		ap := appends[0]
		collectLoop = innermostLoop(loops, ap.Block())
		elems := varargElems(ap.Call.Args[1])
		okElem := len(elems) == 1
		var isRsp bool
		if okElem {
			_, isRsp = fieldLoad(elems[0], rspBody)
		}
		c.check(okElem && isRsp && collectLoop != nil, "sread: one append per collected reply", c.at(ap),
			"each visited message contributes exactly its RspBody, once",
			fmt.Sprintf("the append in the collect loop adds %d element(s) (RspBody: %v, in loop: %v): each completed request must contribute exactly one reply", len(elems), isRsp, collectLoop != nil))
		// the loop stops at the first message that is not Done (prefix flush) - see C09.1 for the gate
		if collectLoop != nil {
			stopsAtUndone := false
			for _, e := range collectLoop.exitEdges() {
				if ifi, ok := e[0].Instrs[len(e[0].Instrs)-1].(*ssa.If); ok {
					if _, ok := fieldLoad(ifi.Cond, done); ok && e[0].Succs[1] == e[1] {
						stopsAtUndone = true
					}
				}
			}
			c.check(stopsAtUndone, "sread: collect stops at first unfinished request", c.at(ap),
				"the collect loop leaves on !cur.Done", "the collect loop does not stop at a request that is not Done: an unfinished request's (empty or stale) RspBody would be written and the request popped")
		}
	}

	// (c) chunked write: writev(bs[0:r]) … bs = bs[r:]
	wcalls := p.callsIn(sread, writev)
	c.check(len(wcalls) == 2, "sread: flush writev sites", p.pos(sread.Pos()), "chunk write in the loop and final write",
		fmt.Sprintf("expected the chunked writev and the final writev, found %d call(s)", len(wcalls)))
	var lastW ssa.CallInstruction
	for _, w := range wcalls {
		arg := w.Common().Args[len(w.Common().Args)-1]
		if sl, ok := arg.(*ssa.Slice); ok {
			// chunk: find the re-slice of the same vector in the same loop
			l := innermostLoop(loops, w.Block())
			found := false
			if l != nil {
				for b := range l.Blocks {
					for _, in := range b.Instrs {
						rs, ok := in.(*ssa.Slice)
						if !ok || rs == sl || rs.X != sl.X || rs.Low == nil {
							continue
						}
						found = true
						lowOK := sl.Low == nil || isZero(sl.Low)
						c.check(lowOK && sl.High != nil && expr(sl.High) == expr(rs.Low) && rs.High == nil, "sread: chunk advance", c.at(in),
							"writev(bs[0:r]) is followed by bs = bs[r:] with the same r",
							fmt.Sprintf("the chunk written is %s but the vector is advanced by %s: replies are skipped or repeated when more than %d are flushed at once", expr(sl), expr(rs), 1024))
						// the advance must come after a successful write
						c.check(dominatesInstr(w.(ssa.Instruction), in), "sread: chunk advance after write", c.at(in), "advance is dominated by the write", "the vector is advanced before the chunk is written")
					}
				}
			}
			if !found {
				c.bad("sread: chunk advance", c.at(w), "no `bs = bs[r:]` found for the chunked writev: the same chunk would be written forever or the rest dropped")
			}
		} else {
			lastW = w
		}
	}

	// (d) pop loop: after the final write succeeded, pops exactly the collected count
	dcalls := p.callsIn(sread, deq)
	if len(dcalls) != 1 {
		c.bad("sread: pop after flush", p.pos(sread.Pos()), fmt.Sprintf("expected one dequeueInMsg call, found %d", len(dcalls)))
		return
	}
	d := dcalls[0]
	if lastW != nil {
		okDom := dominatesInstr(lastW.(ssa.Instruction), d.(ssa.Instruction))
		errGuard := false
		for _, g := range guardsOf(d) {
			if x, op, y, ok := cmpGuard(g); ok && op == token.EQL && isNilConst(y) {
				if ex, ok := x.(*ssa.Extract); ok && ex.Tuple == lastW.Value() {
					errGuard = true
				}
			}
		}
		c.check(okDom && errGuard, "sread: pop only after successful write", c.at(d),
			"messages are popped and recycled only on the err == nil edge of the final writev",
			"messages are popped/recycled although the write may have failed or not happened yet: the reply bytes may be reused before they are sent", withGuards(guardsOf(d)))
	}
	popLoop := innermostLoop(loops, d.Block())
	if popLoop == nil {
		c.bad("sread: pop count", c.at(d), "dequeueInMsg is not in a loop: only one message would be released per flush")
		return
	}
	// accepted bounds: a counter initialised from len(collected vector) decremented once per pop,
	// or a head.Done test
	bound := ""
	for _, in := range popLoop.Header.Instrs {
		phi, ok := in.(*ssa.Phi)
		if !ok {
			continue
		}
		for i, e := range phi.Edges {
			if popLoop.Blocks[popLoop.Header.Preds[i]] {
				continue
			}
			if call, ok := e.(*ssa.Call); ok {
				if b, ok := call.Call.Value.(*ssa.Builtin); ok && b.Name() == "len" && collectLoop != nil {
					// len of the collected vector taken at the collect loop's exit
					if ph, ok := call.Call.Args[0].(*ssa.Phi); ok && ph.Block() == collectLoop.Header {
						// decremented by one on the back edge
						for j, e2 := range phi.Edges {
							if popLoop.Blocks[popLoop.Header.Preds[j]] {
								if bo, ok := e2.(*ssa.BinOp); ok && bo.Op == token.SUB && bo.X == ssa.Value(phi) && isOne(bo.Y) {
									bound = "counter = len(collected) decremented per pop"
								}
							}
						}
					}
				}
			}
		}
	}
	if bound == "" {
		for _, e := range popLoop.exitEdges() {
			if ifi, ok := e[0].Instrs[len(e[0].Instrs)-1].(*ssa.If); ok {
				if _, ok := fieldLoad(ifi.Cond, done); ok {
					bound = "while head.Done"
				}
			}
		}
	}
	c.check(bound != "", "sread: pop count", c.at(d), "pop loop bound: "+bound,
		"the loop that pops and recycles messages is not bounded by the number of replies just written (nor by head.Done): with the prefix flush it would recycle requests that have not been answered yet")
}

func isZero(v ssa.Value) bool { n, ok := constInt(v); return ok && n == 0 }
func isOne(v ssa.Value) bool  { n, ok := constInt(v); return ok && n == 1 }

// varargElems returns the elements of the implicit slice built for a variadic call `f(x, a, b)`:
// new [n]T; &t[i] = a; slice t[:]. nil when v is not such a slice (e.g. `f(x, s...)`).
func varargElems(v ssa.Value) []ssa.Value {
	sl, ok := v.(*ssa.Slice)
	if !ok {
		return nil
	}
	a, ok := sl.X.(*ssa.Alloc)
	if !ok {
		return nil
	}
	var out []ssa.Value
	for _, r := range *a.Referrers() {
		ia, ok := r.(*ssa.IndexAddr)
		if !ok {
			continue
		}
		for _, rr := range *ia.Referrers() {
			if st, ok := rr.(*ssa.Store); ok && st.Addr == ssa.Value(ia) {
				out = append(out, st.Val)
			}
		}
	}
	return out
}

// ---------------------------------------------------------------------------------------------
// C01.5

func ruleC01_5(c *Ctx) {
	p := c.P
	isEmpty := p.Method(pkgElastic, "Buffer", "IsEmpty")
	if isEmpty == nil {
		c.undecided("anchor elastic.Buffer.IsEmpty", "-", "not found")
		return
	}
	outb := p.Field(pkgCore, "conn", "outboundBuffer")
	type w struct {
		m       string
		syscall string
		bufM    string
	}
	for _, x := range []w{{"write", "golang.org/x/sys/unix.Write", "Write"}, {"writev", "rcproxy/core/internal/io.Writev", "Writev"}} {
		fn := c.needMethod(pkgCore, "conn", x.m)
		if fn == nil {
			continue
		}
		c.examined(len(fn.Blocks))
		var sys []ssa.CallInstruction
		allInstrs(fn, func(in ssa.Instruction) {
			if ci, ok := in.(ssa.CallInstruction); ok {
				n := staticCalleeName(ci.Common())
				if n == x.syscall || strings.HasPrefix(n, "golang.org/x/sys/unix.Write") || strings.HasPrefix(n, "syscall.Write") || n == "rcproxy/core/internal/io.Writev" {
					sys = append(sys, ci)
				}
			}
		})
		if len(sys) == 0 {
			c.undecided("(*conn)."+x.m+": socket write", p.pos(fn.Pos()), "no socket write found in the function")
			continue
		}
		for _, s := range sys {
			guarded := false
			gs := guardsOf(s)
			for _, g := range gs {
				if call, ok := p.isCallTo(g.Cond, isEmpty); ok && g.Truth {
					if base, ok := fieldLoad(call.Call.Args[0], outb); ok && strip(base) == ssa.Value(fn.Params[0]) {
						guarded = true
					}
				}
			}
			c.check(guarded, "(*conn)."+x.m+": socket write only with empty backlog", c.at(s),
				"dominated by the true edge of c.outboundBuffer.IsEmpty()",
				"the socket is written although older bytes may still sit in the outbound buffer: newer bytes overtake buffered ones (slow reader ⇒ corrupted reply order)", withGuards(gs))
		}
		// the non-empty edge appends the whole input to the buffer and returns
		bufW := p.Method(pkgElastic, "Buffer", x.bufM)
		okOther := false
		for _, bw := range p.callsIn(fn, bufW) {
			for _, g := range guardsOf(bw) {
				if _, ok := p.isCallTo(g.Cond, isEmpty); ok && !g.Truth {
					arg := bw.Common().Args[len(bw.Common().Args)-1]
					if strip(arg) == ssa.Value(fn.Params[1]) {
						// followed by a return without a socket write
						exits := pathFrom(bw.(ssa.Instruction), func(in ssa.Instruction) bool {
							for _, s := range sys {
								if in == s.(ssa.Instruction) {
									okOther = false
								}
							}
							return false
						})
						if len(exits) > 0 {
							okOther = true
						}
					}
				}
			}
		}
		c.check(okOther, "(*conn)."+x.m+": backlog edge buffers the whole input", p.pos(fn.Pos()),
			"on the non-empty edge the unmodified input is appended to the outbound buffer",
			"on the edge where a backlog exists the input is not appended whole to the outbound buffer: bytes are lost or reordered")
	}
}

// ---------------------------------------------------------------------------------------------
// C01.6

var respLine = regexp.MustCompile(`^[+-][^\r\n]*\r\n$`)

func ruleC01_6(c *Ctx) {
	tp := c.P.typesPkg(pkgCodec)
	if tp == nil {
		c.undecided("package codec", "-", "not loaded")
		return
	}
	errT := c.P.Named(pkgCodec, "Error")
	stT := c.P.Named(pkgCodec, "Status")
	for _, name := range tp.Scope().Names() {
		k, ok := tp.Scope().Lookup(name).(*types.Const)
		if !ok {
			continue
		}
		if !(types.Identical(k.Type(), errT) || types.Identical(k.Type(), stT)) {
			continue
		}
		s := constant.StringVal(k.Val())
		okLine := respLine.MatchString(s)
		if types.Identical(k.Type(), errT) {
			okLine = okLine && s[0] == '-'
		} else {
			okLine = okLine && s[0] == '+'
		}
		c.check(okLine, "codec."+name, c.P.pos(k.Pos()), fmt.Sprintf("%q is one RESP line", s),
			fmt.Sprintf("%q is not exactly one RESP simple-string/error line: a client would see a truncated reply, stray bytes, or a reply of the wrong kind", s))
	}
}

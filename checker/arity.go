package main

// Case analysis of codec.checkArgs (and the helpers it may have been split into): which conditions hold
// on every path on which a command of a given arity class is accepted. Used by C06.4, C17.1 and C17.7.

import (
	"fmt"
	"go/constant"
	"go/token"
	"go/types"
	"regexp"
	"strings"

	"golang.org/x/tools/go/ssa"
)

type pathInfo struct {
	facts map[string]bool
	last  *ssa.BasicBlock // predecessor through which `to` was entered (nil when from == to)
}

// pathsTo enumerates the acyclic paths from `from` to `to` with the branch outcomes taken.
func pathsTo(from, to *ssa.BasicBlock, limit int) ([]pathInfo, bool) {
	var out []pathInfo
	complete := true
	onPath := map[*ssa.BasicBlock]bool{}
	facts := map[string]bool{}
	var path []*ssa.BasicBlock
	var walk func(b, prev *ssa.BasicBlock)
	walk = func(b, prev *ssa.BasicBlock) {
		if len(out) >= limit {
			complete = false
			return
		}
		if b == to {
			cp := map[string]bool{}
			for k, v := range facts {
				cp[k] = v
			}
			out = append(out, pathInfo{cp, prev})
			return
		}
		if onPath[b] {
			return
		}
		onPath[b] = true
		path = append(path, b)
		defer func() { delete(onPath, b); path = path[:len(path)-1] }()
		if g, ok := edgeFactCondOnPath(b, path); ok {
			for i, s := range b.Succs {
				truth := (i == 0) == g.pos
				if g.fixed {
					if g.val == truth {
						walk(s, b)
					}
					continue
				}
				if old, had := facts[g.key]; had {
					if old != truth {
						continue
					}
					walk(s, b)
					continue
				}
				facts[g.key] = truth
				walk(s, b)
				delete(facts, g.key)
			}
			return
		}
		for _, s := range b.Succs {
			walk(s, b)
		}
	}
	walk(from, nil)
	return out, complete
}

// condOf remembers one SSA value per canonical condition string, so that facts can be folded for a given arity class.
var condOf = map[string]ssa.Value{}

type condKey struct {
	key   string
	pos   bool // true: succ[0] means key is true
	fixed bool // the condition is a constant on this path (a phi of `a && b` entered through the short-circuit edge)
	val   bool
}

// edgeFactCondOnPath is edgeFactCond with a phi condition resolved along the path walked so far.
func edgeFactCondOnPath(b *ssa.BasicBlock, path []*ssa.BasicBlock) (condKey, bool) {
	ifi, ok := b.Instrs[len(b.Instrs)-1].(*ssa.If)
	if !ok || len(b.Succs) != 2 {
		return condKey{}, false
	}
	cond, pos := ifi.Cond, true
	for i := 0; i < 8; i++ {
		if u, ok := cond.(*ssa.UnOp); ok && u.Op.String() == "!" {
			cond, pos = u.X, !pos
			continue
		}
		if _, isPhi := cond.(*ssa.Phi); isPhi {
			if v := valueOnPath(cond, path); v != cond {
				cond = v
				continue
			}
		}
		break
	}
	if k, isK := cond.(*ssa.Const); isK && k.Value != nil && (k.Value.String() == "true" || k.Value.String() == "false") {
		return condKey{fixed: true, val: k.Value.String() == "true", pos: pos}, true
	}
	condOf[expr(cond)] = cond
	return condKey{key: expr(cond), pos: pos}, true
}

func edgeFactCond(b *ssa.BasicBlock) (condKey, bool) {
	ifi, ok := b.Instrs[len(b.Instrs)-1].(*ssa.If)
	if !ok || len(b.Succs) != 2 {
		return condKey{}, false
	}
	cond, pos := ifi.Cond, true
	for {
		u, ok := cond.(*ssa.UnOp)
		if !ok || u.Op.String() != "!" {
			break
		}
		cond, pos = u.X, !pos
	}
	condOf[expr(cond)] = cond
	return condKey{key: expr(cond), pos: pos}, true
}

type acceptCase struct {
	facts map[string]bool
	where string
}

// acceptCases lists the path conditions under which checkArgs returns the command it was given.
func (c *Ctx) acceptCases(ca *ssa.Function) ([]acceptCase, bool) {
	p := c.P
	var out []acceptCase
	complete := true
	for _, r := range returnsReachable(ca) {
		ret := r.(*ssa.Return)
		if strip(results(ret)[0]) != ssa.Value(ca.Params[0]) {
			continue
		}
		paths, ok := pathsTo(ca.Blocks[0], ret.Block(), 4096)
		complete = complete && ok
		for _, pi := range paths {
			// expand predicate helpers that hold on this path
			cases := []map[string]bool{pi.facts}
			for _, b := range ca.Blocks {
				ifi, isIf := b.Instrs[len(b.Instrs)-1].(*ssa.If)
				if !isIf {
					continue
				}
				ck, _ := edgeFactCond(b)
				want, onPath := pi.facts[ck.key]
				if !onPath {
					continue
				}
				cond := ifi.Cond
				for {
					u, ok := cond.(*ssa.UnOp)
					if !ok {
						break
					}
					cond = u.X
				}
				call, isCall := cond.(*ssa.Call)
				if !isCall {
					continue
				}
				h := call.Call.StaticCallee()
				if h == nil || !p.isHelper(h) {
					continue
				}
				bindCall(h, call.Call.Args)
				var expanded []map[string]bool
				for _, hr := range returnsReachable(h) {
					hret := hr.(*ssa.Return)
					hpaths, ok2 := pathsTo(h.Blocks[0], hret.Block(), 4096)
					complete = complete && ok2
					for _, hp := range hpaths {
						val := results(hret)[0]
						if ph, ok := val.(*ssa.Phi); ok && ph.Block() == hret.Block() && hp.last != nil {
							for i, pr := range ph.Block().Preds {
								if pr == hp.last {
									val = ph.Edges[i]
								}
							}
						}
						f2 := map[string]bool{}
						for k, v := range hp.facts {
							f2[k] = v
						}
						if k, isConst := val.(*ssa.Const); isConst && k.Value != nil {
							if (k.Value.String() == "true") != want {
								continue
							}
						} else {
							f2[expr(val)] = want
							condOf[expr(val)] = val
						}
						for _, base := range cases {
							m := map[string]bool{}
							for k, v := range base {
								m[k] = v
							}
							for k, v := range f2 {
								m[k] = v
							}
							expanded = append(expanded, m)
						}
					}
				}
				if len(expanded) > 0 {
					cases = expanded
				}
			}
			for _, m := range cases {
				out = append(out, acceptCase{m, c.at(ret)})
			}
		}
	}
	return out, complete
}

var classRe = regexp.MustCompile(`== (-?\d+)\)$`)

// arityClasses groups the accept cases by arity class. A case belongs to class K when every condition on its path
// that compares the looked-up arity value with a constant holds for K (constant folding: `nargs == K`, a `switch
// nargs` case list, or a range test such as `nargs >= Nargsz && nargs <= Nargs3` all work).
func (c *Ctx) arityClasses(ca *ssa.Function) (map[int64][]acceptCase, []acceptCase, bool) {
	cases, complete := c.acceptCases(ca)
	byClass := map[int64][]acceptCase{}
	var unclassified []acceptCase
	// the classes: the constants of type codec.NArgs
	var classes []int64
	if tp := c.P.typesPkg(pkgCodec); tp != nil {
		for _, name := range tp.Scope().Names() {
			if k, ok := tp.Scope().Lookup(name).(*types.Const); ok {
				if n, isN := k.Type().(*types.Named); isN && n.Obj().Name() == "NArgs" {
					if v, exact := constant.Int64Val(k.Val()); exact {
						classes = append(classes, v)
					}
				}
			}
		}
	}
	isArity := func(v ssa.Value) bool {
		v = strip(v)
		if cv, ok := v.(*ssa.Convert); ok {
			v = strip(cv.X)
		}
		return strings.Contains(expr(v), "CommandType2ArgsNumber") && !strings.Contains(expr(v), "#1")
	}
	fold := func(cond ssa.Value, k int64) (val, decided bool) {
		bo, ok := cond.(*ssa.BinOp)
		if !ok {
			return false, false
		}
		var other ssa.Value
		flip := false
		switch {
		case isArity(bo.X):
			other = bo.Y
		case isArity(bo.Y):
			other, flip = bo.X, true
		default:
			return false, false
		}
		kc, isK := constInt(other)
		if !isK {
			return false, false
		}
		a, b := k, kc
		if flip {
			a, b = kc, k
		}
		switch bo.Op {
		case token.EQL:
			return a == b, true
		case token.NEQ:
			return a != b, true
		case token.LSS:
			return a < b, true
		case token.LEQ:
			return a <= b, true
		case token.GTR:
			return a > b, true
		case token.GEQ:
			return a >= b, true
		}
		return false, false
	}
	for _, ac := range cases {
		found := false
		for _, k := range classes {
			consistent, constrained := true, false
			for key, truth := range ac.facts {
				cond, ok := condOf[key]
				if !ok {
					continue
				}
				if v, decided := fold(cond, k); decided {
					constrained = true
					if v != truth {
						consistent = false
					}
				}
			}
			if consistent && constrained {
				byClass[k] = append(byClass[k], ac)
				found = true
			}
		}
		if !found {
			unclassified = append(unclassified, ac)
		}
	}
	return byClass, unclassified, complete
}

func hasFact(f map[string]bool, alts ...string) bool {
	for _, a := range alts {
		neg := strings.HasPrefix(a, "!")
		key := strings.TrimPrefix(a, "!")
		for k, v := range f {
			if v == !neg && strings.ReplaceAll(k, " ", "") == strings.ReplaceAll(key, " ", "") {
				return true
			}
		}
	}
	return false
}

func describeFacts(f map[string]bool) string {
	var parts []string
	for k, v := range f {
		if strings.Contains(k, "CommandType2ArgsNumber") && !strings.Contains(k, "param1") {
			continue
		}
		if v {
			parts = append(parts, k)
		} else {
			parts = append(parts, "!"+k)
		}
	}
	sortStrings(parts)
	return strings.Join(parts, " && ")
}

var _ = fmt.Sprint

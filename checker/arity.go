package main

// Case analysis of codec.checkArgs (and the helpers it may have been split into): which conditions hold
// on every path on which a command of a given arity class is accepted. Used by C06.4, C17.1 and C17.7.

import (
	"fmt"
	"regexp"
	"strconv"
	"strings"

	"golang.org/x/tools/go/ssa"
)

type pathInfo struct {
	facts map[string]bool
	last  *ssa.BasicBlock // predecessor through which `to` was entered (nil when from == to)
}

// pathsTo enumerates the acyclic paths from `from` to `to` with the branch outcomes taken.
func pathsTo(from, to *ssa.BasicBlock, limit int) ([]pathInfo, bool) {
	var out []pathInfo
	complete := true
	onPath := map[*ssa.BasicBlock]bool{}
	facts := map[string]bool{}
	var walk func(b, prev *ssa.BasicBlock)
	walk = func(b, prev *ssa.BasicBlock) {
		if len(out) >= limit {
			complete = false
			return
		}
		if b == to {
			cp := map[string]bool{}
			for k, v := range facts {
				cp[k] = v
			}
			out = append(out, pathInfo{cp, prev})
			return
		}
		if onPath[b] {
			return
		}
		onPath[b] = true
		defer delete(onPath, b)
		if g, ok := edgeFactCond(b); ok {
			for i, s := range b.Succs {
				truth := (i == 0) == g.pos
				if old, had := facts[g.key]; had {
					if old != truth {
						continue
					}
					walk(s, b)
					continue
				}
				facts[g.key] = truth
				walk(s, b)
				delete(facts, g.key)
			}
			return
		}
		for _, s := range b.Succs {
			walk(s, b)
		}
	}
	walk(from, nil)
	return out, complete
}

type condKey struct {
	key string
	pos bool // true: succ[0] means key is true
}

func edgeFactCond(b *ssa.BasicBlock) (condKey, bool) {
	ifi, ok := b.Instrs[len(b.Instrs)-1].(*ssa.If)
	if !ok || len(b.Succs) != 2 {
		return condKey{}, false
	}
	cond, pos := ifi.Cond, true
	for {
		u, ok := cond.(*ssa.UnOp)
		if !ok || u.Op.String() != "!" {
			break
		}
		cond, pos = u.X, !pos
	}
	return condKey{expr(cond), pos}, true
}

type acceptCase struct {
	facts map[string]bool
	where string
}

// acceptCases lists the path conditions under which checkArgs returns the command it was given.
func (c *Ctx) acceptCases(ca *ssa.Function) ([]acceptCase, bool) {
	p := c.P
	var out []acceptCase
	complete := true
	for _, r := range returnsReachable(ca) {
		ret := r.(*ssa.Return)
		if strip(results(ret)[0]) != ssa.Value(ca.Params[0]) {
			continue
		}
		paths, ok := pathsTo(ca.Blocks[0], ret.Block(), 4096)
		complete = complete && ok
		for _, pi := range paths {
			// expand predicate helpers that hold on this path
			cases := []map[string]bool{pi.facts}
			for _, b := range ca.Blocks {
				ifi, isIf := b.Instrs[len(b.Instrs)-1].(*ssa.If)
				if !isIf {
					continue
				}
				ck, _ := edgeFactCond(b)
				want, onPath := pi.facts[ck.key]
				if !onPath {
					continue
				}
				cond := ifi.Cond
				for {
					u, ok := cond.(*ssa.UnOp)
					if !ok {
						break
					}
					cond = u.X
				}
				call, isCall := cond.(*ssa.Call)
				if !isCall {
					continue
				}
				h := call.Call.StaticCallee()
				if h == nil || !p.isHelper(h) {
					continue
				}
				bindCall(h, call.Call.Args)
				var expanded []map[string]bool
				for _, hr := range returnsReachable(h) {
					hret := hr.(*ssa.Return)
					hpaths, ok2 := pathsTo(h.Blocks[0], hret.Block(), 4096)
					complete = complete && ok2
					for _, hp := range hpaths {
						val := results(hret)[0]
						if ph, ok := val.(*ssa.Phi); ok && ph.Block() == hret.Block() && hp.last != nil {
							for i, pr := range ph.Block().Preds {
								if pr == hp.last {
									val = ph.Edges[i]
								}
							}
						}
						f2 := map[string]bool{}
						for k, v := range hp.facts {
							f2[k] = v
						}
						if k, isConst := val.(*ssa.Const); isConst && k.Value != nil {
							if (k.Value.String() == "true") != want {
								continue
							}
						} else {
							f2[expr(val)] = want
						}
						for _, base := range cases {
							m := map[string]bool{}
							for k, v := range base {
								m[k] = v
							}
							for k, v := range f2 {
								m[k] = v
							}
							expanded = append(expanded, m)
						}
					}
				}
				if len(expanded) > 0 {
					cases = expanded
				}
			}
			for _, m := range cases {
				out = append(out, acceptCase{m, c.at(ret)})
			}
		}
	}
	return out, complete
}

var classRe = regexp.MustCompile(`== (-?\d+)\)$`)

// arityFacts groups the accept cases by arity class.
func (c *Ctx) arityClasses(ca *ssa.Function) (map[int64][]acceptCase, []acceptCase, bool) {
	cases, complete := c.acceptCases(ca)
	byClass := map[int64][]acceptCase{}
	var unclassified []acceptCase
	for _, ac := range cases {
		found := false
		for k, v := range ac.facts {
			if !v || !strings.Contains(k, "CommandType2ArgsNumber") {
				continue
			}
			if m := classRe.FindStringSubmatch(k); m != nil {
				n, _ := strconv.ParseInt(m[1], 10, 64)
				byClass[n] = append(byClass[n], ac)
				found = true
			}
		}
		if !found {
			unclassified = append(unclassified, ac)
		}
	}
	return byClass, unclassified, complete
}

func hasFact(f map[string]bool, alts ...string) bool {
	for _, a := range alts {
		neg := strings.HasPrefix(a, "!")
		key := strings.TrimPrefix(a, "!")
		for k, v := range f {
			if v == !neg && strings.ReplaceAll(k, " ", "") == strings.ReplaceAll(key, " ", "") {
				return true
			}
		}
	}
	return false
}

func describeFacts(f map[string]bool) string {
	var parts []string
	for k, v := range f {
		if strings.Contains(k, "CommandType2ArgsNumber") && !strings.Contains(k, "param1") {
			continue
		}
		if v {
			parts = append(parts, k)
		} else {
			parts = append(parts, "!"+k)
		}
	}
	sortStrings(parts)
	return strings.Join(parts, " && ")
}

var _ = fmt.Sprint

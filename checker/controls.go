package main

// Positive controls: the engines are run on a tiny fixture package with one planted violation per rule
// family on every invocation; an engine that no longer reports its planted construct makes the run
// UNDECIDED (a rule that matches nothing would otherwise pass vacuously forever).

import (
	_ "embed"
	"fmt"
	"go/ast"
	"go/parser"
	"go/token"
	"go/types"

	"golang.org/x/tools/go/packages"
	"golang.org/x/tools/go/ssa"
	"golang.org/x/tools/go/ssa/ssautil"
)

//go:embed fixtures/fx.go.txt
var fixtureSrc string

func buildFixtures() (*Prog, *ssa.Package, error) {
	fset := token.NewFileSet()
	f, err := parser.ParseFile(fset, "fx.go", fixtureSrc, 0)
	if err != nil {
		return nil, nil, err
	}
	pkg := types.NewPackage("rcproxy/fx", "fx")
	spkg, _, err := ssautil.BuildPackage(&types.Config{}, fset, pkg, []*ast.File{f}, ssa.InstantiateGenerics)
	if err != nil {
		return nil, nil, err
	}
	p := &Prog{Repo: "", Fset: fset, Pkgs: map[string]*packages.Package{"rcproxy/fx": {PkgPath: "rcproxy/fx", Types: pkg}},
		SSA: spkg.Prog, SPkgs: map[string]*ssa.Package{"rcproxy/fx": spkg}, byName: map[string]*ssa.Function{}, implCache: map[string][]*ssa.Function{}, anchors: map[*ssa.Function]bool{}}
	for fn := range ssautil.AllFunctions(spkg.Prog) {
		if fn.Blocks != nil && fn.Pkg == spkg {
			p.Funcs = append(p.Funcs, fn)
			p.byName[fnKey(fn)] = fn
		}
	}
	return p, spkg, nil
}

func runControls(pd *PropDef) (out []Ob) {
	add := func(name string, ok bool, detail string) {
		v := OK
		if !ok {
			v = UNDECIDED
			detail = "positive control failed: " + detail + " - the engine no longer sees the planted construct, so its rules cannot be trusted on this tool chain"
		}
		out = append(out, Ob{Rule: "control", Construct: name, Pos: "checker/fixtures/fx.go.txt", Verdict: v, Detail: detail})
	}
	defer func() {
		if r := recover(); r != nil {
			add("fixtures", false, fmt.Sprint("panic while running controls: ", r))
		}
	}()
	p, _, err := buildFixtures()
	if err != nil {
		add("fixtures build", false, err.Error())
		return
	}
	saveProg, saveInl := curProg, inlining
	curProg, inlining = p, false
	defer func() { curProg, inlining = saveProg, saveInl }()
	c := &Ctx{P: p, counted: map[string]int{}, funcs: map[string]bool{}, rule: &RuleInfo{ID: "control"}}
	fn := func(name string) *ssa.Function {
		f := p.byName["rcproxy/fx."+name]
		if f == nil {
			f = p.byName["(*rcproxy/fx.T)."+name]
		}
		if f == nil {
			f = p.byName["(*rcproxy/fx.Q)."+name]
		}
		return f
	}
	// E7
	nilnil := func(f *ssa.Function) int {
		n := 0
		allInstrs(f, func(in ssa.Instruction) {
			if r, ok := in.(*ssa.Return); ok {
				rs := results(r)
				a, _ := c.definitelyNonNil(rs[0], r, 0)
				b, _ := c.definitelyNonNil(rs[1], r, 0)
				if !a && !b {
					n++
				}
			}
		})
		return n
	}
	add("E7 (nil, nil) under a || err != nil", nilnil(fn("NilNil")) == 1, "NilNil must have exactly one possibly-(nil,nil) return")
	add("E7 negative control", nilnil(fn("NilErr")) == 0, "NilErr must have none")
	// E3 service loop
	add("E3 return inside a service loop", len(returnsReachable(fn("ServiceLoop"))) == 1, "ServiceLoop has one reachable return")
	add("E3 service loop negative control", len(returnsReachable(fn("ServiceLoopOK"))) == 0, "ServiceLoopOK has none")
	// E3 pick in loop
	{
		f := fn("PickInLoop")
		var collect *Loop
		loops := loopsOf(f)
		var pickBlock *ssa.BasicBlock
		allInstrs(f, func(in ssa.Instruction) {
			if st, ok := in.(*ssa.Store); ok {
				if _, isG := st.Addr.(*ssa.Global); isG {
					if l := innermostLoop(loops, st.Block()); l != nil {
						collect = l
					}
				}
			}
			if r, ok := in.(*ssa.Return); ok {
				if _, isConst := r.Results[0].(*ssa.Const); !isConst {
					pickBlock = r.Block()
				}
			}
		})
		bad := false
		if collect != nil && pickBlock != nil {
			for _, e := range collect.exitEdges() {
				if e[0] != collect.Header && (e[1] == pickBlock || reachableBlocks(e[1], nil)[pickBlock]) {
					bad = true
				}
			}
		}
		add("E3 pick reachable from inside the collecting loop", bad, "PickInLoop's return must be reachable through a non-header exit edge")
	}
	// E8 retention
	{
		memo := map[string][]retainFinding{}
		add("E8 retained slice parameter", len(c.retains(fn("Keep"), 1, 3, memo)) > 0, "T.Keep stores its argument")
		add("E8 retention negative control", len(c.retains(fn("Copy"), 1, 3, memo)) == 0, "T.Copy copies its argument")
	}
	// E3 canReach through a back edge
	{
		f := fn("EnqueueThenFail")
		var call, ret ssa.Instruction
		allInstrs(f, func(in ssa.Instruction) {
			if cl, ok := in.(*ssa.Call); ok && cl.Call.StaticCallee() != nil && cl.Call.StaticCallee().Name() == "enqueue" {
				call = in
			}
			if r, ok := in.(*ssa.Return); ok && !isNilConst(r.Results[0]) {
				ret = r
			}
		})
		add("E3 action ⇝ failing return through the loop back edge", call != nil && ret != nil && canReach(call, ret), "the -ERR return must be reachable from the enqueue")
	}
	// E5c traversal
	{
		tT := p.Named("rcproxy/fx", "T")
		links := map[*types.Var]bool{}
		for _, l := range linkFields(tT) {
			links[l] = true
		}
		trs := chainTraversals(fn("Walk"), tT, links)
		add("E5c chain traversal and its link", len(trs) == 1 && trs[0].link.Name() == "next", "Q.Walk follows .next")
	}
	// E4 deciding conditions
	{
		f := fn("Either")
		n := 0
		allInstrs(f, func(in ssa.Instruction) {
			if r, ok := in.(*ssa.Return); ok {
				if k, isK := constInt(r.Results[0]); isK && k == 1 {
					n = len(decidingConds(r.Block(), 0))
					if len(guardsAt(r.Block())) != 0 {
						n = -1
					}
				}
			}
		})
		add("E4 disjunction: two deciding conditions, no dominating guard", n == 2, "the block guarded by a || b")
	}
	// path enumeration
	{
		f := fn("Diamonds")
		var ret *ssa.BasicBlock
		allInstrs(f, func(in ssa.Instruction) {
			if _, ok := in.(*ssa.Return); ok {
				ret = in.Block()
			}
		})
		paths, complete := pathFacts(f.Blocks[0], ret, nil, 100)
		add("path enumeration over two diamonds", complete && len(paths) == 4, fmt.Sprintf("expected 4 paths, got %d", len(paths)))
	}
	// feasible paths with a flag
	{
		f := fn("Flagged")
		var ret1 *ssa.BasicBlock
		var brk *ssa.BasicBlock
		allInstrs(f, func(in ssa.Instruction) {
			if r, ok := in.(*ssa.Return); ok {
				if k, isK := constInt(r.Results[0]); isK && k == 1 {
					ret1 = r.Block()
				}
			}
		})
		for _, l := range loopsOf(f) {
			for _, e := range l.exitEdges() {
				if e[0] != l.Header {
					brk = e[0]
				}
			}
		}
		viaBreak := 0
		if ret1 != nil && brk != nil {
			paths, _ := feasiblePaths(f.Blocks[0], func(b *ssa.BasicBlock) bool { return b == ret1 }, 100)
			for _, pa := range paths {
				for _, b := range pa {
					if b == brk {
						viaBreak++
					}
				}
			}
			add("feasible paths: the flag set on the break edge prunes the `all` branch", len(paths) > 0 && viaBreak == 0, fmt.Sprintf("%d paths reach `return 1`, %d of them through the break", len(paths), viaBreak))
		} else {
			add("feasible paths: fixture shape", false, "return 1 / break edge not found")
		}
	}
	// virtual calls
	{
		inlSave := inlining
		inlining = true
		f := fn("TwoSites")
		var args []string
		p.virtualCalls(f, []*ssa.Function{fn("Copy")}, func(call ssa.CallInstruction) {
			args = append(args, expr(strip(call.Common().Args[1])))
		})
		inlining = inlSave
		add("virtual calls: a helper with two call sites yields two calls with their own arguments", len(args) == 2 && args[0] != args[1], fmt.Sprint(args))
	}
	// linear forms
	{
		ringT := p.Named("rcproxy/fx", "Ring")
		var sizeF *types.Var
		if st, ok := ringT.Underlying().(*types.Struct); ok {
			for i := 0; i < st.NumFields(); i++ {
				if st.Field(i).Name() == "size" {
					sizeF = st.Field(i)
				}
			}
		}
		slack := func(name string) (bool, bool) {
			f := p.byName["(*rcproxy/fx.Ring)."+name]
			g := p.byName["(*rcproxy/fx.Ring).grow"]
			rc := &ringCtx{p: p, recv: f.Params[0], sizeF: sizeF, buffered: p.byName["(*rcproxy/fx.Ring).Buffered"], available: p.byName["(*rcproxy/fx.Ring).Available"]}
			found, ok := false, false
			allInstrs(f, func(in ssa.Instruction) {
				if call, isC := in.(*ssa.Call); isC && call.Call.StaticCallee() == g {
					found = true
					arg := rc.lin(call.Call.Args[1], 0)
					want := linForm{coef: map[string]int64{"B": 1, "len(" + expr(f.Params[1]) + ")": 1}, ok: true}
					ok = arg.minus(want).nonNeg()
				}
			})
			return found, ok
		}
		f1, ok1 := slack("WriteOK")
		f2, ok2 := slack("WriteShort")
		add("linear forms: size + n - Available() covers Buffered() + n, n alone does not", f1 && ok1 && f2 && !ok2, fmt.Sprintf("WriteOK %v/%v WriteShort %v/%v", f1, ok1, f2, ok2))
	}
	return out
}

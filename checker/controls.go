package main

// runControls runs the engines on the planted fixtures (positive controls). Filled in below.
func runControls(pd *PropDef) []Ob { return nil }

func thoroughExtras(res *runResult, repo, verif string, pd *PropDef) {}

func cmdSelftest(args []string) int { return 0 }

package main

// Rules added after the seventh round of independently seeded changes (DESIGN.md section 6).

import (
	"fmt"
	"go/constant"
	"go/token"
	"go/types"
	"strings"

	"golang.org/x/tools/go/ssa"
)

func init() {
	rule("C11.9", "E2+E6", "a metric is used only if NewProxyStats made it, with as many label values as it was declared with: calling WithLabelValues on a ProxyStats field the constructor leaves nil, or with a different number of labels, panics on the event loop", 10, ruleC11_9)
	rule("C13.7", "E3+E6", "a map field of a request is made before it is written: every map update on Msg.Body / Fd2Slot / Frags / Frags2 is preceded by a make in the same function, or the decoder makes the map for every request it returns", 4, ruleC13_7)
	rule("C14.12", "E3", "the list of probe targets is rebuilt from the pools after the pools' last change: in eventloop.ticker no change of Engine.ProxyPool is reachable from the rebuild of Engine.ProxyAddrs, and every change reaches it", 2, ruleC14_12)
	rule("C04.10", "E3+E6", "the handshake state of a backend connection decides one thing only - which decoder reads its socket: no branch outside conn.sread's decoder selection depends on conn.initStatus / InitializeStatus() (who-may-branch table with one row)", 1, ruleC04_10)
	rule("C17.9", "E3", "a rejection recorded in Msg.Type stands: in the client decoder no store of the classification (a computed value) into Msg.Type is reachable from a store of a rejection constant", 2, ruleC17_9)
	rule("C18.6", "E2+E8", "the remote address the whitelist sees is fully written: a byte slice taken from the pool with a constant size is covered completely by constant-range copies / element stores before it is returned (pooled slices are not zeroed)", 2, ruleC18_6)
	rule("C20.4", "E8", "every supported command that the Redis command table flags read-only is replica-eligible (its constant is below ReqWriteCmdStart): a read command above the marker is always served by the master and no replica ever serves it", 40, ruleC20_4)
	rule("C09.8", "E3+E8", "the view a decoder gets from conn.Peek / conn.Next is the n bytes asked for, leftover first and the current read after it: every returned slice is cut to n, or is the cache filled with the leftover and - unless the leftover alone has n bytes - the head of the current read", 4, ruleC09_8)
	rule("C08.8", "E6", "only a decoder consumes a connection's input: Next / Discard on a connection are called by the request and reply decoders and by nothing else (who-may-call)", 3, ruleC08_8)
	rule("C19.9", "E3", "a node popped from the list buffer is accounted for: from every pop() that returned a node, each path uses the node (consumes it or pushes it back) before the function returns or pops again", 3, ruleC19_9)
	rule("C16.7", "E3", "a timeout finishes every fragment of the request: msgTimeout marks fragments Done in a loop over Msg.Body - the one table every request has - under no condition but the fragment's own Done flag", 1, ruleC16_7)
	rule("C01.8", "E3+E6", "the shared decode buffer has one user at a time: between a decoder's codec.NewBuffer and its last use of that buffer it calls nothing that (transitively, closures included) calls codec.NewBuffer again", 4, ruleC01_8)
	rule("C11.10", "E3+E8", "a reply that the decoder classified as an authentication failure of the proxy's own handshake is consumed by the proxy: eventloop.sread returns ErrEngineShutdown for each of RspNeedAuth, RspNeedNtAuth and RspAuthFailed", 3, ruleC11_10)
	rule("C06.6", "E2+E8", "the bytes of a request fragment and of a reply are written only by storing the result back: an append onto (or element store / copy into) a slice taken from Frag.Req, Frag.RspBody or Msg.RspBody whose result does not go back into that field writes through the alias", 1, ruleC06_6)
}

var _ = strings.Contains
var _ = token.ADD

// byteFieldOrigin: v is (a sub-slice of / a phi over / an append onto) a load of one of the given fields.
func byteFieldOrigin(v ssa.Value, fields map[*types.Var]bool, seen map[ssa.Value]bool) *types.Var {
	if seen[v] {
		return nil
	}
	seen[v] = true
	switch x := v.(type) {
	case *ssa.Slice:
		return byteFieldOrigin(x.X, fields, seen)
	case *ssa.ChangeType:
		return byteFieldOrigin(x.X, fields, seen)
	case *ssa.Phi:
		for _, e := range x.Edges {
			if f := byteFieldOrigin(e, fields, seen); f != nil {
				return f
			}
		}
	case *ssa.Call:
		if b, ok := x.Call.Value.(*ssa.Builtin); ok && b.Name() == "append" && len(x.Call.Args) > 0 {
			return byteFieldOrigin(x.Call.Args[0], fields, seen)
		}
	case *ssa.UnOp:
		if f, _, ok := anyFieldLoad(x); ok && fields[f] {
			return f
		}
	}
	return nil
}

// storedBackTo: the value reaches (through phis, re-slicing and further appends onto it) a store into field f.
func storedBackTo(v ssa.Value, f *types.Var, seen map[ssa.Value]bool) bool {
	if seen[v] {
		return false
	}
	seen[v] = true
	refs := v.Referrers()
	if refs == nil {
		return false
	}
	for _, r := range *refs {
		switch x := r.(type) {
		case *ssa.Store:
			if fa, ok := x.Addr.(*ssa.FieldAddr); ok && x.Val == v && fieldVar(fa.X.Type(), fa.Field) == f {
				return true
			}
		case *ssa.Phi:
			if storedBackTo(x, f, seen) {
				return true
			}
		case *ssa.Slice:
			if x.X == v && storedBackTo(x, f, seen) {
				return true
			}
		case *ssa.ChangeType:
			if storedBackTo(x, f, seen) {
				return true
			}
		case *ssa.Call:
			if b, ok := x.Call.Value.(*ssa.Builtin); ok && b.Name() == "append" && len(x.Call.Args) > 0 && x.Call.Args[0] == v {
				if storedBackTo(x, f, seen) {
					return true
				}
			}
		}
	}
	return false
}

func ruleC06_6(c *Ctx) {
	p := c.P
	fields := map[*types.Var]bool{}
	for _, spec := range [][2]string{{"Frag", "Req"}, {"Frag", "RspBody"}, {"Msg", "RspBody"}} {
		if f := p.Field(pkgCore, spec[0], spec[1]); f != nil {
			fields[f] = true
		}
	}
	if len(fields) != 3 {
		c.undecided("Frag.Req / Frag.RspBody / Msg.RspBody", "-", "fields not found")
		return
	}
	sites, bad := 0, 0
	for _, fn := range p.Funcs {
		if fn.Synthetic != "" || fn.Blocks == nil || skipPkgStrict(fn) {
			continue
		}
		allInstrs(fn, func(in ssa.Instruction) {
			switch x := in.(type) {
			case *ssa.Call:
				b, ok := x.Call.Value.(*ssa.Builtin)
				if !ok || len(x.Call.Args) < 1 {
					return
				}
				switch b.Name() {
				case "append":
					f := byteFieldOrigin(x.Call.Args[0], fields, map[ssa.Value]bool{})
					if f == nil {
						return
					}
					sites++
					if !storedBackTo(x, f, map[ssa.Value]bool{}) {
						bad++
						c.bad("aliasing append onto "+f.Name()+" in "+shortFn(fn), c.at(in), "append onto a slice taken from "+f.Name()+" whose result is not stored back into "+f.Name()+": the append writes into the field's backing array (within its capacity) while the field keeps its old length - a log helper that abbreviates `append(req[:512], \"...\")` overwrites bytes 512-514 of the fragment that is (re-)sent to the node afterwards")
					}
				case "copy":
					f := byteFieldOrigin(x.Call.Args[0], fields, map[ssa.Value]bool{})
					if f == nil {
						return
					}
					sites++
					bad++
					c.bad("copy into "+f.Name()+" in "+shortFn(fn), c.at(in), "copy into a slice taken from "+f.Name()+": the bytes of a stored request/reply are overwritten in place")
				}
			case *ssa.Store:
				ia, ok := x.Addr.(*ssa.IndexAddr)
				if !ok {
					return
				}
				f := byteFieldOrigin(ia.X, fields, map[ssa.Value]bool{})
				if f == nil {
					return
				}
				sites++
				bad++
				c.bad("element store into "+f.Name()+" in "+shortFn(fn), c.at(in), "a byte of a stored request/reply is overwritten in place")
			}
		})
	}
	c.examined(sites)
	if bad == 0 {
		c.ok("stored request and reply bytes are modified only through their field", "-", fmt.Sprintf("%d appends onto Frag.Req / Frag.RspBody / Msg.RspBody examined, each stored back into its field; no element store or copy into them", sites))
	}
}

// ---------------------------------------------------------------------------------------------
// C11.9

func ruleC11_9(c *Ctx) {
	p := c.P
	ctor := c.need(pkgCore + ".NewProxyStats")
	statsT := p.Named(pkgCore, "ProxyStats")
	if ctor == nil {
		return
	}
	if statsT == nil {
		c.undecided("core.ProxyStats", "-", "type not found")
		return
	}
	// fields the constructor fills, and the number of labels each was declared with
	labels := map[*types.Var]int{}
	allInstrs(ctor, func(in ssa.Instruction) {
		st, ok := in.(*ssa.Store)
		if !ok {
			return
		}
		fa, ok := st.Addr.(*ssa.FieldAddr)
		if !ok {
			return
		}
		fv := fieldVar(fa.X.Type(), fa.Field)
		call, ok := st.Val.(*ssa.Call)
		if !ok || fv == nil {
			return
		}
		name := staticCalleeName(&call.Call)
		if !strings.Contains(name, "prometheus.New") || len(call.Call.Args) != 2 {
			return
		}
		if isNilConst(call.Call.Args[1]) {
			labels[fv] = 0
		} else if els := varargElems(call.Call.Args[1]); els != nil {
			labels[fv] = len(els)
		} else {
			labels[fv] = -1 // made, label count not a literal
		}
	})
	if len(labels) < 10 {
		c.undecided("NewProxyStats: metrics made", p.pos(ctor.Pos()), fmt.Sprintf("only %d ProxyStats fields found assigned a prometheus.New*Vec(...) value", len(labels)))
		return
	}
	// other writers of ProxyStats fields would invalidate the table
	isStatsField := func(fa *ssa.FieldAddr) (*types.Var, bool) {
		t := fa.X.Type()
		if pt, ok := t.Underlying().(*types.Pointer); ok {
			t = pt.Elem()
		}
		if !types.Identical(t, statsT) {
			return nil, false
		}
		return fieldVar(fa.X.Type(), fa.Field), true
	}
	uses := 0
	for _, fn := range p.Funcs {
		if fn.Synthetic != "" || fn.Blocks == nil || !p.ownFunc(fn) {
			continue
		}
		allInstrs(fn, func(in ssa.Instruction) {
			switch x := in.(type) {
			case *ssa.Store:
				if fa, ok := x.Addr.(*ssa.FieldAddr); ok && fn != ctor {
					if fv, is := isStatsField(fa); is {
						c.bad("ProxyStats."+fv.Name()+" assigned in "+shortFn(fn), c.at(in), "a metric is replaced outside NewProxyStats: the table of made metrics no longer describes what the event loop uses")
					}
				}
			case *ssa.Call:
				if x.Call.IsInvoke() || len(x.Call.Args) == 0 {
					return
				}
				callee := x.Call.StaticCallee()
				if callee == nil || callee.Pkg == nil || !strings.Contains(callee.Pkg.Pkg.Path(), "prometheus") {
					return
				}
				ld, ok := strip(x.Call.Args[0]).(*ssa.UnOp)
				if !ok || ld.Op != token.MUL {
					return
				}
				fa, ok := ld.X.(*ssa.FieldAddr)
				if !ok {
					return
				}
				fv, is := isStatsField(fa)
				if !is {
					return
				}
				uses++
				c.touch(fn)
				n, made := labels[fv]
				name := "GlobalStats." + fv.Name() + "." + callee.Name() + " in " + shortFn(fn)
				if !made {
					c.bad(name, c.at(in), "ProxyStats."+fv.Name()+" is never made by NewProxyStats: it is a nil vector and the call panics on the event-loop goroutine (no recover): the proxy dies at the first "+
						"occurrence of whatever this line counts (a backend error reply, a node that cannot be dialled) instead of handling it")
					return
				}
				if callee.Name() == "WithLabelValues" && len(x.Call.Args) == 2 && n >= 0 {
					got := -1
					if isNilConst(x.Call.Args[1]) {
						got = 0
					} else if els := varargElems(x.Call.Args[1]); els != nil {
						got = len(els)
					}
					if got >= 0 {
						c.check(got == n, name, c.at(in), fmt.Sprintf("%d label value(s) for a vector declared with %d", got, n),
							fmt.Sprintf("WithLabelValues is given %d value(s) but ProxyStats.%s is declared with %d label(s): prometheus panics (inconsistent label cardinality) on the event loop", got, fv.Name(), n))
						return
					}
				}
				c.ok(name, c.at(in), "made by NewProxyStats")
			}
		})
	}
	c.examined(uses)
}

// ---------------------------------------------------------------------------------------------
// C13.7

func ruleC13_7(c *Ctx) {
	p := c.P
	dec := c.needMethod(pkgCore, "CRespCodec", "Decode")
	msgT := p.Named(pkgCore, "Msg")
	if dec == nil {
		return
	}
	if msgT == nil {
		c.undecided("core.Msg", "-", "type not found")
		return
	}
	isMsgMapField := func(fa *ssa.FieldAddr) *types.Var {
		t := fa.X.Type()
		if pt, ok := t.Underlying().(*types.Pointer); ok {
			t = pt.Elem()
		}
		if !types.Identical(t, msgT) {
			return nil
		}
		fv := fieldVar(fa.X.Type(), fa.Field)
		if fv == nil {
			return nil
		}
		if _, isMap := fv.Type().Underlying().(*types.Map); !isMap {
			return nil
		}
		return fv
	}
	// makes: stores of a fresh map into a Msg map field
	type mk struct {
		f  *types.Var
		in ssa.Instruction
	}
	makes := map[*ssa.Function][]mk{}
	for _, fn := range p.Funcs {
		if fn.Blocks == nil || !p.ownFunc(fn) {
			continue
		}
		allInstrs(fn, func(in ssa.Instruction) {
			st, ok := in.(*ssa.Store)
			if !ok {
				return
			}
			fa, ok := st.Addr.(*ssa.FieldAddr)
			if !ok {
				return
			}
			if _, isMake := st.Val.(*ssa.MakeMap); !isMake {
				return
			}
			if fv := isMsgMapField(fa); fv != nil {
				makes[fn] = append(makes[fn], mk{fv, in})
			}
		})
	}
	// made for every request the decoder hands out: the make dominates every return of a non-nil request
	always := map[*types.Var]bool{}
	decMakes := append([]mk{}, makes[dec]...)
	// a constructor helper of Decode (`resp := newRequestMsg(c, msg, n)`) that makes the map on each of its paths
	for _, g := range p.family(dec) {
		if g == dec {
			continue
		}
		for _, m := range makes[g] {
			if li := lift(m.in, dec); li != nil && onEveryPath(m.in) {
				decMakes = append(decMakes, mk{m.f, li})
			}
		}
	}
	for _, m := range decMakes {
		ok := true
		n := 0
		for _, r := range returnsReachable(dec) {
			rs := results(r.(*ssa.Return))
			if len(rs) == 0 || isNilConst(rs[0]) {
				continue
			}
			n++
			if !dominatesInstr(m.in, r) {
				ok = false
			}
		}
		if ok && n > 0 {
			always[m.f] = true
		}
	}
	sites := 0
	for _, fn := range p.Funcs {
		if fn.Blocks == nil || !p.ownFunc(fn) || fn.Synthetic != "" {
			continue
		}
		allInstrs(fn, func(in ssa.Instruction) {
			mu, ok := in.(*ssa.MapUpdate)
			if !ok {
				return
			}
			ld, ok := strip(mu.Map).(*ssa.UnOp)
			if !ok {
				return
			}
			fa, ok := ld.X.(*ssa.FieldAddr)
			if !ok {
				return
			}
			fv := isMsgMapField(fa)
			if fv == nil {
				return
			}
			sites++
			c.touch(fn)
			name := "Msg." + fv.Name() + " written in " + shortFn(fn)
			if always[fv] {
				c.ok(name, c.at(in), "made by CRespCodec.Decode for every request it returns")
				return
			}
			for _, m := range makes[fn] {
				if m.f == fv && dominatesInstr(m.in, in) {
					c.ok(name, c.at(in), "made earlier in the same function")
					return
				}
			}
			// made by the (single) caller before the helper runs
			if p.isHelper(outermost(fn)) {
				home := homeFn(fn)
				if li := lift(in, home); li != nil {
					for _, m := range makes[home] {
						if m.f == fv && dominatesInstr(m.in, li) {
							c.ok(name, c.at(in), "made by "+shortFn(home)+" before the helper runs")
							return
						}
					}
				}
			}
			c.bad(name, c.at(in), "Msg."+fv.Name()+" is written here but is not made for every request (only "+fmt.Sprint(len(makes))+" function(s) make Msg maps, none on every path that reaches this write): for a request whose map was never made "+
				"the assignment panics (assignment to entry in nil map) on the event loop - e.g. the redirect handler recording the new connection of a single-key request when only the split commands allocate Fd2Slot")
		})
	}
	c.examined(sites)
}

// ---------------------------------------------------------------------------------------------
// C14.12

func ruleC14_12(c *Ctx) {
	p := c.P
	tk := c.needMethod(pkgCore, "eventloop", "ticker")
	addrs := p.Field(pkgCore, "Engine", "ProxyAddrs")
	pool := p.Field(pkgCore, "Engine", "ProxyPool")
	if tk == nil {
		return
	}
	if addrs == nil || pool == nil {
		c.undecided("Engine.ProxyAddrs / Engine.ProxyPool", "-", "fields not found")
		return
	}
	c.examined(len(tk.Blocks))
	isPoolMap := func(v ssa.Value) bool { _, ok := fieldLoad(v, pool); return ok }
	var rebuild, changes []ssa.Instruction
	origOf := map[ssa.Instruction]ssa.Instruction{} // place in ticker → the instruction itself (they differ inside a helper)
	rangesPools := false
	p.allInstrsDeep(tk, func(in ssa.Instruction) {
		li := lift(in, tk)
		if li == nil {
			return
		}
		if li != in {
			// several instructions of one helper share their call site: keep them apart
			li = in
		}
		origOf[li] = in
		switch x := in.(type) {
		case *ssa.Store:
			if fa, ok := x.Addr.(*ssa.FieldAddr); ok && fieldVar(fa.X.Type(), fa.Field) == addrs {
				rebuild = append(rebuild, li)
				// appended element: the key of a range over the pools
				var cands []ssa.Value
				if call, ok := x.Val.(*ssa.Call); ok {
					cands = append(cands, call.Call.Args...)
					if len(call.Call.Args) == 2 {
						cands = append(cands, varargElems(call.Call.Args[1])...)
					}
				}
				cands = append(cands, flowRoots(x.Val, nil)...)
				// the rebuild in a helper: `ProxyAddrs = poolAddrs(ProxyAddrs[:0], ProxyPool)`
				if call, ok := strip(x.Val).(*ssa.Call); ok {
					if h := call.Call.StaticCallee(); h != nil && p.isHelper(h) {
						withBinding(h, call.Call.Args, func() {
							allInstrs(h, func(hin ssa.Instruction) {
								if ex, ok := hin.(*ssa.Extract); ok && ex.Index == 1 {
									if nx, ok := ex.Tuple.(*ssa.Next); ok {
										if rg, ok := nx.Iter.(*ssa.Range); ok && isPoolMap(rg.X) {
											// … and the key reaches the returned slice
											for _, hr := range returnsReachable(h) {
												for _, root := range flowRoots(results(hr.(*ssa.Return))[0], nil) {
													if strip(root) == ssa.Value(ex) {
														rangesPools = true
													}
												}
												if call2, ok := strip(results(hr.(*ssa.Return))[0]).(*ssa.Phi); ok {
													for _, e := range call2.Edges {
														if ap, ok := e.(*ssa.Call); ok && len(ap.Call.Args) == 2 {
															for _, el := range varargElems(ap.Call.Args[1]) {
																if strip(el) == ssa.Value(ex) {
																	rangesPools = true
																}
															}
														}
													}
												}
											}
										}
									}
								}
							})
						})
					}
				}
				for _, r := range cands {
					if ex, ok := strip(r).(*ssa.Extract); ok {
						if nx, ok := ex.Tuple.(*ssa.Next); ok {
							if rg, ok := nx.Iter.(*ssa.Range); ok && isPoolMap(rg.X) && ex.Index == 1 {
								rangesPools = true
							}
						}
					}
				}
			}
		case *ssa.MapUpdate:
			if isPoolMap(x.Map) {
				changes = append(changes, li)
			}
		case *ssa.Call:
			if b, ok := x.Call.Value.(*ssa.Builtin); ok && b.Name() == "delete" && len(x.Call.Args) == 2 && isPoolMap(x.Call.Args[0]) {
				changes = append(changes, li)
			}
		}
	})
	if len(rebuild) == 0 || !rangesPools {
		c.bad("eventloop.ticker: probe targets rebuilt from the pools", p.pos(tk.Pos()), fmt.Sprintf("(%d stores to ProxyAddrs, keys of the pools appended: %v) ", len(rebuild), rangesPools)+"no rebuild of Engine.ProxyAddrs from the keys of Engine.ProxyPool found: after a topology change the probe keeps asking the old set of nodes")
		return
	}
	if len(changes) < 2 {
		c.undecided("eventloop.ticker: pool changes", p.pos(tk.Pos()), fmt.Sprintf("%d changes of Engine.ProxyPool found (removal of departed nodes and addition of new ones expected)", len(changes)))
		return
	}
	for _, m := range changes {
		after, reaches := false, false
		for _, a := range rebuild {
			// compared where both are: in one function directly, otherwise at their places in ticker
			x, y := a, m
			if outermost(a.Parent()) != outermost(m.Parent()) {
				x, y = lift(a, tk), lift(m, tk)
				if x == nil || y == nil || x == y {
					after = true // cannot be ordered: reported
					continue
				}
			}
			if canReach(x, y) {
				after = true
			}
			if canReach(y, x) {
				reaches = true
			}
		}
		kind := "removal"
		if _, isUpd := m.(*ssa.MapUpdate); isUpd {
			kind = "addition"
		} else if call, isCall := m.(*ssa.Call); isCall {
			if _, isB := call.Call.Value.(*ssa.Builtin); !isB {
				kind = "change in " + staticCalleeName(&call.Call)
			}
		}
		c.check(!after && reaches, "eventloop.ticker: pool "+kind+" precedes the rebuild of the probe targets", c.at(m), "ProxyAddrs rebuilt afterwards, not before",
			"Engine.ProxyPool is changed after (or without) the rebuild of Engine.ProxyAddrs: the list the topology probe picks its target from lags one topology change behind - started with one seed it holds only the seed, and when that node dies every probe goes to the dead address and the routing table never converges again")
	}
}

// ---------------------------------------------------------------------------------------------
// C04.10

// reachesBranch: v (or something computed from it by comparisons, conversions, phis, boolean operators) is the
// condition of an If or the tag of a switch lowered to Ifs.
func reachesBranch(v ssa.Value, seen map[ssa.Value]bool) ssa.Instruction {
	if seen[v] {
		return nil
	}
	seen[v] = true
	refs := v.Referrers()
	if refs == nil {
		return nil
	}
	for _, r := range *refs {
		switch x := r.(type) {
		case *ssa.If:
			return x
		case *ssa.BinOp:
			if at := reachesBranch(x, seen); at != nil {
				return at
			}
		case *ssa.UnOp:
			if x.Op == token.NOT {
				if at := reachesBranch(x, seen); at != nil {
					return at
				}
			}
		case *ssa.Phi:
			if at := reachesBranch(x, seen); at != nil {
				return at
			}
		case *ssa.Convert:
			if at := reachesBranch(x, seen); at != nil {
				return at
			}
		case *ssa.ChangeType:
			if at := reachesBranch(x, seen); at != nil {
				return at
			}
		}
	}
	return nil
}

func ruleC04_10(c *Ctx) {
	p := c.P
	statusF := p.Field(pkgCore, "conn", "initStatus")
	acc := p.Method(pkgCore, "conn", "InitializeStatus")
	sread := c.needMethod(pkgCore, "conn", "sread")
	initDec := p.Method(pkgCore, "SRespCodec", "InitializingDecode")
	if sread == nil {
		return
	}
	if statusF == nil || acc == nil || initDec == nil {
		c.undecided("conn.initStatus / InitializeStatus / InitializingDecode", "-", "not found")
		return
	}
	reads, allowed := 0, 0
	for _, fn := range p.Funcs {
		if fn.Blocks == nil || fn.Synthetic != "" || !p.ownFunc(fn) || fn == acc {
			continue
		}
		allInstrs(fn, func(in ssa.Instruction) {
			v, ok := in.(ssa.Value)
			if !ok {
				return
			}
			isRead := false
			switch x := in.(type) {
			case *ssa.UnOp:
				if _, is := fieldLoad(x, statusF); is && x.Op == token.MUL {
					isRead = true
				}
			case *ssa.Call:
				if x.Call.IsInvoke() {
					isRead = x.Call.Method.Name() == "InitializeStatus"
				} else if callee := x.Call.StaticCallee(); callee != nil {
					isRead = p.declared(callee) == p.declared(acc)
				}
			}
			if !isRead {
				return
			}
			reads++
			br := reachesBranch(v, map[ssa.Value]bool{})
			if br == nil {
				return // logged or passed on, decides nothing here
			}
			c.touch(fn)
			if homeFn(fn) == sread {
				// the one allowed decision: its Initializing edge runs InitializingDecode
				okSel := false
				for _, call := range p.callsIn(fn, initDec) {
					for _, g := range guardsOf(call) {
						if g.If == br {
							okSel = true
						}
					}
				}
				if okSel {
					allowed++
					c.ok("conn.sread: handshake state selects the decoder", c.at(br), "the branch on InitializeStatus() guards InitializingDecode")
					return
				}
			}
			c.bad("branch on the handshake state in "+shortFn(fn), c.at(br), "a decision outside conn.sread's decoder selection depends on the connection's handshake state: requests written, queued, given a deadline or a handshake sent differently while AUTH/READONLY is unanswered "+
				"(a request parked until the handshake completes has no deadline and is never answered when the node stalls; a status test in OnSOpened skips READONLY or leaves its +OK to the first client)")
		})
	}
	c.examined(reads)
	if allowed == 0 {
		c.bad("conn.sread: handshake state selects the decoder", p.pos(sread.Pos()), "no branch on InitializeStatus() guarding InitializingDecode found in conn.sread: the handshake replies are handed to clients")
	}
}

// ---------------------------------------------------------------------------------------------
// C17.9

func ruleC17_9(c *Ctx) {
	p := c.P
	dec := c.needMethod(pkgCore, "CRespCodec", "Decode")
	typeF := p.Field(pkgCore, "Msg", "Type")
	if dec == nil {
		return
	}
	if typeF == nil {
		c.undecided("Msg.Type", "-", "field not found")
		return
	}
	type st struct {
		at    ssa.Instruction // place in Decode (the store or the call that leads to it)
		orig  ssa.Instruction
		konst bool
	}
	var stores []st
	var visit func(fn *ssa.Function, site ssa.Instruction, depth int)
	visit = func(fn *ssa.Function, site ssa.Instruction, depth int) {
		allInstrs(fn, func(in ssa.Instruction) {
			at := site
			if at == nil {
				at = in
			}
			switch x := in.(type) {
			case *ssa.Store:
				if fa, ok := x.Addr.(*ssa.FieldAddr); ok && fieldVar(fa.X.Type(), fa.Field) == typeF {
					_, k := x.Val.(*ssa.Const)
					if k && isZero(x.Val) {
						return // a reset to the zero value is not a verdict
					}
					stores = append(stores, st{at, in, k})
				}
			case *ssa.Call:
				callee := x.Call.StaticCallee()
				if callee == nil || callee.Blocks == nil || depth >= 2 || !p.ownFunc(callee) || skipPkg(callee) {
					return
				}
				visit(callee, at, depth+1)
			}
		})
	}
	visit(dec, nil, 0)
	c.examined(len(stores))
	nClass := 0
	for _, cl := range stores {
		if cl.konst {
			continue
		}
		nClass++
		var over ssa.Instruction
		for _, rj := range stores {
			if rj.konst && rj.at != cl.at && canReach(rj.at, cl.at) {
				over = rj.orig
			}
			if rj.konst && rj.at == cl.at && rj.orig.Parent() == cl.orig.Parent() && canReach(rj.orig, cl.orig) {
				over = rj.orig
			}
		}
		why := ""
		if over != nil {
			why = "the classification is stored into Msg.Type after the rejection recorded at " + c.at(over) + " (e.g. EVAL with too few arguments: Eval stores ReqWrongArgumentsNumber, the later `resp.Type = cmd` turns the request back into an EVAL that is forwarded with an empty routing key)"
		}
		c.check(over == nil, "CRespCodec.Decode: classification stored before any rejection", c.at(cl.orig), "no rejection constant is stored on a way that leads here", why)
	}
	nRej := 0
	for _, s := range stores {
		if s.konst {
			nRej++
		}
	}
	if nClass == 0 || nRej == 0 {
		c.undecided("CRespCodec.Decode: stores to Msg.Type", p.pos(dec.Pos()), fmt.Sprintf("%d classification and %d rejection stores found", nClass, nRej))
	} else {
		c.ok("CRespCodec.Decode: stores to Msg.Type", p.pos(dec.Pos()), fmt.Sprintf("%d classification and %d rejection stores", nClass, nRej))
	}
}

// ---------------------------------------------------------------------------------------------
// C18.6

// knownLen: the length of a slice value when it follows from types or from a literal initialiser, else -1.
func (p *Prog) knownLen(v ssa.Value) int64 {
	v = strip(v)
	switch x := v.(type) {
	case *ssa.Slice:
		if x.Low == nil && x.High == nil {
			if pt, ok := x.X.Type().Underlying().(*types.Pointer); ok {
				if at, ok := pt.Elem().Underlying().(*types.Array); ok {
					return at.Len()
				}
			}
		}
		lo, hi := int64(0), int64(-1)
		if x.Low != nil {
			k, ok := constInt(x.Low)
			if !ok {
				return -1
			}
			lo = k
		}
		if x.High != nil {
			k, ok := constInt(x.High)
			if !ok {
				return -1
			}
			hi = k
		} else if pt, ok := x.X.Type().Underlying().(*types.Pointer); ok {
			if at, ok := pt.Elem().Underlying().(*types.Array); ok {
				hi = at.Len()
			}
		}
		if hi >= lo {
			return hi - lo
		}
	case *ssa.UnOp:
		if g, ok := x.X.(*ssa.Global); ok && x.Op == token.MUL && !p.globalAddressEscapes(g) {
			n, stores := int64(-1), 0
			for _, fn := range p.Funcs {
				allInstrs(fn, func(in ssa.Instruction) {
					if st, ok := in.(*ssa.Store); ok && st.Addr == ssa.Value(g) {
						stores++
						if fn.Name() == "init" {
							n = p.knownLen(st.Val)
						}
					}
				})
			}
			if stores == 1 {
				return n
			}
		}
	}
	return -1
}

func ruleC18_6(c *Ctx) {
	p := c.P
	get := p.Func("rcproxy/core/pkg/pool/byteslice.Get")
	if get == nil {
		c.undecided("byteslice.Get", "-", "function not found")
		return
	}
	n := 0
	for _, s := range p.SitesOf(get) {
		if s.Call == nil || s.Fn.Synthetic != "" || len(s.Call.Args) != 1 {
			continue
		}
		size, isK := constInt(s.Call.Args[0])
		if !isK {
			continue // sized by the data that is copied in: see C02.6 / C19
		}
		buf, ok := s.Instr.(ssa.Value)
		if !ok {
			continue
		}
		// only slices handed out as they are (returned whole): scratch buffers that are filled and then read up to a
		// cursor (int2decimal, ReadFrom) are not addresses
		returned := false
		for _, r := range returnsReachable(s.Fn) {
			for _, rv := range results(r.(*ssa.Return)) {
				if strip(rv) == buf {
					returned = true
				}
			}
		}
		if !returned {
			continue
		}
		n++
		c.touch(s.Fn)
		covered := make([]bool, size)
		unknown := ""
		var mark func(v ssa.Value, off int64)
		mark = func(v ssa.Value, off int64) {
			refs := v.Referrers()
			if refs == nil {
				return
			}
			for _, r := range *refs {
				switch x := r.(type) {
				case *ssa.Slice:
					if x.X != v {
						continue
					}
					lo := int64(0)
					if x.Low != nil {
						k, ok := constInt(x.Low)
						if !ok {
							continue
						}
						lo = k
					}
					hi := size - off
					if x.High != nil {
						k, ok := constInt(x.High)
						if !ok {
							continue
						}
						hi = k
					}
					// writes through the sub-slice
					sub := ssa.Value(x)
					if srefs := sub.Referrers(); srefs != nil {
						for _, sr := range *srefs {
							if call, ok := sr.(*ssa.Call); ok {
								if b, ok := call.Call.Value.(*ssa.Builtin); ok && b.Name() == "copy" && call.Call.Args[0] == sub {
									srcLen := p.knownLen(call.Call.Args[1])
									if srcLen < 0 {
										unknown = "the length of " + expr(call.Call.Args[1]) + " is not known"
										continue
									}
									for i := lo; i < hi && i < lo+srcLen; i++ {
										if off+i < size {
											covered[off+i] = true
										}
									}
								}
							}
						}
					}
				case *ssa.Call:
					if b, ok := x.Call.Value.(*ssa.Builtin); ok && b.Name() == "copy" && x.Call.Args[0] == v {
						srcLen := p.knownLen(x.Call.Args[1])
						if srcLen < 0 {
							unknown = "the length of " + expr(x.Call.Args[1]) + " is not known"
							continue
						}
						for i := int64(0); i < srcLen && off+i < size; i++ {
							covered[off+i] = true
						}
					}
				case *ssa.IndexAddr:
					if x.X != v {
						continue
					}
					if k, ok := constInt(x.Index); ok && off+k < size {
						for _, rr := range *x.Referrers() {
							if st, ok := rr.(*ssa.Store); ok && st.Addr == ssa.Value(x) {
								covered[off+k] = true
							}
						}
					}
				}
			}
		}
		mark(buf, 0)
		var missing []string
		for i, ok := range covered {
			if !ok {
				missing = append(missing, fmt.Sprint(i))
			}
		}
		why := fmt.Sprintf("bytes %s of the %d-byte pooled slice are not written before it is used", strings.Join(missing, ","), size)
		if unknown != "" {
			why += " (" + unknown + ")"
		}
		c.check(len(missing) == 0, "pooled "+fmt.Sprint(size)+"-byte slice fully written in "+shortFn(s.Fn), c.at(s.Instr), "every byte written by constant-range copies / element stores",
			why+": byteslice.Get returns recycled, non-zeroed memory (the same size class holds reply chunks of a slow reader's backlog), so the remote address of the next IPv4 client is garbage and the whitelist refuses a listed address or admits an unlisted one")
	}
	c.examined(n)
}

// ---------------------------------------------------------------------------------------------
// C20.4

// masterOnlyReads: read-only commands that are deliberately kept above the marker, one reason each.
var masterOnlyReads = map[string]string{
	"pfcount": "PFCOUNT updates the cached cardinality inside the key; Redis flags it may-replicate, a replica would answer it but rcproxy (like twemproxy) sends it where the write lands",
}

func ruleC20_4(c *Ctx) {
	p := c.P
	marker, ok := p.ConstInt(pkgCodec, "ReqWriteCmdStart")
	rows, ok2 := p.mapLiteral(pkgCodec, "CommandStr2Type")
	if !ok || !ok2 {
		c.undecided("codec.CommandStr2Type / ReqWriteCmdStart", "-", "table or marker constant not found or not a constant map literal")
		return
	}
	c.examined(len(rows))
	for _, r := range rows {
		name := strings.ToLower(constant.StringVal(r.Key))
		v, _ := constant.Int64Val(constant.ToInt(r.Val))
		if !readonlyCommands[name] {
			continue
		}
		if why, exc := masterOnlyReads[name]; exc {
			c.ok("read command "+name+" (master only by design)", p.pos(r.Pos), why)
			continue
		}
		c.check(v < marker, "read command "+name+" is replica-eligible", p.pos(r.Pos), "constant below ReqWriteCmdStart",
			fmt.Sprintf("command %q is read-only in the Redis command table but its constant %d is not below ReqWriteCmdStart (%d): route() treats it as a write, every such read goes to the master and no healthy replica ever serves one, however long the run", name, v, marker))
	}
}

// ---------------------------------------------------------------------------------------------
// C09.8

func ruleC09_8(c *Ctx) {
	p := c.P
	bufF := p.Field(pkgCore, "conn", "buffer")
	if bufF == nil {
		c.undecided("conn.buffer", "-", "field not found")
		return
	}
	for _, m := range []string{"Peek", "Next"} {
		fn := c.needMethod(pkgCore, "conn", m)
		if fn == nil {
			continue
		}
		c.examined(len(fn.Blocks))
		nret := 0
		// views(g, isN): the returns of g (result #0), with isN telling which values of g depend on the n asked for; a
		// return that hands on a helper's result is judged by the helper's returns (its parameters that receive
		// n-dependent arguments are its n)
		var views func(g *ssa.Function, isN map[ssa.Value]bool, depth int)
		views = func(g *ssa.Function, isN map[ssa.Value]bool, depth int) {
			var depN func(v ssa.Value, isN map[ssa.Value]bool, d int) bool
			depN = func(v ssa.Value, isN map[ssa.Value]bool, d int) bool {
				if v == nil || d > 6 {
					return false
				}
				if isN[v] {
					return true // (before strip: a helper's parameter may be bound to another caller's argument)
				}
				v = strip(v)
				if isN[v] {
					return true
				}
				switch x := v.(type) {
				case *ssa.Extract:
					// n normalised by a helper that returns several values (`inBufferLen, n, err := c.clampToReadable(n)`):
					// the component depends on n if some return of the helper puts an n-dependent value there
					if call, ok := x.Tuple.(*ssa.Call); ok {
						if h := call.Call.StaticCallee(); h != nil && p.isHelper(h) && h.Blocks != nil {
							sub := map[ssa.Value]bool{}
							for i, a := range call.Call.Args {
								if i < len(h.Params) && depN(a, isN, d+1) {
									sub[h.Params[i]] = true
								}
							}
							for _, hr := range returnsReachable(h) {
								rs := results(hr.(*ssa.Return))
								if x.Index < len(rs) && depN(rs[x.Index], sub, d+1) {
									return true
								}
							}
							return false
						}
					}
				case *ssa.Phi:
					for _, e := range x.Edges {
						if depN(e, isN, d+1) {
							return true
						}
					}
					return false
				case *ssa.BinOp:
					return depN(x.X, isN, d+1) || depN(x.Y, isN, d+1)
				}
				for _, r := range flowRoots(v, nil) {
					if isN[r] {
						return true
					}
				}
				return false
			}
			dependsOnN := func(v ssa.Value) bool { return depN(v, isN, 0) }
			// writes of the current read into the cache: cache.Write(c.buffer[...])
			var curWrites []ssa.Instruction
			allInstrs(g, func(in ssa.Instruction) {
				call, ok := in.(*ssa.Call)
				if !ok || call.Call.IsInvoke() || len(call.Call.Args) != 2 {
					return
				}
				if callee := call.Call.StaticCallee(); callee == nil || callee.Name() != "Write" {
					return
				}
				if sl, ok := strip(call.Call.Args[1]).(*ssa.Slice); ok {
					if _, is := fieldLoad(sl.X, bufF); is {
						curWrites = append(curWrites, in)
					}
				}
			})
			// the leftover alone has n bytes: n <= X, X >= n, n - X <= 0 (X independent of n)
			suffices := func(g Guard) bool {
				x, op, y, ok := cmpGuard(g)
				if !ok {
					return false
				}
				if op == token.GEQ && dependsOnN(y) && !dependsOnN(x) || op == token.LEQ && dependsOnN(x) && !dependsOnN(y) {
					return true
				}
				if bo, isB := strip(x).(*ssa.BinOp); isB && bo.Op == token.SUB && dependsOnN(bo.X) && !dependsOnN(bo.Y) && isZero(y) && op == token.LEQ {
					return true
				}
				return false
			}
			for _, r := range returnsReachable(g) {
				rs := results(r.(*ssa.Return))
				if len(rs) == 0 || isNilConst(rs[0]) {
					continue
				}
				if _, isSlice := rs[0].Type().Underlying().(*types.Slice); !isSlice {
					continue
				}
				v := strip(rs[0])
				if call, ok := v.(*ssa.Call); ok && depth < 2 {
					if h := call.Call.StaticCallee(); h != nil && p.isHelper(h) && h.Blocks != nil {
						sub := map[ssa.Value]bool{}
						for i, a := range call.Call.Args {
							if i < len(h.Params) && dependsOnN(a) {
								sub[h.Params[i]] = true
							}
						}
						c.touch(h)
						views(h, sub, depth+1)
						continue
					}
				}
				nret++
				name := fmt.Sprintf("conn.%s: returned view #%d", m, nret)
				switch x := v.(type) {
				case *ssa.Slice:
					c.check(x.High != nil && dependsOnN(x.High), name, c.at(r), "cut to the n bytes asked for",
						"the returned view "+expr(v)+" is not cut to n: the decoder is given more or fewer bytes than it asked for")
				case *ssa.Call:
					callee := x.Call.StaticCallee()
					if callee == nil || callee.Name() != "Bytes" {
						c.bad(name, c.at(r), "the returned view "+expr(v)+" is neither a slice cut to n nor the filled cache")
						continue
					}
					// the leftover alone suffices, or the current read was appended - on every way into the return
					covered := func(b *ssa.BasicBlock, extra []Guard) bool {
						if guardHas(append(guardsAt(b), extra...), suffices) {
							return true
						}
						for _, w := range curWrites {
							if w.Block() == b || w.Block().Dominates(b) {
								return true
							}
						}
						return false
					}
					okV := covered(r.Block(), nil)
					if !okV && len(r.Block().Preds) > 1 {
						okV = true
						for _, pr := range r.Block().Preds {
							var extra []Guard
							if f, ok := edgeFact(pr, r.Block()); ok {
								extra = append(extra, f)
							}
							if !covered(pr, extra) {
								okV = false
							}
						}
					}
					c.check(okV, name, c.at(r), "cache = leftover (+ head of the current read unless the leftover has n bytes)",
						"the cache is returned without the bytes of the current read although the leftover alone may be shorter than n", withGuards(guardsAt(r.Block())))
				default:
					c.bad(name, c.at(r), "the returned view "+expr(v)+" is not cut to the n bytes asked for (n <= 0 means everything pending: leftover plus the current read): e.g. `if len(tail) == 0 { return head }` hands the decoder the leftover only, "+
						"a reply whose last bytes have just arrived still looks incomplete and is delivered one read event late - when nothing else arrives from that backend, never")
				}
			}
		}
		views(fn, map[ssa.Value]bool{fn.Params[1]: true}, 0)
		if nret < 2 {
			c.undecided("conn."+m+": returned views", p.pos(fn.Pos()), fmt.Sprintf("%d found", nret))
		}
	}
}

// ---------------------------------------------------------------------------------------------
// C08.8

func ruleC08_8(c *Ctx) {
	p := c.P
	allowed := map[*ssa.Function]string{}
	for _, spec := range [][3]string{
		{"CRespCodec", "Decode", "a complete request is consumed once it has been turned into a Msg"},
		{"SRespCodec", "Decode", "a complete reply is consumed once it has been copied into its fragment"},
		{"SRespCodec", "InitializingDecode", "the handshake replies are consumed by the proxy itself"},
	} {
		if fn := c.needMethod(pkgCore, spec[0], spec[1]); fn != nil {
			for _, g := range p.family(fn) {
				allowed[g] = spec[2]
			}
		}
	}
	connT := p.Named(pkgCore, "conn")
	isConnRecv := func(cc *ssa.CallCommon) (string, bool) {
		if cc.IsInvoke() {
			n, ok := cc.Value.Type().(*types.Named)
			if !ok || n.Obj().Pkg() == nil || n.Obj().Pkg().Path() != pkgCore {
				return "", false
			}
			switch n.Obj().Name() {
			case "CConn", "SConn", "Conn":
				return cc.Method.Name(), true
			}
			return "", false
		}
		callee := cc.StaticCallee()
		if callee == nil || connT == nil {
			return "", false
		}
		if rn := recvNamed(callee); rn != nil && types.Identical(rn, connT) {
			return callee.Name(), true
		}
		return "", false
	}
	n := 0
	for _, fn := range p.Funcs {
		if fn.Blocks == nil || fn.Synthetic != "" || !p.ownFunc(fn) {
			continue
		}
		allInstrs(fn, func(in ssa.Instruction) {
			ci, ok := in.(ssa.CallInstruction)
			if !ok {
				return
			}
			name, is := isConnRecv(ci.Common())
			if !is || (name != "Next" && name != "Discard") {
				return
			}
			n++
			c.touch(fn)
			why, okF := allowed[outermost(fn)]
			c.check(okF, "connection input consumed ("+name+") in "+shortFn(fn), c.at(in), why,
				name+" on a connection is called outside the decoders: the bytes it removes belong to a request or reply that is still arriving (a trace line that fetches the first 16 bytes of a pending request with Next instead of Peek eats them - the request is never recognised and everything pipelined behind it is lost)")
		})
	}
	c.examined(n)
}

// ---------------------------------------------------------------------------------------------
// C19.9

func ruleC19_9(c *Ctx) {
	p := c.P
	const pkgLL = "rcproxy/core/pkg/buffer/linkedlist"
	pop := p.Method(pkgLL, "Buffer", "pop")
	if pop == nil {
		c.undecided("linkedlist.Buffer.pop", "-", "method not found")
		return
	}
	n := 0
	for _, s := range p.SitesOf(pop) {
		if s.Fn.Synthetic != "" || s.Call == nil {
			continue
		}
		popCall, ok := s.Instr.(*ssa.Call)
		if !ok {
			continue
		}
		n++
		c.touch(s.Fn)
		alias := map[ssa.Value]bool{popCall: true}
		for changed := true; changed; {
			changed = false
			allInstrs(s.Fn, func(in ssa.Instruction) {
				if ph, ok := in.(*ssa.Phi); ok && !alias[ph] {
					for _, e := range ph.Edges {
						if alias[e] {
							alias[ph] = true
							changed = true
						}
					}
				}
			})
		}
		isNilTest := func(in ssa.Instruction) (ssa.Value, bool) {
			bo, ok := in.(*ssa.BinOp)
			if !ok || (bo.Op != token.EQL && bo.Op != token.NEQ) {
				return nil, false
			}
			if alias[bo.X] && isNilConst(bo.Y) {
				return bo, true
			}
			return nil, false
		}
		isUse := func(in ssa.Instruction) bool {
			if _, ok := in.(*ssa.Phi); ok {
				return false
			}
			if _, ok := isNilTest(in); ok {
				return false
			}
			for _, op := range in.Operands(nil) {
				if op != nil && *op != nil && alias[*op] {
					return true
				}
			}
			return false
		}
		var lost ssa.Instruction
		seen := map[*ssa.BasicBlock]bool{}
		var walk func(b *ssa.BasicBlock, from int)
		walk = func(b *ssa.BasicBlock, from int) {
			if lost != nil {
				return
			}
			for i := from; i < len(b.Instrs); i++ {
				in := b.Instrs[i]
				if isUse(in) {
					return
				}
				if call, ok := in.(*ssa.Call); ok && call.Call.StaticCallee() == pop {
					lost = in
					return
				}
				if _, ok := in.(*ssa.Return); ok {
					lost = in
					return
				}
				if ifi, ok := in.(*ssa.If); ok {
					// on the edge where the node is nil there is nothing to account for
					if bo, ok := ifi.Cond.(*ssa.BinOp); ok {
						if _, is := isNilTest(bo); is {
							nonNil := b.Succs[0]
							if bo.Op == token.EQL {
								nonNil = b.Succs[1]
							}
							if !seen[nonNil] {
								seen[nonNil] = true
								walk(nonNil, 0)
							}
							return
						}
					}
				}
			}
			for _, sx := range b.Succs {
				if !seen[sx] {
					seen[sx] = true
					walk(sx, 0)
				}
			}
		}
		idx := 0
		for i, in := range popCall.Block().Instrs {
			if in == ssa.Instruction(popCall) {
				idx = i + 1
			}
		}
		walk(popCall.Block(), idx)
		why := ""
		if lost != nil {
			why = "a node taken off the list by this pop() can reach " + c.at(lost) + " without having been used: it is neither consumed nor pushed back, its bytes vanish from the stream while Buffered() stays self-consistent " +
				"(e.g. `for b := pop(); b != nil && n > 0; b = pop()` pops the next node in the post statement and then leaves on n == 0: a discard that ends exactly on a node boundary drops the following reply)"
		}
		c.check(lost == nil, fmt.Sprintf("popped node accounted for in %s (pop #%d)", shortFn(s.Fn), n), c.at(popCall), "every path uses the node before returning or popping again", why)
	}
	c.examined(n)
}

// ---------------------------------------------------------------------------------------------
// C16.7

func ruleC16_7(c *Ctx) {
	p := c.P
	mt := c.needMethod(pkgCore, "eventloop", "msgTimeout")
	doneF := p.Field(pkgCore, "Frag", "Done")
	bodyF := p.Field(pkgCore, "Msg", "Body")
	if mt == nil {
		return
	}
	if doneF == nil || bodyF == nil {
		c.undecided("Frag.Done / Msg.Body", "-", "fields not found")
		return
	}
	c.examined(len(mt.Blocks))
	var good ssa.Instruction
	var seenStores []ssa.Instruction
	p.allInstrsDeep(mt, func(in ssa.Instruction) {
		st, ok := in.(*ssa.Store)
		if !ok {
			return
		}
		fa, ok := st.Addr.(*ssa.FieldAddr)
		if !ok || fieldVar(fa.X.Type(), fa.Field) != doneF {
			return
		}
		if k, isK := st.Val.(*ssa.Const); !isK || k.Value == nil || k.Value.String() != "true" {
			return
		}
		seenStores = append(seenStores, in)
		ex, ok := strip(fa.X).(*ssa.Extract)
		if !ok || ex.Index != 2 {
			return
		}
		nx, ok := ex.Tuple.(*ssa.Next)
		if !ok {
			return
		}
		rg, ok := nx.Iter.(*ssa.Range)
		if !ok {
			return
		}
		if _, is := fieldLoad(rg.X, bodyF); !is {
			return
		}
		// inside the loop nothing but the element's own Done flag decides
		l := innermostLoop(loopsOf(st.Parent()), st.Block())
		if l == nil {
			return
		}
		clean := true
		for _, g := range guardsAtRaw(st.Block()) {
			if g.If == nil || !l.Blocks[g.If.Block()] || g.If.Block() == l.Header {
				continue
			}
			if base, is := fieldLoad(g.Cond, doneF); is && strip(base) == ssa.Value(ex) {
				continue
			}
			clean = false
		}
		if clean {
			good = in
		}
	})
	if good != nil {
		c.ok("msgTimeout: every fragment of the request is finished", c.at(good), "for v in msg.Body: v.Done = true (skipping only those already Done)")
		return
	}
	at := p.pos(mt.Pos())
	if len(seenStores) > 0 {
		at = c.at(seenStores[0])
	}
	c.bad("msgTimeout: every fragment of the request is finished", at, "no loop over Msg.Body that marks each fragment Done was found: fragments found through another table (Msg.Frags is filled for MGET/DEL only, Msg.Frags2 for MSET only) are missed for the other command families - "+
		"each remaining sibling of a timed-out split MSET fires its own timeout, the client receives several timeout errors for one request and the replies behind it are shifted")
}

// ---------------------------------------------------------------------------------------------
// C01.8

func ruleC01_8(c *Ctx) {
	p := c.P
	nb := p.Func(pkgCodec + ".NewBuffer")
	if nb == nil {
		c.undecided("codec.NewBuffer", "-", "function not found")
		return
	}
	// functions that re-initialise the shared buffer, directly or through what they call or create
	reinit := map[*ssa.Function]bool{nb: true}
	for changed := true; changed; {
		changed = false
		for _, fn := range p.Funcs {
			if reinit[fn] || fn.Blocks == nil {
				continue
			}
			allInstrs(fn, func(in ssa.Instruction) {
				if reinit[fn] {
					return
				}
				switch x := in.(type) {
				case ssa.CallInstruction:
					if callee := x.Common().StaticCallee(); callee != nil && reinit[callee] {
						reinit[fn] = true
						changed = true
					}
				case *ssa.MakeClosure:
					if g, ok := x.Fn.(*ssa.Function); ok && reinit[g] {
						reinit[fn] = true
						changed = true
					}
				}
			})
		}
	}
	n := 0
	for _, s := range p.SitesOf(nb) {
		if s.Fn.Synthetic != "" || s.Call == nil {
			continue
		}
		buf, ok := s.Instr.(ssa.Value)
		if !ok {
			continue
		}
		n++
		c.touch(s.Fn)
		// uses of the buffer in this function (method calls on it, passing it on)
		var uses []ssa.Instruction
		if refs := buf.Referrers(); refs != nil {
			for _, r := range *refs {
				if _, isDbg := r.(*ssa.DebugRef); !isDbg {
					uses = append(uses, r)
				}
			}
		}
		var clash ssa.Instruction
		allInstrs(s.Fn, func(in ssa.Instruction) {
			if in == s.Instr || clash != nil {
				return
			}
			hit := false
			switch x := in.(type) {
			case ssa.CallInstruction:
				if callee := x.Common().StaticCallee(); callee != nil && reinit[callee] {
					// passing the buffer itself on is a use, not a competing user
					for _, a := range x.Common().Args {
						if a == buf {
							return
						}
					}
					hit = true
				}
			case *ssa.MakeClosure:
				if g, ok := x.Fn.(*ssa.Function); ok && reinit[g] {
					hit = true
				}
			}
			if !hit || !canReach(s.Instr, in) {
				return
			}
			for _, u := range uses {
				if u != in && canReach(in, u) {
					clash = in
				}
			}
		})
		why := ""
		if clash != nil {
			why = "while " + shortFn(s.Fn) + " still uses the buffer it got from codec.NewBuffer, " + c.at(clash) + " runs code that calls codec.NewBuffer again: the single package-level buffer is re-pointed and rewound under the decoder " +
				"(a log helper that walks the reply with NewBuffer/ReadLine leaves ReadSize() short, Discard removes too few bytes and the rest of the reply is decoded as the answers to the next requests on that connection)"
		}
		c.check(clash == nil, "shared decode buffer not re-initialised under "+shortFn(s.Fn)+fmt.Sprintf(" (#%d)", n), c.at(s.Instr), "nothing called between NewBuffer and its last use calls NewBuffer", why)
	}
	c.examined(n)
}

// ---------------------------------------------------------------------------------------------
// C11.10

func ruleC11_10(c *Ctx) {
	p := c.P
	sread := c.needMethod(pkgCore, "eventloop", "sread")
	typeF := p.Field(pkgCore, "Frag", "Type")
	if sread == nil {
		return
	}
	if typeF == nil {
		c.undecided("Frag.Type", "-", "field not found")
		return
	}
	c.examined(len(sread.Blocks))
	isShutdownReturn := func(b *ssa.BasicBlock) bool {
		for i := 0; i < 4 && b != nil; i++ {
			last := b.Instrs[len(b.Instrs)-1]
			if r, ok := last.(*ssa.Return); ok {
				for _, rv := range results(r) {
					if ld, ok := rv.(*ssa.UnOp); ok {
						if g, ok := ld.X.(*ssa.Global); ok && g.Name() == "ErrEngineShutdown" {
							return true
						}
					}
				}
				return false
			}
			if _, ok := last.(*ssa.Jump); ok && len(b.Succs) == 1 {
				b = b.Succs[0]
				continue
			}
			return false
		}
		return false
	}
	for _, name := range []string{"RspNeedAuth", "RspNeedNtAuth", "RspAuthFailed"} {
		k, ok := p.ConstInt(pkgCodec, name)
		if !ok {
			c.undecided("codec."+name, "-", "constant not found")
			continue
		}
		found := false
		var at ssa.Instruction
		p.allInstrsDeep(sread, func(in ssa.Instruction) {
			ifi, ok := in.(*ssa.If)
			if !ok {
				return
			}
			truth := true
			cond := stripNot(ifi.Cond, &truth)
			bo, ok := cond.(*ssa.BinOp)
			if !ok || (bo.Op != token.EQL && bo.Op != token.NEQ) {
				return
			}
			kv, isK := constInt(bo.Y)
			if _, isT := fieldLoad(bo.X, typeF); !isT || !isK || kv != k {
				return
			}
			if bo.Op == token.NEQ {
				truth = !truth
			}
			succ := ifi.Block().Succs[0]
			if !truth {
				succ = ifi.Block().Succs[1]
			}
			at = in
			if isShutdownReturn(succ) {
				found = true
				return
			}
			// the test in a predicate helper (`if isAuthFailure(r.Type) { … return ErrEngineShutdown }`): the helper's
			// answer on this edge, then the caller's edge for that answer
			h := in.Parent()
			if h == sread || !p.isHelper(h) || h.Signature.Results().Len() != 1 {
				return
			}
			var answer *bool
			for b, i := succ, 0; b != nil && i < 4; i++ {
				if r, ok := b.Instrs[len(b.Instrs)-1].(*ssa.Return); ok {
					if k, isK := results(r)[0].(*ssa.Const); isK && k.Value != nil {
						v := constBoolValue(k)
						answer = &v
					}
					break
				}
				if len(b.Succs) != 1 {
					break
				}
				b = b.Succs[0]
			}
			if answer == nil {
				return
			}
			for _, site := range p.helperSites(h) {
				cv, ok := site.Instr.(ssa.Value)
				if !ok {
					continue
				}
				for _, b := range site.Fn.Blocks {
					cif, ok := b.Instrs[len(b.Instrs)-1].(*ssa.If)
					if !ok {
						continue
					}
					ct := true
					if stripNot(cif.Cond, &ct) != cv {
						continue
					}
					edge := b.Succs[0]
					if ct != *answer {
						edge = b.Succs[1]
					}
					if isShutdownReturn(edge) {
						found = true
					}
				}
			}
		})
		pos := p.pos(sread.Pos())
		if at != nil {
			pos = c.at(at)
		}
		c.check(found, "eventloop.sread: "+name+" shuts the engine down", pos, "Type == "+name+" ⇒ return ErrEngineShutdown",
			"a reply classified as "+name+" does not stop the engine: the decoder has already taken the first waiting client fragment for this reply, so the node's answer to the proxy's own AUTH (e.g. -ERR Client sent AUTH, but no password is set) is delivered "+
				"to that client as the reply to its command, and the client's real reply is then swallowed as the handshake answer or shifts every later reply by one")
	}
}

package main

import (
	"fmt"
	"go/ast"
	"go/constant"
	"go/token"
	"strings"

	"golang.org/x/tools/go/ssa"
)

func init() {
	rule("C05.1", "E6", "hashkit.crc16tab is the CRC16/XMODEM table (poly 0x1021, MSB first, init 0)", 256, ruleC05_1)
	rule("C05.2", "E6+E8", "the slot is the CRC accumulator (starting at 0) reduced modulo RedisClusterSlots = 16384", 3, ruleC05_2)
	rule("C05.3", "E8+E4", "hash tag: '}' is searched after the first '{', the substring between them is hashed only when non-empty, otherwise the whole key", 4, ruleC05_3)
	rule("C05.4", "E8+E4", "the key that is hashed is the request's key argument at every call site (argument 0; argument 2 for EVAL/EVALSHA; every key of MGET/DEL; every first element of an MSET pair)", 5, ruleC05_4)
}

func ruleC05_1(c *Ctx) {
	p := c.P
	vs, idx, pk := p.VarDecl(pkgHash, "crc16tab")
	if vs == nil || idx >= len(vs.Values) {
		c.undecided("hashkit.crc16tab", "-", "table not found")
		return
	}
	cl, ok := vs.Values[idx].(*ast.CompositeLit)
	if !ok {
		c.undecided("hashkit.crc16tab", p.pos(vs.Pos()), "not a composite literal")
		return
	}
	var want [256]uint64
	for i := 0; i < 256; i++ {
		crc := uint64(i) << 8
		for b := 0; b < 8; b++ {
			if crc&0x8000 != 0 {
				crc = (crc << 1) ^ 0x1021
			} else {
				crc <<= 1
			}
			crc &= 0xffff
		}
		want[i] = crc
	}
	if len(cl.Elts) != 256 {
		c.bad("hashkit.crc16tab length", p.pos(cl.Pos()), fmt.Sprintf("the table has %d entries, not 256", len(cl.Elts)))
		return
	}
	for i, e := range cl.Elts {
		if _, isKV := e.(*ast.KeyValueExpr); isKV {
			c.undecided("hashkit.crc16tab", p.pos(e.Pos()), "keyed elements are not supported by the table evaluator")
			return
		}
		tv := pk.TypesInfo.Types[e]
		if tv.Value == nil {
			c.undecided(fmt.Sprintf("crc16tab[%d]", i), p.pos(e.Pos()), "entry is not a constant")
			continue
		}
		got, _ := constant.Uint64Val(constant.ToInt(tv.Value))
		c.check(got == want[i], fmt.Sprintf("crc16tab[%d]", i), p.pos(e.Pos()), fmt.Sprintf("0x%04x", got),
			fmt.Sprintf("entry %d is 0x%04x, CRC16/XMODEM requires 0x%04x: every key whose CRC computation visits this entry is mapped to a slot the cluster disagrees with", i, got, want[i]))
	}
}

func ruleC05_2(c *Ctx) {
	p := c.P
	n, ok := p.ConstInt(pkgConst, "RedisClusterSlots")
	if !ok {
		c.undecided("constant.RedisClusterSlots", "-", "not found")
		return
	}
	c.check(n == 16384, "constant.RedisClusterSlots", "-", "16384", fmt.Sprintf("RedisClusterSlots is %d, the cluster uses 16384 slots", n))
	h := c.need(pkgHash + ".hash")
	if h == nil {
		return
	}
	c.examined(len(h.Blocks))
	nret := 0
	allInstrs(h, func(in ssa.Instruction) {
		r, ok := in.(*ssa.Return)
		if !ok {
			return
		}
		nret++
		v := results(r)[0]
		if cv, ok := v.(*ssa.Convert); ok {
			v = cv.X
		}
		bo, ok := v.(*ssa.BinOp)
		okR := ok && bo.Op == token.REM
		var acc *ssa.Phi
		if okR {
			k, isK := constInt(bo.Y)
			okR = isK && k == n
			acc, _ = bo.X.(*ssa.Phi)
		}
		c.check(okR, "hash: result is accumulator % RedisClusterSlots", c.at(r), "crc % 16384", "hash does not return the accumulator modulo RedisClusterSlots: "+expr(results(r)[0]))
		if acc != nil {
			init0 := false
			for i, e := range acc.Edges {
				if !acc.Block().Preds[i].Dominates(acc.Block()) || true {
					if k, ok := constInt(e); ok && k == 0 {
						init0 = true
					}
				}
			}
			c.check(init0, "hash: accumulator starts at 0", c.at(r), "init 0", "the CRC accumulator does not start at 0 (CRC16/XMODEM has init 0)")
			// every byte of the key is consumed: the loop runs an index from 0 while < len(key) and reads key[index]
			okLoop := false
			allInstrs(h, func(in ssa.Instruction) {
				var coll, index ssa.Value
				switch lk := in.(type) {
				case *ssa.Lookup:
					coll, index = lk.X, lk.Index
				case *ssa.Index:
					coll, index = lk.X, lk.Index
				default:
					return
				}
				if strip(coll) == ssa.Value(h.Params[0]) {
					if ph, ok := index.(*ssa.Phi); ok {
						z, step := false, false
						for _, e := range ph.Edges {
							if k, ok := constInt(e); ok && k == 0 {
								z = true
							}
							if b, ok := e.(*ssa.BinOp); ok && b.Op == token.ADD && b.X == ssa.Value(ph) && isOne(b.Y) {
								step = true
							}
						}
						okLoop = z && step
					}
				}
			})
			c.check(okLoop, "hash: every byte of the key is consumed in order", p.pos(h.Pos()), "index runs 0,1,2,… over key", "the CRC loop does not read key[x] for x = 0,1,2,…")
		}
	})
	if nret == 0 {
		c.undecided("hash: return", p.pos(h.Pos()), "no return found")
	}
}

// isSearch matches strings.Index/IndexByte/IndexRune (and bytes.*) calls for a one-byte needle.
func isSearch(v ssa.Value) (hay ssa.Value, needle byte, ok bool) {
	call, isCall := v.(*ssa.Call)
	if !isCall || len(call.Call.Args) != 2 {
		return nil, 0, false
	}
	switch staticCalleeName(&call.Call) {
	case "strings.Index", "bytes.Index":
		if s, ok := constString(call.Call.Args[1]); ok && len(s) == 1 {
			return call.Call.Args[0], s[0], true
		}
	case "strings.IndexByte", "bytes.IndexByte", "strings.IndexRune", "bytes.IndexRune":
		if k, ok := constInt(call.Call.Args[1]); ok && k > 0 && k < 128 {
			return call.Call.Args[0], byte(k), true
		}
	}
	return nil, 0, false
}

func ruleC05_3(c *Ctx) {
	p := c.P
	H := c.need(pkgHash + ".Hash")
	h := c.need(pkgHash + ".hash")
	if H == nil || h == nil {
		return
	}
	c.examined(len(H.Blocks))
	key := H.Params[0]
	var open, closeS *ssa.Call
	p.allInstrsDeep(H, func(in ssa.Instruction) {
		if call, ok := in.(*ssa.Call); ok {
			if _, nd, ok := isSearch(call); ok {
				switch nd {
				case '{':
					open = call
				case '}':
					closeS = call
				}
			}
		}
	})
	if open == nil || closeS == nil {
		c.undecided("Hash: brace searches", p.pos(H.Pos()), "the searches for '{' and '}' were not recognised (strings.Index/IndexByte/IndexRune expected; a hand-rolled loop is not supported)")
		return
	}
	hayO, _, _ := isSearch(open)
	c.check(strip(hayO) == ssa.Value(key), "Hash: '{' searched in the whole key", c.at(open), "strings.Index(key, \"{\")", "the opening brace is not searched in the whole key")
	// '}' searched in key[o+1:]
	hayC, _, _ := isSearch(closeS)
	relative := false
	if sl, ok := hayC.(*ssa.Slice); ok && strip(sl.X) == ssa.Value(key) && sl.High == nil && sl.Low != nil {
		if bo, ok := sl.Low.(*ssa.BinOp); ok && bo.Op == token.ADD && bo.X == ssa.Value(open) && isOne(bo.Y) {
			relative = true
		}
	}
	c.check(relative, "Hash: '}' searched after the '{'", c.at(closeS), "strings.Index(key[o+1:], \"}\")",
		"the closing brace is searched in "+expr(hayC)+" instead of the part of the key after the first '{': a '}' that precedes the '{' (key \"}{a}\") hides the tag and the key is hashed whole, whereas the cluster hashes \"a\"")
	// calls of hash: whole key, or key[o+1 : o+1+c] on a non-empty edge
	nTag := 0
	// the values that get hashed: the arguments of hash(), or - when the argument is computed by a helper
	// (hash(hashTag(key))) - each value that helper can return, with the guards under which it returns it
	type hashedVal struct {
		v  ssa.Value
		at blockOwner
		in ssa.Instruction
	}
	var hashed []hashedVal
	for _, call := range p.callsIn(H, h) {
		arg := strip(call.Common().Args[0])
		if cl, ok := arg.(*ssa.Call); ok {
			if hf := cl.Call.StaticCallee(); hf != nil && p.isHelper(hf) {
				bindCall(hf, cl.Call.Args)
				for _, r := range returnsReachable(hf) {
					hashed = append(hashed, hashedVal{results(r.(*ssa.Return))[0], r, r})
				}
				continue
			}
		}
		hashed = append(hashed, hashedVal{call.Common().Args[0], call, call.(ssa.Instruction)})
	}
	for _, hv := range hashed {
		arg := hv.v
		call := hv.in
		if strip(arg) == ssa.Value(key) {
			c.ok("Hash: whole-key hash", c.at(call), "hash(key)")
			continue
		}
		nTag++
		// normalise nested slicing: key[a:][:b] == key[a:a+b]
		base, lo, hi, okN := normSlice(arg)
		okS := okN && strip(base) == ssa.Value(key)
		if okS {
			wantLo := sumKey([]string{expr(open)}, 1)
			wantHi := sumKey([]string{expr(open), expr(closeS)}, 1)
			okS = lo == wantLo && hi == wantHi
		}
		c.check(okS && relative, "Hash: tag substring", c.at(call), "key[o+1 : o+1+c]",
			"the substring hashed as the tag is "+expr(arg)+", not the bytes strictly between the first '{' and the first '}' after it")
		gs := guardsOf(hv.at)
		found := guardHas(gs, func(g Guard) bool {
			x, op, y, ok := cmpGuard(g)
			k, isK := constInt(y)
			return ok && x == ssa.Value(open) && isK && ((op == token.GEQ && k == 0) || (op == token.GTR && k == -1) || (op == token.NEQ && k == -1))
		})
		nonEmpty := guardHas(gs, func(g Guard) bool {
			x, op, y, ok := cmpGuard(g)
			k, isK := constInt(y)
			return ok && x == ssa.Value(closeS) && isK && ((op == token.GEQ && k == 1) || (op == token.GTR && k == 0))
		})
		c.check(found && nonEmpty, "Hash: tag used only when '{' exists and the tag is non-empty", c.at(call), "o >= 0 and c >= 1",
			"the tag substring is hashed without the guards `'{' found` and `tag non-empty` (\"{}x\" and \"{x\" must hash the whole key)", withGuards(gs))
	}
	c.check(nTag == 1, "Hash: one tag path", p.pos(H.Pos()), "one", fmt.Sprintf("expected one call hashing the tag substring, found %d", nTag))
}

func ruleC05_4(c *Ctx) {
	p := c.P
	H := c.need(pkgHash + ".Hash")
	parseLine := c.needMethod(pkgCore, "CRespCodec", "parseLine")
	if H == nil || parseLine == nil {
		return
	}
	keys := p.Field(pkgCore, "Msg", "Keys")
	sites := p.SitesOf(H)
	c.examined(len(sites))
	seen := map[string]int{}
	for _, s := range sites {
		if s.Fn.Synthetic != "" || s.Call == nil {
			continue
		}
		// the anchor function(s) on whose behalf this call is made: the enclosing function or, for a helper
		// shared by several of them (e.g. Eval and Default merged into one parametrised routine), each of them
		var contexts []*ssa.Function
		for _, a := range []*ssa.Function{p.Method(pkgCore, "CRespCodec", "Default"), p.Method(pkgCore, "CRespCodec", "Eval"),
			p.Method(pkgCore, "CRespCodec", "Frag1"), p.Method(pkgCore, "CRespCodec", "Frag2"), p.Method(pkgCore, "SRespCodec", "MGet")} {
			if a == nil {
				continue
			}
			for _, g := range p.family(a) {
				if g == outermostFn(s.Fn) {
					contexts = append(contexts, a)
				}
			}
		}
		if len(contexts) == 0 {
			contexts = []*ssa.Function{homeFn(s.Fn)}
		}
		for _, encl := range contexts {
			c.touch(encl)
			name := "hashkit.Hash call in " + shortFn(encl)
			seen[shortFn(encl)]++
			// the call sits in a helper shared by several anchors (`resp.addKey(key)`): look at it under the call site
			// that belongs to this anchor
			evalUnder := func(f func()) { f() }
			if h := outermostFn(s.Fn); h != encl && p.isHelper(h) {
				var mine []Site
				for _, hs := range p.helperSites(h) {
					for _, g := range p.family(encl) {
						if g == outermostFn(hs.Fn) && hs.Call != nil {
							mine = append(mine, hs)
						}
					}
				}
				if len(mine) == 1 {
					site := mine[0]
					evalUnder = func(f func()) {
						siteCtx[h] = site
						withBinding(h, site.Call.Args, f)
						delete(siteCtx, h)
					}
				}
			}
			evalUnder(func() {
				arg := strip(s.Call.Args[0])
				// string(parseLine result #0) ?
				fromParse := func(v ssa.Value) (*ssa.Call, bool) {
					cv, ok := v.(*ssa.Convert)
					if !ok {
						return nil, false
					}
					ex, ok := strip(cv.X).(*ssa.Extract)
					if !ok || ex.Index != 0 {
						return nil, false
					}
					return p.isCallTo(ex.Tuple, parseLine)
				}
				idxGuard := func(want int64) bool {
					return guardHas(guardsOf(s.Instr), func(g Guard) bool {
						x, op, y, ok := cmpGuard(g)
						if !ok || op != token.EQL {
							return false
						}
						k, isK := constInt(y)
						if prm, isP := y.(*ssa.Parameter); isP && !isK {
							// the index is a parameter of a shared helper: every call made on behalf of this anchor passes the constant
							idx := -1
							for i, q := range prm.Parent().Params {
								if q == prm {
									idx = i
								}
							}
							n := 0
							isK = true
							for _, cs := range p.SitesOf(prm.Parent()) {
								if cs.Call == nil || idx < 0 || idx >= len(cs.Call.Args) {
									continue
								}
								inCtx := false
								for _, g2 := range p.family(encl) {
									if g2 == outermostFn(cs.Fn) {
										inCtx = true
									}
								}
								if !inCtx {
									continue
								}
								n++
								if kk, ok := constInt(cs.Call.Args[idx]); ok {
									k = kk
									if kk != want {
										isK = false
									}
								} else {
									isK = false
								}
							}
							if n == 0 {
								isK = false
							}
						}
						if !isK || k != want {
							return false
						}
						ph, ok := x.(*ssa.Phi)
						if !ok {
							return false
						}
						z, step := false, false
						for _, e := range ph.Edges {
							if k, ok := constInt(e); ok && k == 0 {
								z = true
							}
							if b, ok := e.(*ssa.BinOp); ok && b.Op == token.ADD && b.X == ssa.Value(ph) && isOne(b.Y) {
								step = true
							}
						}
						return z && step
					})
				}
				switch encl.Name() {
				case "Default", "Eval":
					want := int64(0)
					if encl.Name() == "Eval" {
						want = 2
					}
					pl, okP := fromParse(arg)
					lps := loopsOf(s.Instr.Parent())
					sameIter := okP && pl.Block().Dominates(s.Instr.Block()) && innermostLoop(lps, pl.Block()) != nil && innermostLoop(lps, pl.Block()) == innermostLoop(lps, s.Instr.Block())
					c.check(okP && sameIter && idxGuard(want), name, c.at(s.Instr), fmt.Sprintf("Hash(string(argument %d))", want),
						fmt.Sprintf("the slot is not computed from argument %d of the request (the key): the request is routed by another argument", want), withGuards(guardsOf(s.Instr)))
				case "Frag1", "Frag2":
					pl, okP := fromParse(arg)
					first := okP
					if okP && encl.Name() == "Frag2" {
						// the first parseLine of the iteration: it dominates the other one
						for _, other := range p.callsIn(encl, parseLine) {
							if other.(ssa.Instruction) != ssa.Instruction(pl) && !dominatesInstr(pl, other.(ssa.Instruction)) {
								first = false
							}
						}
					}
					c.check(okP && first, name, c.at(s.Instr), "Hash(string(key)) of the iteration's key", "the slot of a key group is not computed from the key (first element of the pair for MSET)")
				case "MGet":
					// SRespCodec.MGet: range value of msg.Keys
					okK := false
					if ld, ok := arg.(*ssa.UnOp); ok {
						if ia, ok := ld.X.(*ssa.IndexAddr); ok {
							if _, is := fieldLoad(ia.X, keys); is {
								okK = true
							}
						}
					}
					c.check(okK, name, c.at(s.Instr), "Hash(k) for k in msg.Keys", "the reply assembly looks fragments up by a slot not derived from the request's keys")
				default:
					c.ok(name+" (other)", c.at(s.Instr), "not on the routing path: "+expr(arg))
				}
			})
		}
	}
	for _, need := range []string{"(*CRespCodec).Default", "(*CRespCodec).Eval", "(*CRespCodec).Frag1", "(*CRespCodec).Frag2", "(*SRespCodec).MGet"} {
		if seen[need] != 1 {
			c.bad("hashkit.Hash call in "+need, "-", fmt.Sprintf("expected exactly one call, found %d", seen[need]))
		}
	}
	_ = strings.TrimSpace
}

// normSlice flattens nested slice expressions over one base into (base, low, high) where low and high
// are canonical sums of terms ("t1+t2+…+k"); ok is false when a bound is missing or not a sum.
func normSlice(v ssa.Value) (base ssa.Value, lo, hi string, ok bool) {
	type sum struct {
		terms []string
		k     int64
	}
	var terms func(v ssa.Value) (sum, bool)
	terms = func(v ssa.Value) (sum, bool) {
		if k, isK := constInt(v); isK {
			return sum{nil, k}, true
		}
		if bo, isB := v.(*ssa.BinOp); isB && bo.Op == token.ADD {
			a, ok1 := terms(bo.X)
			b, ok2 := terms(bo.Y)
			if ok1 && ok2 {
				return sum{append(append([]string{}, a.terms...), b.terms...), a.k + b.k}, true
			}
		}
		return sum{[]string{expr(v)}, 0}, true
	}
	sl, isSl := v.(*ssa.Slice)
	if !isSl {
		return nil, "", "", false
	}
	var loS, hiS sum
	hasHi := false
	// unwind from the outermost slice inwards
	var chain []*ssa.Slice
	cur := ssa.Value(sl)
	for {
		s2, isS := cur.(*ssa.Slice)
		if !isS {
			break
		}
		chain = append(chain, s2)
		cur = s2.X
	}
	base = cur
	// apply from the innermost outwards
	for i := len(chain) - 1; i >= 0; i-- {
		s2 := chain[i]
		newLo := loS
		if s2.Low != nil {
			t, _ := terms(s2.Low)
			newLo = sum{append(append([]string{}, loS.terms...), t.terms...), loS.k + t.k}
		}
		if s2.High != nil {
			t, _ := terms(s2.High)
			hiS = sum{append(append([]string{}, loS.terms...), t.terms...), loS.k + t.k}
			hasHi = true
		}
		loS = newLo
	}
	if !hasHi {
		return base, sumKey(loS.terms, loS.k), "", false
	}
	return base, sumKey(loS.terms, loS.k), sumKey(hiS.terms, hiS.k), true
}

func sumKey(terms []string, k int64) string {
	t := append([]string{}, terms...)
	sortStrings(t)
	return strings.Join(t, "+") + fmt.Sprintf("+%d", k)
}

func sortStrings(s []string) {
	for i := 1; i < len(s); i++ {
		for j := i; j > 0 && s[j] < s[j-1]; j-- {
			s[j], s[j-1] = s[j-1], s[j]
		}
	}
}

func outermostFn(fn *ssa.Function) *ssa.Function {
	for fn.Parent() != nil {
		fn = fn.Parent()
	}
	return fn
}

package main

import (
	"bufio"
	"fmt"
	"io"
	"net"
	"strconv"
	"strings"
	"sync"
	"time"
)

// action returned by a scenario hook for one data command.
type action struct {
	reply []byte        // nil => default semantics
	delay time.Duration // sleep before replying
	close bool          // close the connection instead of replying
	stall bool          // never reply (and block the connection)
	extra []byte        // written right after the reply
}

type node struct {
	id, addr       string
	role           string // master|slave
	masterID       string
	slots          string
	ln             net.Listener
	mu             sync.Mutex
	store          map[string]string
	log            []string
	hook           func(n *node, args []string) *action
	nodesText      func() string
	probeHook      func(n *node, probeNo int) []byte // override cluster nodes reply
	probes         int
	accepted       int
	onAccept       func(n *node, c net.Conn, k int)
}

func readCmd(br *bufio.Reader) ([]string, error) {
	line, err := br.ReadString('\n')
	if err != nil {
		return nil, err
	}
	if len(line) < 3 || line[0] != '*' {
		return nil, fmt.Errorf("protocol error: %q", line)
	}
	n, err := strconv.Atoi(strings.TrimSpace(line[1:]))
	if err != nil {
		return nil, fmt.Errorf("protocol error: %q", line)
	}
	args := make([]string, 0, n)
	for i := 0; i < n; i++ {
		h, err := br.ReadString('\n')
		if err != nil {
			return nil, err
		}
		if h[0] != '$' {
			return nil, fmt.Errorf("protocol error: %q", h)
		}
		l, err := strconv.Atoi(strings.TrimSpace(h[1:]))
		if err != nil || l < 0 {
			return nil, fmt.Errorf("protocol error: invalid bulk length %q", h)
		}
		b := make([]byte, l+2)
		if _, err := io.ReadFull(br, b); err != nil {
			return nil, err
		}
		args = append(args, string(b[:l]))
	}
	return args, nil
}

func bulk(s string) []byte { return []byte(fmt.Sprintf("$%d\r\n%s\r\n", len(s), s)) }

func (n *node) serve() {
	for {
		c, err := n.ln.Accept()
		if err != nil {
			return
		}
		n.mu.Lock()
		n.accepted++
		k := n.accepted
		n.mu.Unlock()
		if n.onAccept != nil {
			n.onAccept(n, c, k)
		}
		go n.handle(c)
	}
}

func (n *node) handle(c net.Conn) {
	defer c.Close()
	br := bufio.NewReader(c)
	for {
		args, err := readCmd(br)
		if err != nil {
			if err != io.EOF {
				n.mu.Lock()
				n.log = append(n.log, "PROTOERR "+err.Error())
				n.mu.Unlock()
				c.Write([]byte("-ERR Protocol error\r\n"))
			}
			return
		}
		cmd := strings.ToLower(args[0])
		switch cmd {
		case "cluster":
			n.mu.Lock()
			n.probes++
			p := n.probes
			n.mu.Unlock()
			if n.probeHook != nil {
				if r := n.probeHook(n, p); r != nil {
					c.Write(r)
					continue
				}
			}
			c.Write(bulk(n.nodesText()))
			continue
		case "info":
			c.Write(bulk("# Server\r\nredis_version:6.2.6\r\nloading:0\r\nmaster_link_status:up\r\n"))
			continue
		case "ping":
			c.Write([]byte("+PONG\r\n"))
			continue
		case "readonly", "auth", "asking":
			n.mu.Lock()
			n.log = append(n.log, strings.Join(args, " "))
			n.mu.Unlock()
			c.Write([]byte("+OK\r\n"))
			continue
		}
		n.mu.Lock()
		n.log = append(n.log, strings.Join(args, " "))
		n.mu.Unlock()
		var a *action
		if n.hook != nil {
			a = n.hook(n, args)
		}
		if a != nil {
			if a.delay > 0 {
				time.Sleep(a.delay)
			}
			if a.close {
				return
			}
			if a.stall {
				select {}
			}
		}
		var reply []byte
		if a != nil && a.reply != nil {
			reply = a.reply
		} else {
			reply = n.defaultReply(cmd, args)
		}
		c.Write(reply)
		if a != nil && a.extra != nil {
			c.Write(a.extra)
		}
	}
}

func (n *node) defaultReply(cmd string, args []string) []byte {
	n.mu.Lock()
	defer n.mu.Unlock()
	switch cmd {
	case "get":
		if v, ok := n.store[args[1]]; ok {
			return bulk(v)
		}
		return []byte("$-1\r\n")
	case "set":
		n.store[args[1]] = args[2]
		return []byte("+OK\r\n")
	case "mget":
		out := []byte(fmt.Sprintf("*%d\r\n", len(args)-1))
		for _, k := range args[1:] {
			if v, ok := n.store[k]; ok {
				out = append(out, bulk(v)...)
			} else {
				out = append(out, "$-1\r\n"...)
			}
		}
		return out
	case "mset":
		for i := 1; i+1 < len(args); i += 2 {
			n.store[args[i]] = args[i+1]
		}
		return []byte("+OK\r\n")
	case "del":
		cnt := 0
		for _, k := range args[1:] {
			if _, ok := n.store[k]; ok {
				delete(n.store, k)
				cnt++
			}
		}
		return []byte(fmt.Sprintf(":%d\r\n", cnt))
	}
	return []byte("-ERR unknown command\r\n")
}

func (n *node) logCopy() []string {
	n.mu.Lock()
	defer n.mu.Unlock()
	return append([]string(nil), n.log...)
}

type cluster struct{ nodes []*node }

func (cl *cluster) text() string {
	var sb strings.Builder
	for _, n := range cl.nodes {
		flags := n.role
		mid := "-"
		if n.role == "slave" {
			mid = n.masterID
		}
		port := strings.Split(n.addr, ":")[1]
		fmt.Fprintf(&sb, "%s %s@1%s %s %s 0 1 1 connected", n.id, n.addr, port, flags, mid)
		if n.role == "master" && n.slots != "" {
			sb.WriteString(" " + n.slots)
		}
		sb.WriteString("\n")
	}
	return sb.String()
}

// newCluster: masters with given slot strings, replicas[i] replicas for master i.
func newCluster(slots []string, replicas []int) *cluster {
	cl := &cluster{}
	mk := func(role, mid, sl string) *node {
		ln, err := net.Listen("tcp", "127.0.0.1:0")
		if err != nil {
			panic(err)
		}
		n := &node{ln: ln, addr: ln.Addr().String(), role: role, masterID: mid, slots: sl, store: map[string]string{}}
		n.id = fmt.Sprintf("%040d", ln.Addr().(*net.TCPAddr).Port)
		n.nodesText = cl.text
		cl.nodes = append(cl.nodes, n)
		return n
	}
	var masters []*node
	for _, s := range slots {
		masters = append(masters, mk("master", "-", s))
	}
	for i, r := range replicas {
		for j := 0; j < r; j++ {
			mk("slave", masters[i].id, "")
		}
	}
	return cl
}

func (cl *cluster) start() {
	for _, n := range cl.nodes {
		go n.serve()
	}
}

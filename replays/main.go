package main

import (
	"bufio"
	"flag"
	"fmt"
	"net"
	"os"
	"strconv"
	"strings"
	"time"

	"rcproxy/core"
	"rcproxy/core/pkg/hashkit"
	"rcproxy/core/pkg/logging"
	"rcproxy/core/server"
)

var proxyAddr string
var maxLen int

func startProxy(cl *cluster, timeoutMs int, disableSlave bool) {
	ln, _ := net.Listen("tcp", "127.0.0.1:0")
	port := ln.Addr().(*net.TCPAddr).Port
	ln.Close()
	proxyAddr = fmt.Sprintf("127.0.0.1:%d", port)
	_ = logging.InitializeLogger(logging.WithPath("/tmp/replay/log"), logging.WithExpireDay(1), logging.WithLogLevel("WARN"))
	servers := cl.nodes[0].addr + "," + cl.nodes[1].addr
	h := server.NewListenServer(server.WithRedisPassword(""), server.WithServerRetryTimeout(500), server.WithDisableRedisSlave(disableSlave))
	go func() {
		err := core.Run(h, fmt.Sprintf("tcp://:%d", port),
			core.WithRedisServers(servers), core.WithRedisPreconnect(true), core.WithRedisConnectTimeout(500),
			core.WithRedisRequestTimeout(timeoutMs), core.WithRedisServerConnections(1), core.WithRedisMsgMaxLength(maxLen))
		fmt.Println("PROXY EXITED:", err)
	}()
}

type client struct {
	c  net.Conn
	br *bufio.Reader
}

func dial() *client {
	for i := 0; i < 50; i++ {
		c, err := net.Dial("tcp", proxyAddr)
		if err == nil {
			return &client{c, bufio.NewReader(c)}
		}
		time.Sleep(100 * time.Millisecond)
	}
	panic("cannot dial proxy")
}

func enc(args ...string) string {
	s := fmt.Sprintf("*%d\r\n", len(args))
	for _, a := range args {
		s += fmt.Sprintf("$%d\r\n%s\r\n", len(a), a)
	}
	return s
}

func (cl *client) send(s string) { cl.c.Write([]byte(s)) }

// read one RESP reply (raw text) or "" on timeout/EOF
func (cl *client) read(d time.Duration) string {
	cl.c.SetReadDeadline(time.Now().Add(d))
	var rd func() (string, error)
	rd = func() (string, error) {
		line, err := cl.br.ReadString('\n')
		if err != nil {
			return line, err
		}
		switch line[0] {
		case '$':
			n, _ := strconv.Atoi(strings.TrimSpace(line[1:]))
			if n < 0 {
				return line, nil
			}
			b := make([]byte, n+2)
			for got := 0; got < n+2; {
				m, err := cl.br.Read(b[got:])
				if err != nil {
					return line + string(b[:got]), err
				}
				got += m
			}
			return line + string(b), nil
		case '*':
			n, _ := strconv.Atoi(strings.TrimSpace(line[1:]))
			out := line
			for i := 0; i < n; i++ {
				e, err := rd()
				out += e
				if err != nil {
					return out, err
				}
			}
			return out, nil
		}
		return line, nil
	}
	s, err := rd()
	if err != nil {
		if ne, ok := err.(net.Error); ok && ne.Timeout() {
			return s + "<TIMEOUT>"
		}
		return s + "<" + err.Error() + ">"
	}
	return s
}

func waitReady(key string) {
	for i := 0; i < 100; i++ {
		c := dial()
		c.send(enc("get", key))
		r := c.read(500 * time.Millisecond)
		c.c.Close()
		if strings.HasPrefix(r, "$") {
			return
		}
		time.Sleep(200 * time.Millisecond)
	}
	fmt.Println("NOT READY")
	os.Exit(3)
}

// keyIn returns a key whose slot lies in [lo,hi]
func keyIn(lo, hi int32, prefix string) string {
	for i := 0; ; i++ {
		k := fmt.Sprintf("%s%d", prefix, i)
		if s := hashkit.Hash(k); s >= lo && s <= hi {
			return k
		}
	}
}

func q(s string) string { return strconv.Quote(s) }

func main() {
	sc := flag.String("s", "", "scenario")
	flag.Parse()
	std := []string{"0-5460", "5461-10922", "10923-16383"}
	kA := keyIn(0, 5460, "a")
	kB := keyIn(5461, 10922, "b")
	kC := keyIn(10923, 16383, "c")
	switch *sc {
	case "F01a": // local reply overtakes
		cl := newCluster(std, []int{0, 0, 0})
		cl.nodes[0].hook = func(n *node, a []string) *action {
			if a[0] == "get" && a[1] == kA+"slow" {
				return &action{delay: 400 * time.Millisecond}
			}
			return nil
		}
		cl.start()
		startProxy(cl, 0, true)
		waitReady(kA)
		c := dial()
		_ = kB
		slow := keyIn(0, 5460, kA+"slow")
		cl.nodes[0].hook = func(n *node, a []string) *action {
			if a[0] == "get" && a[1] == slow {
				return &action{delay: 400 * time.Millisecond}
			}
			return nil
		}
		c.send(enc("GET", slow) + enc("PING"))
		fmt.Println("reply1:", q(c.read(2*time.Second)))
		fmt.Println("reply2:", q(c.read(2*time.Second)))
	case "F03a": // partial enqueue then recycle
		cl := newCluster([]string{"0-5460", "5461-10922", "10923-16000"}, []int{0, 0, 0})
		cl.nodes[1].hook = func(n *node, a []string) *action {
			if a[0] == "get" {
				return &action{delay: 300 * time.Millisecond}
			}
			return nil
		}
		cl.start()
		startProxy(cl, 0, true)
		waitReady(kA)
		kU := keyIn(16001, 16383, "u")
		for i := 0; i < 40; i++ {
			c := dial()
			c.send(enc("MGET", kA, kU) + enc("GET", kB))
			r1 := c.read(2 * time.Second)
			r2 := c.read(2 * time.Second)
			fmt.Printf("try %d: reply1=%s reply2=%s\n", i, q(r1), q(r2))
			c.c.Close()
			if strings.HasPrefix(r2, "*") {
				fmt.Println("MISDELIVERY: GET answered with the MGET fragment's array")
				return
			}
		}
	case "F09a": // AllDone gate starves open-loop client
		cl := newCluster(std, []int{0, 0, 0})
		cl.nodes[0].hook = func(n *node, a []string) *action {
			if a[0] == "get" && strings.HasPrefix(a[1], "open") {
				return &action{delay: 30 * time.Millisecond}
			}
			return nil
		}
		cl.start()
		startProxy(cl, 0, true)
		waitReady(kA)
		k := keyIn(0, 5460, "open")
		c := dial()
		got := 0
		done := make(chan struct{})
		go func() {
			for {
				r := c.read(5 * time.Second)
				if !strings.HasPrefix(r, "$") {
					close(done)
					return
				}
				got++
			}
		}()
		start := time.Now()
		sent := 0
		for time.Since(start) < 2*time.Second {
			c.send(enc("GET", k))
			sent++
			time.Sleep(10 * time.Millisecond)
		}
		fmt.Printf("while sending for 2s: sent=%d replies received=%d\n", sent, got)
		time.Sleep(time.Duration(sent)*30*time.Millisecond + time.Second)
		fmt.Printf("after sender stopped and backend caught up: replies received=%d\n", got)
	case "F11b": // error reply to an MGET fragment
		cl := newCluster(std, []int{0, 0, 0})
		cl.start()
		startProxy(cl, 0, true)
		waitReady(kA)
		cl.nodes[1].hook = func(n *node, a []string) *action {
			if a[0] == "mget" {
				return &action{reply: []byte("-ERR boom\r\n")}
			}
			return nil
		}
		c := dial()
		c.send(enc("MGET", kA, kB))
		fmt.Println("reply:", q(c.read(2*time.Second)))
		w := dial()
		w.send(enc("PING"))
		fmt.Println("witness PING:", q(w.read(time.Second)))
	case "F11a":
		cl := newCluster(std, []int{0, 0, 0})
		cl.start()
		startProxy(cl, 0, true)
		waitReady(kA)
		cl.nodes[1].hook = func(n *node, a []string) *action {
			if a[0] == "del" {
				return &action{reply: []byte("-ERR boom\r\n")}
			}
			return nil
		}
		c := dial()
		c.send(enc("DEL", kA, kB))
		fmt.Println("reply:", q(c.read(2*time.Second)))
	case "F12a":
		cl := newCluster(std, []int{0, 0, 0})
		cl.start()
		startProxy(cl, 0, true)
		waitReady(kA)
		c := dial()
		c.send("*0\r\n")
		fmt.Println("reply:", q(c.read(time.Second)))
		w := dial()
		w.send(enc("PING"))
		fmt.Println("witness PING:", q(w.read(time.Second)))
	case "F12b":
		cl := newCluster(std, []int{0, 0, 0})
		cl.start()
		startProxy(cl, 0, true)
		waitReady(kA)
		c := dial()
		c.send("*2\r\n$3\r\nget\r\n$-1\r\n")
		fmt.Println("reply:", q(c.read(time.Second)))
		time.Sleep(300 * time.Millisecond)
		for _, n := range cl.nodes {
			for _, l := range n.logCopy() {
				if strings.HasPrefix(l, "PROTOERR") {
					fmt.Println("backend", n.addr, "saw:", l)
				}
			}
		}
	case "F14a": // unusable probe reply kills refresh
		cl := newCluster(std, []int{0, 0, 0})
		for _, n := range cl.nodes {
			n.probeHook = func(n *node, p int) []byte {
				tot := 0
				for _, m := range cl.nodes {
					m.mu.Lock()
					tot += m.probes
					m.mu.Unlock()
				}
				if tot == 1 {
					return []byte("-ERR try later\r\n")
				}
				return nil
			}
		}
		cl.start()
		startProxy(cl, 0, true)
		time.Sleep(6 * time.Second)
		c := dial()
		c.send(enc("GET", kA))
		tot := 0
		for _, m := range cl.nodes {
			tot += m.probes
		}
		fmt.Printf("after 6s and %d probes (only the first answered with an error): GET -> %s\n", tot, q(c.read(time.Second)))
	case "F14c":
		cl := newCluster([]string{"0-5460", "5461-10922", "10923-20000"}, []int{0, 0, 0})
		cl.start()
		startProxy(cl, 0, true)
		time.Sleep(4 * time.Second)
		c := dial()
		c.send(enc("PING"))
		fmt.Println("PING ->", q(c.read(time.Second)))
	case "F15a": // backend dies with request in flight
		cl := newCluster(std, []int{0, 0, 0})
		cl.start()
		startProxy(cl, 0, true)
		waitReady(kA)
		cl.nodes[0].hook = func(n *node, a []string) *action {
			if a[0] == "get" {
				return &action{close: true}
			}
			return nil
		}
		c := dial()
		c.send(enc("GET", kA))
		fmt.Println("reply within 4s:", q(c.read(4*time.Second)))
	case "F16b": // timeout then connection unusable
		cl := newCluster(std, []int{0, 0, 0})
		cl.start()
		startProxy(cl, 200, true)
		waitReady(kA)
		cl.nodes[0].hook = func(n *node, a []string) *action {
			if a[0] == "get" {
				return &action{stall: true}
			}
			return nil
		}
		c := dial()
		c.send(enc("GET", kA))
		fmt.Println("reply1 (stalled request):", q(c.read(3*time.Second)))
		c.send(enc("GET", kB))
		fmt.Println("reply2 (healthy node, same connection):", q(c.read(3*time.Second)))
	case "F16a": // timeout error position
		cl := newCluster(std, []int{0, 0, 0})
		cl.start()
		startProxy(cl, 200, true)
		waitReady(kA)
		cl.nodes[1].hook = func(n *node, a []string) *action {
			if a[0] == "get" {
				return &action{delay: 1500 * time.Millisecond}
			}
			return nil
		}
		cl.nodes[0].hook = func(n *node, a []string) *action {
			if a[0] == "get" {
				return &action{delay: 600 * time.Millisecond, reply: bulk("A")}
			}
			return nil
		}
		c := dial()
		// request 1 -> node0 (answers after 600ms, beyond timeout? no: make it within) ; use timeout 200 so both time out; instead: req1 slow-but-ok is impossible with global timeout; show order with req1 = stalled B, req0 = A fast
		c.send(enc("GET", kB) + enc("PING"))
		fmt.Println("reply1:", q(c.read(3*time.Second)))
		fmt.Println("reply2:", q(c.read(3*time.Second)))
	case "F20a":
		cl := newCluster(std, []int{2, 0, 0})
		cl.start()
		startProxy(cl, 0, false)
		waitReady(kA)
		time.Sleep(1500 * time.Millisecond)
		c := dial()
		for i := 0; i < 300; i++ {
			c.send(enc("GET", kA))
			c.read(time.Second)
		}
		for _, n := range cl.nodes {
			cnt := 0
			for _, l := range n.logCopy() {
				if strings.HasPrefix(l, "GET") || strings.HasPrefix(l, "get") {
					cnt++
				}
			}
			fmt.Printf("%s %s gets=%d\n", n.role, n.addr, cnt)
		}
	case "F13": // ASK without ASKING and ping-pong
		cl := newCluster(std, []int{0, 0, 0})
		cl.start()
		startProxy(cl, 0, true)
		waitReady(kA)
		slot := hashkit.Hash(kA)
		asked := false
		cl.nodes[0].hook = func(n *node, a []string) *action {
			if a[0] == "get" && a[1] == kA {
				return &action{reply: []byte(fmt.Sprintf("-ASK %d %s\r\n", slot, cl.nodes[1].addr))}
			}
			return nil
		}
		cl.nodes[1].hook = func(n *node, a []string) *action {
			if a[0] == "get" && a[1] == kA {
				lg := n.log
				if len(lg) >= 2 && strings.EqualFold(lg[len(lg)-2], "asking") {
					asked = true
					return &action{reply: bulk("imported")}
				}
				return &action{reply: []byte(fmt.Sprintf("-MOVED %d %s\r\n", slot, cl.nodes[0].addr))}
			}
			return nil
		}
		c := dial()
		c.send(enc("GET", kA))
		r := c.read(1500 * time.Millisecond)
		n0, n1 := 0, 0
		for _, l := range cl.nodes[0].logCopy() {
			if strings.Contains(l, kA) {
				n0++
			}
		}
		for _, l := range cl.nodes[1].logCopy() {
			if strings.Contains(l, kA) {
				n1++
			}
		}
		fmt.Printf("reply within 1.5s: %s ; ASKING seen=%v ; node0 saw the GET %d times, node1 %d times\n", q(r), asked, n0, n1)
	case "F11c": // unsolicited reply => spin
		cl := newCluster(std, []int{0, 0, 0})
		cl.start()
		startProxy(cl, 0, true)
		waitReady(kA)
		cl.nodes[0].hook = func(n *node, a []string) *action {
			if a[0] == "get" {
				return &action{extra: []byte("+UNSOLICITED\r\n")}
			}
			return nil
		}
		c := dial()
		c.send(enc("GET", kA))
		fmt.Println("reply:", q(c.read(time.Second)))
		time.Sleep(300 * time.Millisecond)
		w := dial()
		w.send(enc("PING"))
		fmt.Println("witness PING after unsolicited backend bytes:", q(w.read(2*time.Second)))
	case "F03b":
		maxLen = 200
		cl := newCluster(std, []int{0, 0, 0})
		cl.start()
		startProxy(cl, 0, true)
		waitReady(kA)
		cl.nodes[0].hook = func(n *node, a []string) *action {
			if a[0] == "mget" {
				return &action{reply: append([]byte("*1\r\n"), bulk(strings.Repeat("x", 300))...)}
			}
			return nil
		}
		cl.nodes[1].hook = func(n *node, a []string) *action {
			if a[0] == "mget" {
				return &action{delay: 300 * time.Millisecond, reply: []byte(fmt.Sprintf("-MOVED %d %s\r\n", hashkit.Hash(kB), cl.nodes[2].addr))}
			}
			return nil
		}
		c := dial()
		c.send(enc("MGET", kA, kB))
		fmt.Println("reply:", q(c.read(time.Second)))
		time.Sleep(600 * time.Millisecond)
		w := dial()
		w.send(enc("PING"))
		fmt.Println("witness PING:", q(w.read(time.Second)))
	case "F15b":
		cl := newCluster(std, []int{0, 0, 0})
		cl.start()
		startProxy(cl, 0, true)
		waitReady(kA)
		cl.nodes[0].hook = func(n *node, a []string) *action {
			if a[0] == "get" {
				return &action{reply: []byte(fmt.Sprintf("-MOVED %d 127.0.0.1:1\r\n", hashkit.Hash(kA)))}
			}
			return nil
		}
		c := dial()
		c.send(enc("GET", kA))
		fmt.Println("reply within 3s:", q(c.read(3*time.Second)))
	case "F14b":
		cl := newCluster(std, []int{1, 0, 0})
		cl.start()
		startProxy(cl, 0, false)
		waitReady(kA)
		time.Sleep(1500 * time.Millisecond)
		r := cl.nodes[3]
		r.mu.Lock()
		r.masterID = cl.nodes[1].id // CLUSTER REPLICATE: replica now follows master 1
		r.mu.Unlock()
		time.Sleep(4 * time.Second)
		c := dial()
		for i := 0; i < 100; i++ {
			c.send(enc("GET", kB))
			c.read(time.Second)
		}
		for i := 0; i < 100; i++ {
			c.send(enc("GET", kA))
			c.read(time.Second)
		}
		na, nb := 0, 0
		for _, l := range r.logCopy() {
			if strings.HasSuffix(l, " "+kA) {
				na++
			}
			if strings.HasSuffix(l, " "+kB) {
				nb++
			}
		}
		fmt.Printf("4s after re-parenting replica to master1: replica served %d/100 reads of master1's key, %d/100 reads of master0's key\n", nb, na)
	default:
		fmt.Println("unknown scenario", kC)
	}
}

#!/usr/bin/env python3
# Seeded single-site mutations used to test that each rule fires (run: python3 gen_mutations.py > mutations.json is
# done by this script itself). Each: id, file, find (must occur exactly once), replace, properties to run, expected rule.
import json, os
M = []
def m(id, file, find, replace, props, rule, expect="fire"):
    M.append(dict(id=id, file=file, find=find, replace=replace, props=props if isinstance(props, list) else [props], rule=rule, expect=expect))

EL, CN, MS, CC, CS = "core/eventloop.go", "core/connection.go", "core/message.go", "core/codec_c.go", "core/codec_s.go"
SC, SS = "core/server/server_c.go", "core/server/server_s.go"

# ---- C01
m("c01.1-flush-next", EL, "\t\t\tcur = cur.prev\n\t\t}\n\t\tdoneCount", "\t\t\tcur = cur.next\n\t\t}\n\t\tdoneCount", "C01", "C01.1")
m("c01.1-alldone-tail", MS, "func (l *MsgQueue) AllDone() bool {\n\tcur := l.head", "func (l *MsgQueue) AllDone() bool {\n\tcur := l.tail", "C01", "C01.1")
m("c01.1-pop-next", MS, "func (l *MsgQueue) PopHead() {\n\tif l.count == 0 {\n\t\treturn\n\t}\n\tm := l.head\n\tl.count--\n\tif l.count == 0 {\n\t\tl.tail, l.head = nil, nil\n\t} else {\n\t\tm.prev.next = nil\n\t\tl.head = m.prev",
  "func (l *MsgQueue) PopHead() {\n\tif l.count == 0 {\n\t\treturn\n\t}\n\tm := l.head\n\tl.count--\n\tif l.count == 0 {\n\t\tl.tail, l.head = nil, nil\n\t} else {\n\t\tm.prev.next = nil\n\t\tl.head = m.next", "C01", "C01.1")
m("c01.2-enqueue-twice", SC, "\tc.EnqueueInMsg(r)\n\treturn\n}", "\tc.EnqueueInMsg(r)\n\tc.EnqueueInMsg(r)\n\treturn\n}", "C01", "C01.2")
m("c01.2-enqueue-early", SC, "\tcore.GlobalStats.ReqCmdIncr(r.Type)\n", "\tcore.GlobalStats.ReqCmdIncr(r.Type)\n\tc.EnqueueInMsg(r)\n", "C01", "C01.2")
m("c01.3-new-writer", EL, "\t\tif c.inMsgQueue.Empty() {\n\t\t\tlogging.Errorf(\"[%dm|%df][%dc|%ds] redis react happen but client inMsgQueue empty\"", "\t\tif c.inMsgQueue.Empty() {\n\t\t\t_, _ = c.write(r.RspBody)\n\t\t\tlogging.Errorf(\"[%dm|%df][%dc|%ds] redis react happen but client inMsgQueue empty\"", "C01", "C01.3")
m("c01.4-append-twice", EL, "\t\t\tbs = append(bs, cur.RspBody)\n", "\t\t\tbs = append(bs, cur.RspBody, cur.RspBody)\n", "C01", "C01.4")
m("c01.4-no-advance", EL, "\t\t\t\tbreak\n\t\t\t}\n\t\t\tbs = bs[r:]\n\t\t}\n\n\t\tif _, err = c.writev(bs); err != nil {\n\t\t\tlogging.Warnf(\"[%dm][%dc] write to client", "\t\t\t\tbreak\n\t\t\t}\n\t\t\tbs = bs[r-1:]\n\t\t}\n\n\t\tif _, err = c.writev(bs); err != nil {\n\t\t\tlogging.Warnf(\"[%dm][%dc] write to client", "C01", "C01.4")
m("c01.4-pop-all", EL, "\t\tfor ; doneCount > 0; doneCount-- {\n", "\t\tfor ; doneCount >= 0; doneCount = len(bs) {\n", "C01", "C01.4")
m("c01.4-collect-undone", EL, "\t\tfor cur != nil && cur.Done {\n", "\t\tfor cur != nil {\n", "C01", "C01.4")
m("c01.5-write-unguarded", CN, "\tif !c.outboundBuffer.IsEmpty() {\n\t\t_, _ = c.outboundBuffer.Write(data)\n\t\treturn\n\t}\n", "", ["C01", "C02", "C10"], "C01.5")
m("c01.5-writev-negated", CN, "\tif !c.outboundBuffer.IsEmpty() {\n\t\t_, _ = c.outboundBuffer.Writev(bs)\n\t\treturn\n\t}\n", "\tif c.outboundBuffer.IsEmpty() && n == 0 {\n\t\t_, _ = c.outboundBuffer.Writev(bs)\n\t\treturn\n\t}\n", "C01", "C01.5")
m("c01.6-bad-const", "core/codec/codec.go", "ErrUnKnownSlot                Error = \"-ERR unknown slot\\r\\n\"", "ErrUnKnownSlot                Error = \"-ERR unknown slot\\r\\n\\r\\n\"", "C01", "C01.6")

# ---- C02
m("c02.1-peekall", CC, "func (rc *CRespCodec) Default(c CConn, n int, resp *Msg, buf *codec.Buffer) error {\n\tvar key string\n\tvar slot int32\n\tfor i := 0; i < n; i++ {\n\t\tmsg, err := rc.parseLine(buf)\n\t\tif err != nil {\n\t\t\tif err == codec.ErrInvalidResp {\n\t\t\t\tlogging.Warnf(\"[%dm][%dc] unexpect resp, buf: %s\", resp.Id, c.Fd(), utils.FormatRedisRESPMessages(buf.PeekAll()))\n\t\t\t}\n\t\t\treturn err\n\t\t}\n\t\tif i == 0 {\n\t\t\tkey = string(msg)\n\t\t\tslot = hashkit.Hash(key)\n\t\t}\n\t}\n\tfrag := FragPool.Get()\n\tfrag.Key = key\n\tfrag.Peer = resp\n\tfrag.Req = append(frag.Req[:0], buf.ReadBuf()...)",
  "func (rc *CRespCodec) Default(c CConn, n int, resp *Msg, buf *codec.Buffer) error {\n\tvar key string\n\tvar slot int32\n\tfor i := 0; i < n; i++ {\n\t\tmsg, err := rc.parseLine(buf)\n\t\tif err != nil {\n\t\t\tif err == codec.ErrInvalidResp {\n\t\t\t\tlogging.Warnf(\"[%dm][%dc] unexpect resp, buf: %s\", resp.Id, c.Fd(), utils.FormatRedisRESPMessages(buf.PeekAll()))\n\t\t\t}\n\t\t\treturn err\n\t\t}\n\t\tif i == 0 {\n\t\t\tkey = string(msg)\n\t\t\tslot = hashkit.Hash(key)\n\t\t}\n\t}\n\tfrag := FragPool.Get()\n\tfrag.Key = key\n\tfrag.Peer = resp\n\tfrag.Req = append(frag.Req[:0], buf.PeekAll()...)", ["C02", "C12"], "C02.1")
m("c02.2-fold-args", CC, "\t\tif i == 0 {\n\t\t\tkey = string(msg)\n\t\t\tslot = hashkit.Hash(key)\n\t\t}\n\t}\n\tfrag := FragPool.Get()\n\tfrag.Key = key\n\tfrag.Peer = resp\n\tfrag.Req = append(frag.Req[:0], buf.ReadBuf()...)\n\tresp.Body[slot] = frag\n\treturn nil\n}\n\nfunc (rc *CRespCodec) MGet", "\t\tif i == 0 {\n\t\t\tkey = string(msg)\n\t\t\tslot = hashkit.Hash(key)\n\t\t} else if len(msg) > 0 && msg[0] == 'E' {\n\t\t\tmsg[0] = 'e'\n\t\t}\n\t}\n\tfrag := FragPool.Get()\n\tfrag.Key = key\n\tfrag.Peer = resp\n\tfrag.Req = append(frag.Req[:0], buf.ReadBuf()...)\n\tresp.Body[slot] = frag\n\treturn nil\n}\n\nfunc (rc *CRespCodec) MGet", "C02", "C02.2")
m("c02.3-relay-trim", CS, "\tmsg.RspBody = append(msg.RspBody[:0], f.RspBody...)\n\treturn nil\n}", "\tmsg.RspBody = append(msg.RspBody[:0], f.RspBody[:len(f.RspBody)-len(f.Key)%2]...)\n\treturn nil\n}", "C02", "C02.3")
m("c02.4-discard-total", CC, "\t_, _ = c.Discard(buf.ReadSize())\n\treturn resp, nil", "\t_, _ = c.Discard(buf.TotalSize())\n\treturn resp, nil", ["C02", "C08"], "C02.4")
m("c02.4-discard-early", CS, "\tf := s.DequeueInFrag()\n", "\ts.Discard(buf.ReadSize())\n\tf := s.DequeueInFrag()\n", ["C02", "C08"], "C02.4")
m("c02.5-spill-whole", CN, "\tif sent < n {\n\t\t_, _ = c.outboundBuffer.Write(data[sent:])", "\tif sent < n {\n\t\t_, _ = c.outboundBuffer.Write(data)", "C02", "C02.5")
m("c02.5-spill-off", CN, "\tif sent < n {\n\t\t_, _ = c.outboundBuffer.Write(data[sent:])", "\tif sent < n {\n\t\t_, _ = c.outboundBuffer.Write(data[sent+1:])", "C02", "C02.5")
m("c02.5-writev-pos", CN, "\t\t\t\tbs[i] = bs[i][sent:]\n\t\t\t\tpos = i\n", "\t\t\t\tbs[i] = bs[i][sent:]\n\t\t\t\tpos = i + 1\n", "C02", "C02.5")
m("c02.5-writev-nocut", CN, "\t\t\t\tbs[i] = bs[i][sent:]\n\t\t\t\tpos = i\n", "\t\t\t\tpos = i\n", "C02", "C02.5")
m("c02.5-writev-le", CN, "\t\t\tif sent < bn {\n", "\t\t\tif sent <= bn {\n", "C02", "C02.5")
m("c02.6-pushback-keep", "core/pkg/buffer/linkedlist/linked_list_buffer.go", "func (llb *Buffer) PushBack(p []byte) {\n\tn := len(p)\n\tif n == 0 {\n\t\treturn\n\t}\n\tb := bsPool.Get(n)\n\tcopy(b, p)\n\tllb.pushBack(&node{buf: b})", "func (llb *Buffer) PushBack(p []byte) {\n\tn := len(p)\n\tif n == 0 {\n\t\treturn\n\t}\n\tllb.pushBack(&node{buf: p})", "C02", "C02.6")

# ---- C03
m("c03.1-early-enqueue", SC, "\t\troutedFrags = append(routedFrags, routedFrag{frag: frag, sConn: sConn, addr: addr, slot: slot})\n", "\t\troutedFrags = append(routedFrags, routedFrag{frag: frag, sConn: sConn, addr: addr, slot: slot})\n\t\tif len(r.Body) > 8 {\n\t\t\tfrag.Owner = c\n\t\t\tsConn.EnqueueOutFrag(frag)\n\t\t\troutedFrags = routedFrags[:len(routedFrags)-1]\n\t\t}\n", "C03", "C03.1")
m("c03.2-count-before-done", CN, "\tif f.Done {\n\t\tlogging.Warnf(\"[%dm|%df][%dc|%ds] frag already done", "\tf.Peer.FragDoneNumber++\n\tif f.Done {\n\t\tlogging.Warnf(\"[%dm|%df][%dc|%ds] frag already done", ["C03", "C07", "C16"], "C03.2")
m("c03.3-flush-closed", EL, "\t\tif !c.opened {\n\t\t\tlogging.Warnf(\"[%dm|%df][%dc|%ds] client conn already closed\", r.MsgId(), r.Id, r.OwnerFd(), s.fd)\n\t\t\tcontinue\n\t\t}\n", "", "C03", "C03.3")
m("c03.4-dequeue-first", CS, "\trType, err := rc.readReply(buf)\n\tif err != nil {\n\t\treturn nil, err\n\t}\n\n\tf := s.DequeueInFrag()\n\tif f == nil {", "\tf := s.DequeueInFrag()\n\trType, err := rc.readReply(buf)\n\tif err != nil {\n\t\treturn nil, err\n\t}\n\n\tif f == nil {", "C03", "C03.4")
m("c03.5-owner-wrong", SC, "\t\trf.frag.Owner = c\n", "\t\trf.frag.Owner = r.Owner\n", "C03", "C03.5")
m("c03.5-peer-unfiled", CC, "\tfrag.Req = append(frag.Req[:0], buf.ReadBuf()...)\n\tresp.Body[slot] = frag\n\treturn nil\n}\n\nfunc (rc *CRespCodec) Default", "\tfrag.Req = append(frag.Req[:0], buf.ReadBuf()...)\n\tif slot >= 0 {\n\t\tresp.Body[slot] = FragPool.Get()\n\t}\n\treturn nil\n}\n\nfunc (rc *CRespCodec) Default", "C03", "C03.5")

# ---- C04 / C20
m("c04.1-del-readside", "core/codec/commands.go", "\tReqZscan\n\n\tReqWriteCmdStart /* redis write commands below */\n\tReqDel           /* redis commands - keys */\n", "\tReqZscan\n\tReqDel /* redis commands - keys */\n\n\tReqWriteCmdStart /* redis write commands below */\n", "C04", "C04.1")
m("c04.2-no-scan-excl", SC, "\tif r.Type == codec.ReqHscan || r.Type == codec.ReqSscan || r.Type == codec.ReqZscan {", "\tif r.Type == codec.ReqHscan || r.Type == codec.ReqSscan {", ["C04", "C20"], "C04.2")
m("c04.2-disable-negated", SC, "\tif ls.DisableSlave {\n", "\tif !ls.DisableSlave {\n", "C04", "C04.2")
m("c04.2-write-ge", SC, "\tif r.Type > codec.ReqWriteCmdStart {\n", "\tif r.Type > codec.ReqDel {\n", "C04", "C04.2")
m("c04.3-wrong-slot", SC, "\t\tsConn, err, retry, addr := ls.getConn(r, slot)\n", "\t\tsConn, err, retry, addr := ls.getConn(r, slot&0x3ff0)\n", "C04", "C04.3")
m("c04.4-slot-const", CC, "\tfrag.Req = append(frag.Req[:0], buf.ReadBuf()...)\n\tresp.Body[slot] = frag\n\treturn nil\n}\n\nfunc (rc *CRespCodec) Default", "\tfrag.Req = append(frag.Req[:0], buf.ReadBuf()...)\n\tresp.Body[slot+1] = frag\n\treturn nil\n}\n\nfunc (rc *CRespCodec) Default", "C04", "C04.4")
m("c04.5-no-step", SS, "\tif s.IsSlave() {\n\t\tstep++\n\t\tinitCmd += ReadOnly", "\tif s.IsSlave() {\n\t\tinitCmd += ReadOnly", "C04", "C04.5")
m("c04.5-readonly-always", SS, "\tif s.IsSlave() {\n\t\tstep++", "\tif s.IsSlave() || len(authCmd) > 0 {\n\t\tstep++", "C04", "C04.5")
m("c04.5-literal", SS, "const ReadOnly = \"*1\\r\\n$8\\r\\nREADONLY\\r\\n\"", "const ReadOnly = \"*1\\r\\n$9\\r\\nREADONLY\\r\\n\"", "C04", "C04.5")
m("c04.5-release", "core/redis_pool.go", "\t\tp.isSlave = isSlave\n\t\tp.Release()\n", "\t\tp.isSlave = isSlave\n", "C04", "C04.5")
m("c04.6-key", EL, "\t\t\t\tEngineGlobal.ProxyPool[k] = el.engine.newPool(k, isSlave)", "\t\t\t\tEngineGlobal.ProxyPool[v.Name] = el.engine.newPool(k, isSlave)", "C04", "C04.6")
m("c20.1-pick-in-loop", SC, "\t\t\tpool.AutoBanFlag = false\n\t\t\tliveSlaves = append(liveSlaves, v.Addr)\n\t\t}\n\t}\n\n\tif len(liveSlaves) > 0 {", "\t\t\tpool.AutoBanFlag = false\n\t\t\tliveSlaves = append(liveSlaves, v.Addr)\n\t\t\tbreak\n\t\t}\n\t}\n\n\tif len(liveSlaves) > 0 {", "C20", "C20.1")
m("c20.2-intn", SC, "\t\treturn liveSlaves[rand.Intn(len(liveSlaves))], true", "\t\treturn liveSlaves[rand.Intn(len(liveSlaves)+1)%len(liveSlaves)], true", "C20", "C20.2")
m("c20.3-no-reset", SC, "\tliveSlaves = liveSlaves[:0]\n\n\tfor _, v := range", "\tfor _, v := range", "C20", "C20.3")

# ---- C05
m("c05.1-table", "core/pkg/hashkit/crc16.go", "0x6e17, 0x7e36, 0x4e55, 0x5e74, 0x2e93, 0x3eb2, 0x0ed1, 0x1ef0,", "0x6e17, 0x7e36, 0x4e55, 0x5e74, 0x2e93, 0x3eb2, 0x0ed1, 0x1ef1,", "C05", "C05.1")
m("c05.3-empty-tag", "core/pkg/hashkit/crc16.go", "\t\tif e < 1 {\n", "\t\tif e < 0 {\n", "C05", "C05.3")
m("c05.3-last-brace", "core/pkg/hashkit/crc16.go", "\t\te := strings.Index(key[s+1:], \"}\")", "\t\te := strings.LastIndex(key[s+1:], \"}\")", "C05", "C05.3")
m("c05.4-eval-arg1", CC, "\t\tif i == 2 {\n", "\t\tif i == 1 {\n", "C05", "C05.4")

# ---- C06
m("c06.1-prepend", CC, "\t\t\tresp.Frags[slot] = append(v, seg)\n", "\t\t\tresp.Frags[slot] = append([]string{seg}, v...)\n", "C06", "C06.1")
m("c06.1-pair-swapped", CC, "\t\tsegArr := [2]string{seg, seg2}\n", "\t\tsegArr := [2]string{seg2, seg}\n", "C06", "C06.1")
m("c06.1-keys-dedupe", CC, "\t\tresp.Keys = append(resp.Keys, seg)\n\t\tslot := hashkit.Hash(seg)\n\t\tif v, ok := resp.Frags[slot]; ok {", "\t\tslot := hashkit.Hash(seg)\n\t\tif v, ok := resp.Frags[slot]; ok {", "C06", "C06.1")
m("c06.2-count", CC, "\t\tfrag.Req = append(frag.Req, strconv.Itoa(len(keys)+1)...)\n\t\tfrag.Req = append(frag.Req, \"\\r\\n$3\\r\\ndel\\r\\n\"...)", "\t\tfrag.Req = append(frag.Req, strconv.Itoa(len(keys))...)\n\t\tfrag.Req = append(frag.Req, \"\\r\\n$3\\r\\ndel\\r\\n\"...)", "C06", "C06.2")
m("c06.2-subslice", CC, "\t\tfrag.Req = append(frag.Req, \"\\r\\n$4\\r\\nmget\\r\\n\"...)\n\t\tfor _, k := range keys {", "\t\tfrag.Req = append(frag.Req, \"\\r\\n$4\\r\\nmget\\r\\n\"...)\n\t\tfor _, k := range keys[:len(keys)/2+1] {", "C06", "C06.2")
m("c06.2-len-off", CC, "\t\t\t\tfrag.Req = append(frag.Req, strconv.Itoa(len(k))...)\n\t\t\t\tfrag.Req = append(frag.Req, codec.LFCRByte...)\n\t\t\t\tfrag.Req = append(frag.Req, k...)", "\t\t\t\tfrag.Req = append(frag.Req, strconv.Itoa(len(k)+1)...)\n\t\t\t\tfrag.Req = append(frag.Req, codec.LFCRByte...)\n\t\t\t\tfrag.Req = append(frag.Req, k...)", "C06", "C06.2")
m("c06.2-literal", CC, "\"\\r\\n$4\\r\\nmset\\r\\n\"", "\"\\r\\n$4\\r\\nmget\\r\\n\" + \"\"", "C06", "C06.2")
m("c06.4-arity", "core/codec/commands.go", "\tReqMset: NargsEvenInf,", "\tReqMset: NargsInf,", "C06", "C06.4")
m("c06.4-even", "core/codec/commands.go", "\t\tif n < 2 || n%2 == 1 {", "\t\tif n < 2 {", "C06", "C06.4")

here = os.path.dirname(os.path.abspath(__file__))
json.dump(M, open(os.path.join(here, "mutations.json"), "w"), indent=1)
print(len(M), "mutations")

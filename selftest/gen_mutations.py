#!/usr/bin/env python3
# Seeded single-site mutations used to test that each rule fires (run: python3 gen_mutations.py > mutations.json is
# done by this script itself). Each: id, file, find (must occur exactly once), replace, properties to run, expected rule.
import json, os
M = []
def m(id, file, find, replace, props, rule, expect="fire"):
    M.append(dict(id=id, file=file, find=find, replace=replace, props=props if isinstance(props, list) else [props], rule=rule, expect=expect))

EL, CN, MS, CC, CS = "core/eventloop.go", "core/connection.go", "core/message.go", "core/codec_c.go", "core/codec_s.go"
SC, SS = "core/server/server_c.go", "core/server/server_s.go"

# ---- C01
m("c01.1-flush-next", EL, "\t\t\tcur = cur.prev\n\t\t}\n\t\tdoneCount", "\t\t\tcur = cur.next\n\t\t}\n\t\tdoneCount", "C01", "C01.1")
m("c01.1-alldone-tail", MS, "func (l *MsgQueue) AllDone() bool {\n\tcur := l.head", "func (l *MsgQueue) AllDone() bool {\n\tcur := l.tail", "C01", "C01.1")
m("c01.1-pop-next", MS, "func (l *MsgQueue) PopHead() {\n\tif l.count == 0 {\n\t\treturn\n\t}\n\tm := l.head\n\tl.count--\n\tif l.count == 0 {\n\t\tl.tail, l.head = nil, nil\n\t} else {\n\t\tm.prev.next = nil\n\t\tl.head = m.prev",
  "func (l *MsgQueue) PopHead() {\n\tif l.count == 0 {\n\t\treturn\n\t}\n\tm := l.head\n\tl.count--\n\tif l.count == 0 {\n\t\tl.tail, l.head = nil, nil\n\t} else {\n\t\tm.prev.next = nil\n\t\tl.head = m.next", "C01", "C01.1")
m("c01.2-enqueue-twice", SC, "\tc.EnqueueInMsg(r)\n\treturn\n}", "\tc.EnqueueInMsg(r)\n\tc.EnqueueInMsg(r)\n\treturn\n}", "C01", "C01.2")
m("c01.2-enqueue-early", SC, "\tcore.GlobalStats.ReqCmdIncr(r.Type)\n", "\tcore.GlobalStats.ReqCmdIncr(r.Type)\n\tc.EnqueueInMsg(r)\n", "C01", "C01.2")
m("c01.3-new-writer", EL, "\t\tif c.inMsgQueue.Empty() {\n\t\t\tlogging.Errorf(\"[%dm|%df][%dc|%ds] redis react happen but client inMsgQueue empty\"", "\t\tif c.inMsgQueue.Empty() {\n\t\t\t_, _ = c.write(r.RspBody)\n\t\t\tlogging.Errorf(\"[%dm|%df][%dc|%ds] redis react happen but client inMsgQueue empty\"", "C01", "C01.3")
m("c01.4-append-twice", EL, "\t\t\tbs = append(bs, cur.RspBody)\n", "\t\t\tbs = append(bs, cur.RspBody, cur.RspBody)\n", "C01", "C01.4")
m("c01.4-no-advance", EL, "\t\t\t\tbreak\n\t\t\t}\n\t\t\tbs = bs[r:]\n\t\t}\n\n\t\tif _, err = c.writev(bs); err != nil {\n\t\t\tlogging.Warnf(\"[%dm][%dc] write to client", "\t\t\t\tbreak\n\t\t\t}\n\t\t\tbs = bs[r-1:]\n\t\t}\n\n\t\tif _, err = c.writev(bs); err != nil {\n\t\t\tlogging.Warnf(\"[%dm][%dc] write to client", "C01", "C01.4")
m("c01.4-pop-all", EL, "\t\tfor ; doneCount > 0; doneCount-- {\n", "\t\tfor ; doneCount >= 0; doneCount = len(bs) {\n", "C01", "C01.4")
m("c01.4-collect-undone", EL, "\t\tfor cur != nil && cur.Done {\n", "\t\tfor cur != nil {\n", "C01", "C01.4")
m("c01.5-write-unguarded", CN, "\tif !c.outboundBuffer.IsEmpty() {\n\t\t_, _ = c.outboundBuffer.Write(data)\n\t\treturn\n\t}\n", "", ["C01", "C02", "C10"], "C01.5")
m("c01.5-writev-negated", CN, "\tif !c.outboundBuffer.IsEmpty() {\n\t\t_, _ = c.outboundBuffer.Writev(bs)\n\t\treturn\n\t}\n", "\tif c.outboundBuffer.IsEmpty() && n == 0 {\n\t\t_, _ = c.outboundBuffer.Writev(bs)\n\t\treturn\n\t}\n", "C01", "C01.5")
m("c01.6-bad-const", "core/codec/codec.go", "ErrUnKnownSlot                Error = \"-ERR unknown slot\\r\\n\"", "ErrUnKnownSlot                Error = \"-ERR unknown slot\\r\\n\\r\\n\"", "C01", "C01.6")

# ---- C02
m("c02.1-peekall", CC, "func (rc *CRespCodec) Default(c CConn, n int, resp *Msg, buf *codec.Buffer) error {\n\tvar key string\n\tvar slot int32\n\tfor i := 0; i < n; i++ {\n\t\tmsg, err := rc.parseLine(buf)\n\t\tif err != nil {\n\t\t\tif err == codec.ErrInvalidResp {\n\t\t\t\tlogging.Warnf(\"[%dm][%dc] unexpect resp, buf: %s\", resp.Id, c.Fd(), utils.FormatRedisRESPMessages(buf.PeekAll()))\n\t\t\t}\n\t\t\treturn err\n\t\t}\n\t\tif i == 0 {\n\t\t\tkey = string(msg)\n\t\t\tslot = hashkit.Hash(key)\n\t\t}\n\t}\n\tfrag := FragPool.Get()\n\tfrag.Key = key\n\tfrag.Peer = resp\n\tfrag.Req = append(frag.Req[:0], buf.ReadBuf()...)",
  "func (rc *CRespCodec) Default(c CConn, n int, resp *Msg, buf *codec.Buffer) error {\n\tvar key string\n\tvar slot int32\n\tfor i := 0; i < n; i++ {\n\t\tmsg, err := rc.parseLine(buf)\n\t\tif err != nil {\n\t\t\tif err == codec.ErrInvalidResp {\n\t\t\t\tlogging.Warnf(\"[%dm][%dc] unexpect resp, buf: %s\", resp.Id, c.Fd(), utils.FormatRedisRESPMessages(buf.PeekAll()))\n\t\t\t}\n\t\t\treturn err\n\t\t}\n\t\tif i == 0 {\n\t\t\tkey = string(msg)\n\t\t\tslot = hashkit.Hash(key)\n\t\t}\n\t}\n\tfrag := FragPool.Get()\n\tfrag.Key = key\n\tfrag.Peer = resp\n\tfrag.Req = append(frag.Req[:0], buf.PeekAll()...)", ["C02", "C12"], "C02.1")
m("c02.2-fold-args", CC, "\t\tif i == 0 {\n\t\t\tkey = string(msg)\n\t\t\tslot = hashkit.Hash(key)\n\t\t}\n\t}\n\tfrag := FragPool.Get()\n\tfrag.Key = key\n\tfrag.Peer = resp\n\tfrag.Req = append(frag.Req[:0], buf.ReadBuf()...)\n\tresp.Body[slot] = frag\n\treturn nil\n}\n\nfunc (rc *CRespCodec) MGet", "\t\tif i == 0 {\n\t\t\tkey = string(msg)\n\t\t\tslot = hashkit.Hash(key)\n\t\t} else if len(msg) > 0 && msg[0] == 'E' {\n\t\t\tmsg[0] = 'e'\n\t\t}\n\t}\n\tfrag := FragPool.Get()\n\tfrag.Key = key\n\tfrag.Peer = resp\n\tfrag.Req = append(frag.Req[:0], buf.ReadBuf()...)\n\tresp.Body[slot] = frag\n\treturn nil\n}\n\nfunc (rc *CRespCodec) MGet", "C02", "C02.2")
m("c02.3-relay-trim", CS, "\tmsg.RspBody = append(msg.RspBody[:0], f.RspBody...)\n\treturn nil\n}", "\tmsg.RspBody = append(msg.RspBody[:0], f.RspBody[:len(f.RspBody)-len(f.Key)%2]...)\n\treturn nil\n}", "C02", "C02.3")
m("c02.4-discard-total", CC, "\t_, _ = c.Discard(buf.ReadSize())\n\treturn resp, nil", "\t_, _ = c.Discard(buf.TotalSize())\n\treturn resp, nil", ["C02", "C08"], "C02.4")
m("c02.4-discard-early", CS, "\tf := s.DequeueInFrag()\n", "\ts.Discard(buf.ReadSize())\n\tf := s.DequeueInFrag()\n", ["C02", "C08"], "C02.4")
m("c02.5-spill-whole", CN, "\tif sent < n {\n\t\t_, _ = c.outboundBuffer.Write(data[sent:])", "\tif sent < n {\n\t\t_, _ = c.outboundBuffer.Write(data)", "C02", "C02.5")
m("c02.5-spill-off", CN, "\tif sent < n {\n\t\t_, _ = c.outboundBuffer.Write(data[sent:])", "\tif sent < n {\n\t\t_, _ = c.outboundBuffer.Write(data[sent+1:])", "C02", "C02.5")
m("c02.5-writev-pos", CN, "\t\t\t\tbs[i] = bs[i][sent:]\n\t\t\t\tpos = i\n", "\t\t\t\tbs[i] = bs[i][sent:]\n\t\t\t\tpos = i + 1\n", "C02", "C02.5")
m("c02.5-writev-nocut", CN, "\t\t\t\tbs[i] = bs[i][sent:]\n\t\t\t\tpos = i\n", "\t\t\t\tpos = i\n", "C02", "C02.5")
m("c02.5-writev-le", CN, "\t\t\tif sent < bn {\n", "\t\t\tif sent <= bn {\n", "C02", "C02.5")
m("c02.6-pushback-keep", "core/pkg/buffer/linkedlist/linked_list_buffer.go", "func (llb *Buffer) PushBack(p []byte) {\n\tn := len(p)\n\tif n == 0 {\n\t\treturn\n\t}\n\tb := bsPool.Get(n)\n\tcopy(b, p)\n\tllb.pushBack(&node{buf: b})", "func (llb *Buffer) PushBack(p []byte) {\n\tn := len(p)\n\tif n == 0 {\n\t\treturn\n\t}\n\tllb.pushBack(&node{buf: p})", "C02", "C02.6")

# ---- C03
m("c03.1-early-enqueue", SC, "\t\troutedFrags = append(routedFrags, routedFrag{frag: frag, sConn: sConn, addr: addr, slot: slot})\n", "\t\troutedFrags = append(routedFrags, routedFrag{frag: frag, sConn: sConn, addr: addr, slot: slot})\n\t\tif len(r.Body) > 8 {\n\t\t\tfrag.Owner = c\n\t\t\tsConn.EnqueueOutFrag(frag)\n\t\t\troutedFrags = routedFrags[:len(routedFrags)-1]\n\t\t}\n", "C03", "C03.1")
m("c03.2-count-before-done", CN, "\tif f.Done {\n\t\tlogging.Warnf(\"[%dm|%df][%dc|%ds] frag already done", "\tf.Peer.FragDoneNumber++\n\tif f.Done {\n\t\tlogging.Warnf(\"[%dm|%df][%dc|%ds] frag already done", ["C03", "C07", "C16"], "C03.2")
m("c03.3-flush-closed", EL, "\t\tif !c.opened {\n\t\t\tlogging.Warnf(\"[%dm|%df][%dc|%ds] client conn already closed\", r.MsgId(), r.Id, r.OwnerFd(), s.fd)\n\t\t\tcontinue\n\t\t}\n", "", "C03", "C03.3")
m("c03.4-dequeue-first", CS, "\trType, err := rc.readReply(buf)\n\tif err != nil {\n\t\treturn nil, err\n\t}\n\n\tf := s.DequeueInFrag()\n\tif f == nil {", "\tf := s.DequeueInFrag()\n\trType, err := rc.readReply(buf)\n\tif err != nil {\n\t\treturn nil, err\n\t}\n\n\tif f == nil {", "C03", "C03.4")
m("c03.5-owner-wrong", SC, "\t\trf.frag.Owner = c\n", "\t\trf.frag.Owner = r.Owner\n", "C03", "C03.5")
m("c03.5-peer-unfiled", CC, "\tfrag.Req = append(frag.Req[:0], buf.ReadBuf()...)\n\tresp.Body[slot] = frag\n\treturn nil\n}\n\nfunc (rc *CRespCodec) Default", "\tfrag.Req = append(frag.Req[:0], buf.ReadBuf()...)\n\tif slot >= 0 {\n\t\tresp.Body[slot] = FragPool.Get()\n\t}\n\treturn nil\n}\n\nfunc (rc *CRespCodec) Default", "C03", "C03.5")

# ---- C04 / C20
m("c04.1-del-readside", "core/codec/commands.go", "\tReqZscan\n\n\tReqWriteCmdStart /* redis write commands below */\n\tReqDel           /* redis commands - keys */\n", "\tReqZscan\n\tReqDel /* redis commands - keys */\n\n\tReqWriteCmdStart /* redis write commands below */\n", "C04", "C04.1")
m("c04.2-no-scan-excl", SC, "\tif r.Type == codec.ReqHscan || r.Type == codec.ReqSscan || r.Type == codec.ReqZscan {", "\tif r.Type == codec.ReqHscan || r.Type == codec.ReqSscan {", ["C04", "C20"], "C04.2")
m("c04.2-disable-negated", SC, "\tif ls.DisableSlave {\n", "\tif !ls.DisableSlave {\n", "C04", "C04.2")
m("c04.2-write-ge", SC, "\tif r.Type > codec.ReqWriteCmdStart {\n", "\tif r.Type > codec.ReqDel {\n", "C04", "C04.2")
m("c04.3-wrong-slot", SC, "\t\tsConn, err, retry, addr := ls.getConn(r, slot)\n", "\t\tsConn, err, retry, addr := ls.getConn(r, slot&0x3ff0)\n", "C04", "C04.3")
m("c04.4-slot-const", CC, "\tfrag.Req = append(frag.Req[:0], buf.ReadBuf()...)\n\tresp.Body[slot] = frag\n\treturn nil\n}\n\nfunc (rc *CRespCodec) Default", "\tfrag.Req = append(frag.Req[:0], buf.ReadBuf()...)\n\tresp.Body[slot+1] = frag\n\treturn nil\n}\n\nfunc (rc *CRespCodec) Default", "C04", "C04.4")
m("c04.5-no-step", SS, "\tif s.IsSlave() {\n\t\tstep++\n\t\tinitCmd += ReadOnly", "\tif s.IsSlave() {\n\t\tinitCmd += ReadOnly", "C04", "C04.5")
m("c04.5-readonly-always", SS, "\tif s.IsSlave() {\n\t\tstep++", "\tif s.IsSlave() || len(authCmd) > 0 {\n\t\tstep++", "C04", "C04.5")
m("c04.5-literal", SS, "const ReadOnly = \"*1\\r\\n$8\\r\\nREADONLY\\r\\n\"", "const ReadOnly = \"*1\\r\\n$9\\r\\nREADONLY\\r\\n\"", "C04", "C04.5")
m("c04.5-release", "core/redis_pool.go", "\t\tp.isSlave = isSlave\n\t\tp.Release()\n", "\t\tp.isSlave = isSlave\n", "C04", "C04.5")
m("c04.6-key", EL, "\t\t\t\tEngineGlobal.ProxyPool[k] = el.engine.newPool(k, isSlave)", "\t\t\t\tEngineGlobal.ProxyPool[v.Name] = el.engine.newPool(k, isSlave)", "C04", "C04.6")
m("c20.1-pick-in-loop", SC, "\t\t\tpool.AutoBanFlag = false\n\t\t\tliveSlaves = append(liveSlaves, v.Addr)\n\t\t}\n\t}\n\n\tif len(liveSlaves) > 0 {", "\t\t\tpool.AutoBanFlag = false\n\t\t\tliveSlaves = append(liveSlaves, v.Addr)\n\t\t\tbreak\n\t\t}\n\t}\n\n\tif len(liveSlaves) > 0 {", "C20", "C20.1")
m("c20.2-intn", SC, "\t\treturn liveSlaves[rand.Intn(len(liveSlaves))], true", "\t\treturn liveSlaves[rand.Intn(len(liveSlaves)+1)%len(liveSlaves)], true", "C20", "C20.2")
m("c20.3-no-reset", SC, "\tliveSlaves = liveSlaves[:0]\n\n\tfor _, v := range", "\tfor _, v := range", "C20", "C20.3")

# ---- C05
m("c05.1-table", "core/pkg/hashkit/crc16.go", "0x6e17, 0x7e36, 0x4e55, 0x5e74, 0x2e93, 0x3eb2, 0x0ed1, 0x1ef0,", "0x6e17, 0x7e36, 0x4e55, 0x5e74, 0x2e93, 0x3eb2, 0x0ed1, 0x1ef1,", "C05", "C05.1")
m("c05.3-empty-tag", "core/pkg/hashkit/crc16.go", "\t\tif e < 1 {\n", "\t\tif e < 0 {\n", "C05", "C05.3")
m("c05.3-last-brace", "core/pkg/hashkit/crc16.go", "\t\te := strings.Index(key[s+1:], \"}\")", "\t\te := strings.LastIndex(key[s+1:], \"}\")", "C05", "C05.3")
m("c05.4-eval-arg1", CC, "\t\tif i == 2 {\n", "\t\tif i == 1 {\n", "C05", "C05.4")

# ---- C06
m("c06.1-prepend", CC, "\t\t\tresp.Frags[slot] = append(v, seg)\n", "\t\t\tresp.Frags[slot] = append([]string{seg}, v...)\n", "C06", "C06.1")
m("c06.1-pair-swapped", CC, "\t\tsegArr := [2]string{seg, seg2}\n", "\t\tsegArr := [2]string{seg2, seg}\n", "C06", "C06.1")
m("c06.1-keys-dedupe", CC, "\t\tresp.Keys = append(resp.Keys, seg)\n\t\tslot := hashkit.Hash(seg)\n\t\tif v, ok := resp.Frags[slot]; ok {", "\t\tslot := hashkit.Hash(seg)\n\t\tif v, ok := resp.Frags[slot]; ok {", "C06", "C06.1")
m("c06.2-count", CC, "\t\tfrag.Req = append(frag.Req, strconv.Itoa(len(keys)+1)...)\n\t\tfrag.Req = append(frag.Req, \"\\r\\n$3\\r\\ndel\\r\\n\"...)", "\t\tfrag.Req = append(frag.Req, strconv.Itoa(len(keys))...)\n\t\tfrag.Req = append(frag.Req, \"\\r\\n$3\\r\\ndel\\r\\n\"...)", "C06", "C06.2")
m("c06.2-subslice", CC, "\t\tfrag.Req = append(frag.Req, \"\\r\\n$4\\r\\nmget\\r\\n\"...)\n\t\tfor _, k := range keys {", "\t\tfrag.Req = append(frag.Req, \"\\r\\n$4\\r\\nmget\\r\\n\"...)\n\t\tfor _, k := range keys[:len(keys)/2+1] {", "C06", "C06.2")
m("c06.2-len-off", CC, "\t\t\t\tfrag.Req = append(frag.Req, strconv.Itoa(len(k))...)\n\t\t\t\tfrag.Req = append(frag.Req, codec.LFCRByte...)\n\t\t\t\tfrag.Req = append(frag.Req, k...)", "\t\t\t\tfrag.Req = append(frag.Req, strconv.Itoa(len(k)+1)...)\n\t\t\t\tfrag.Req = append(frag.Req, codec.LFCRByte...)\n\t\t\t\tfrag.Req = append(frag.Req, k...)", "C06", "C06.2")
m("c06.2-literal", CC, "\"\\r\\n$4\\r\\nmset\\r\\n\"", "\"\\r\\n$4\\r\\nmget\\r\\n\" + \"\"", "C06", "C06.2")
m("c06.4-arity", "core/codec/commands.go", "\tReqMset: NargsEvenInf,", "\tReqMset: NargsInf,", "C06", "C06.4")
m("c06.4-even", "core/codec/commands.go", "\t\tif n < 2 || n%2 == 1 {", "\t\tif n < 2 {", "C06", "C06.4")

# ---- C03.6 / C03.7
m("c03.6-put-keeps-keys", MS, "\tm.Keys = m.Keys[:0]\n", "", ["C03", "C06"], "C03.6")
m("c03.6-reset-after", SC, "\troutedFrags = routedFrags[:0]\n\tfor slot, frag := range r.Body {", "\tfor slot, frag := range r.Body {", ["C03", "C01"], "C03.6")
m("c03.7-put-on-close", EL, "\tdelete(el.connections, c.fd)\n", "\tdelete(el.connections, c.fd)\n\tfor c.connType == ConnClient {\n\t\tmsg := c.dequeueInMsg()\n\t\tif msg == nil {\n\t\t\tbreak\n\t\t}\n\t\tMsgPool.Put(msg)\n\t}\n", ["C03", "C01"], "C03.7")

# ---- C07
m("c07.1-count-twice", CN, "\tf.Peer.FragDoneNumber++\n", "\tf.Peer.FragDoneNumber += 2\n", "C07", "C07.1")
m("c07.2-del-no-wait", CS, "\tif f.Peer.FragDoneNumber < len(f.Peer.Body) {\n\t\tlogging.Debugf(\"[%dm|%df][%dc|%ds] del frag done", "\tif f.Peer.FragDoneNumber < 1 {\n\t\tlogging.Debugf(\"[%dm|%df][%dc|%ds] del frag done", "C07", "C07.2")
m("c07.3-delnum-assign", CS, "\tf.Peer.DelNum += n\n", "\tf.Peer.DelNum = n\n", "C07", "C07.3")
m("c07.3-mset-last-only", CS, "\tfor _, v := range msg.Body {\n\t\tif !v.Ok {", "\tfor _, v := range msg.Body {\n\t\tif !v.Ok && v == f {", "C07", "C07.3")
m("c07.4-wrong-index", CS, "\t\t\t\tmsg.RspBody = append(msg.RspBody, msg.Body[slot].Rsp[i]...)\n\t\t\t\tbreak", "\t\t\t\tmsg.RspBody = append(msg.RspBody, msg.Body[slot].Rsp[len(msg.Frags[slot])-1-i]...)\n\t\t\t\tbreak", "C07", "C07.4")
m("c07.4-no-break", CS, "\t\t\t\tmsg.RspBody = append(msg.RspBody, msg.Body[slot].Rsp[i]...)\n\t\t\t\tbreak\n", "\t\t\t\tmsg.RspBody = append(msg.RspBody, msg.Body[slot].Rsp[i]...)\n", "C07", "C07.4")
m("c07.4-header-frags", CS, "\tmsg.RspBody = append(msg.RspBody, strconv.Itoa(len(msg.Keys))...)", "\tmsg.RspBody = append(msg.RspBody, strconv.Itoa(len(msg.Frags))...)", "C07", "C07.4")

# ---- C08
m("c08.1-save-always", EL, "\t\t// incomplete message, waiting for next event polling\n\t\tif err != nil {\n\t\t\tbreak\n\t\t}\n", "\t\t// incomplete message, waiting for next event polling\n\t\tif err != nil || len(c.buffer) == 0 {\n\t\t\tbreak\n\t\t}\n", "C08", "C08.1")
m("c08.2-shortline-invalid", CC, "\t\tcrlf, err := buf.ReadN(2)\n\t\tif err != nil {\n\t\t\treturn nil, codec.ShortLine\n\t\t}", "\t\tcrlf, err := buf.ReadN(2)\n\t\tif err != nil {\n\t\t\treturn nil, codec.ErrInvalidResp\n\t\t}", ["C08", "C12"], "C08.2")
m("c08.2-close-any-error", EL, "\t\tif err == codec.ErrInvalidResp {\n\t\t\tlogging.Warnf(\"[%dc] client closed because of invalid resp\", c.Fd())", "\t\tif err != nil && err != errors.New(\"x\") && len(c.buffer) > 4096 {\n\t\t\tlogging.Warnf(\"[%dc] client closed because of invalid resp\", c.Fd())", "C08", "C08.2")
m("c08.3-no-reset", "core/codec/buff.go", "func NewBuffer(bs []byte) *Buffer {\n\tbuffer.r = 0\n", "func NewBuffer(bs []byte) *Buffer {\n", "C08", "C08.3")
m("c08.4-no-reset-pool", "core/pkg/pool/ringbuffer/ringbuffer.go", "\tb.Reset()\n", "", "C08", "C08.4")

# ---- C09
m("c09.1-alldone", EL, "\t\tif !c.inMsgQueue.head.Done {\n", "\t\tif !c.inMsgQueue.AllDone() {\n", "C09", "C09.1")
m("c09.2-skip-gate", EL, "\t\tif c.inMsgQueue.Empty() {\n\t\t\tlogging.Errorf(\"[%dm|%df][%dc|%ds] redis react happen", "\t\tif r.Type == codec.RspBulk && c.inMsgQueue.count > 64 {\n\t\t\tcontinue\n\t\t}\n\t\tif c.inMsgQueue.Empty() {\n\t\t\tlogging.Errorf(\"[%dm|%df][%dc|%ds] redis react happen", "C09", "C09.2")

# ---- C10
m("c10.1-frag-pop-next", MS, "func (l *FragQueue) PopHead() {\n\tif l.count == 0 {\n\t\treturn\n\t}\n\tm := l.head\n\tl.count--\n\tif l.count == 0 {\n\t\tl.tail, l.head = nil, nil\n\t} else {\n\t\tm.prev.next = nil\n\t\tl.head = m.prev", "func (l *FragQueue) PopHead() {\n\tif l.count == 0 {\n\t\treturn\n\t}\n\tm := l.head\n\tl.count--\n\tif l.count == 0 {\n\t\tl.tail, l.head = nil, nil\n\t} else {\n\t\tm.prev.next = nil\n\t\tl.head = m.next", "C10", "C10.1")
m("c10.2-enqueue-before-pop", CN, "\t\tc.dequeueOutFrag()\n\t\tc.enqueueInFrag(head)\n", "\t\tc.enqueueInFrag(head)\n\t\tc.dequeueOutFrag()\n", "C10", "C10.2")
m("c10.2-prepend", CN, "\t\tbs = append(bs, head.Req)\n", "\t\tbs = append([][]byte{head.Req}, bs...)\n", "C10", "C10.2")
m("c10.3-deferred-push", CN, "func (c *conn) EnqueueOutFrag(f *Frag) {\n\tc.outFragQueue.PushTail(f)\n", "func (c *conn) EnqueueOutFrag(f *Frag) {\n\t_ = c.loop.poller.Trigger(func(_ interface{}) error { c.outFragQueue.PushTail(f); return nil }, nil)\n", "C10", "C10.3")

# ---- C11
m("c11.1-del-unguarded", CS, "\tif f.Type != codec.RspInteger {\n\t\tf.Done = true\n\t\tf.Error = fragError(f, codec.ErrUnKnown)\n\t\treturn nil\n\t}\n", "", "C11", "C11.1")
m("c11.3-no-done", CN, "\t\tmsg.RspBody = append(msg.RspBody[:0], msg.Error.Bytes()...)\n\t\tmsg.Done = true\n", "\t\tmsg.RspBody = append(msg.RspBody[:0], msg.Error.Bytes()...)\n", "C11", "C11.3")
m("c11.3-siblings", CN, "\t\tfor _, v := range msg.Body {\n\t\t\tv.Done = true\n\t\t}\n\t\treturn f, nil", "\t\treturn f, nil", "C11", "C11.3")
m("c11.4-continue", EL, "\t\t\t\tlogging.Errorf(\"[%ds] redis response parse failed, close the connection, error: %s\", s.fd, err)\n\t\t\t\treturn el.closeConn(s, err, ConnErr)", "\t\t\t\tlogging.Errorf(\"[%ds] redis response parse failed, close the connection, error: %s\", s.fd, err)\n\t\t\t\tcontinue", "C11", "C11.4")

# ---- C12
m("c12.1-nilnil", CC, "\t\tif n < 0 {\n\t\t\treturn nil, codec.ErrInvalidResp\n\t\t}", "\t\tif n < 0 {\n\t\t\treturn nil, err\n\t\t}", "C12", "C12.1")
m("c12.1-sdecode", CS, "\tif f == nil {\n\t\tlogging.Errorf(\"[%ds] empty inFragQueue, rsp: %s\", s.Fd(), utils.FormatRedisRESPMessages(buf.PeekAll()))\n\t\treturn nil, codec.ErrUnKnown\n\t}\n", "", "C12", "C12.1")
m("c12.3-readn-sum", "core/codec/buff.go", "\tif n > b.leftSize() {\n\t\treturn nil, ShortLine\n\t}\n\tr := b.r", "\tif b.r+n > len(b.buf) {\n\t\treturn nil, ShortLine\n\t}\n\tr := b.r", "C12", "C12.3")
m("c12.5-oncreact-any", EL, "\t\t// incomplete message, waiting for next event polling\n\t\tif err != nil {\n\t\t\tbreak\n\t\t}\n", "\t\t// incomplete message, waiting for next event polling\n\t\tif err != nil && r == nil && len(c.buffer) < 1 {\n\t\t\tbreak\n\t\t}\n", "C12", "C12.5")

# ---- C13
m("c13.1-count-redirect", CN, "\tswitch f.Type {\n\tcase codec.RspMoved, codec.RspAsk:", "\tswitch f.Type {\n\tcase codec.RspMoved:", "C13", "C13.1")
m("c13.2-asking-after", SC, "\t\tsConn.EnqueueOutFrag(asking)\n\t}\n\n\tsConn.EnqueueOutFrag(f)\n", "\t}\n\n\tsConn.EnqueueOutFrag(f)\n", "C13", "C13.2")
m("c13.2-no-discard", SC, "\t\tasking.Discard = true\n", "", "C13", "C13.2")
m("c13.2-discard-late", EL, "\t\tif r.Discard {\n\t\t\tcontinue\n\t\t}\n\n\t\tif r.Owner == nil {", "\t\tif r.Owner == nil && !r.Discard {", "C13", "C13.2")
m("c13.4-offset", MS, "\tcase codec.RspAsk:\n\t\ti = 5", "\tcase codec.RspAsk:\n\t\ti = 6", "C13", "C13.4")

# ---- C14
m("c14.1-return", "core/cluster.go", "\t\t\tif length > 163840 {\n\t\t\t\tlogging.Errorf(\"[cluster loop] update cluster nodes: nodes info too large > 163840\")\n\t\t\t\tcontinue", "\t\t\tif length > 163840 {\n\t\t\t\tlogging.Errorf(\"[cluster loop] update cluster nodes: nodes info too large > 163840\")\n\t\t\t\treturn", "C14", "C14.1")
m("c14.2-no-fail", "core/cluster.go", "\t\tif strings.Contains(xs[2], \"fail\") {\n\t\t\tlogging.Warnf(\"[cluster loop] skip redis node because the flag marked as fail, line: %+v\", xs)\n\t\t\tcontinue\n\t\t}\n", "", "C14", "C14.2")
m("c14.2-wrong-col", "core/cluster.go", "\t\tif strings.Contains(xs[7], \"disconnected\") {", "\t\tif strings.Contains(xs[6], \"disconnected\") {", "C14", "C14.2")
m("c14.2-loading-and", "core/cluster.go", "\t\t\tif node.Role == Slave && info.Loading {", "\t\t\tif node.Role == Slave && info.Loading && info.MasterLinkStatus != \"up\" {", "C14", "C14.2")
m("c14.3-changed-early", "core/cluster.go", "\tif c.isChanged(allNodes) {\n\t\tc.setServer(allNodes)\n\t\tc.setReplicaset(allNodes)\n\t\tc.serverChanged = true\n\t}", "\tif c.isChanged(allNodes) {\n\t\tc.serverChanged = true\n\t\tc.setServer(allNodes)\n\t\tc.setReplicaset(allNodes)\n\t}", "C14", "C14.3")
m("c14.3-threshold", "core/cluster.go", "\tif len(allNodes) < 3 {\n\t\treturn nil, errors.New(\"not enough nodes\")\n\t}\n", "", "C14", "C14.3")
m("c14.4-no-slots", "core/cluster.go", "fmt.Sprintf(\"%s#%d#%s#%v\", n.Addr, n.Role, n.Name, n.Slots)", "fmt.Sprintf(\"%s#%d#%s#%d\", n.Addr, n.Role, n.Name, len(n.Slots))", "C14", "C14.4")
m("c14.5-no-upper", "core/cluster.go", "\tif start < 0 || start > end || end >= constant.RedisClusterSlots {", "\tif start < 0 || start > end || end >= constant.RedisClusterSlots*4 {", "C14", "C14.5")
m("c14.6-no-reset", EL, "\t\tEngineGlobal.Slots2Node.Reset()\n", "", ["C14", "C04"], "C14.6")
m("c14.6-no-close", EL, "\t\t\t\tv.Close()\n\t\t\t\tdelete(EngineGlobal.ProxyPool, k)", "\t\t\t\t_ = v\n\t\t\t\tdelete(EngineGlobal.ProxyPool, k)", ["C14", "C15"], "C14.6")
m("c14.7-no-notexist", SC, "\t\tif core.EngineGlobal.Slots2Node.NotExist(slot) {", "\t\tif core.EngineGlobal.Slots2Node.NotExist(slot) && r.Type > codec.ReqWriteCmdStart {", "C14", "C14.7")
m("c14.8-blocking-send", EL, "\t\t\tselect {\n\t\t\tcase EngineGlobal.clusterChan <- r.RspBody:\n\t\t\tdefault:\n\t\t\t\tlogging.Warnf(\"[%dm|%df][%dc|%ds] cluster info channel blocked, cannot write\", r.MsgId(), r.Id, r.OwnerFd(), s.fd)\n\t\t\t}", "\t\t\tEngineGlobal.clusterChan <- r.RspBody", "C14", "C14.8")

# ---- C15 / C16
m("c15.3-no-open-test", "core/redis_pool.go", "\t\tif !pc.c.IsOpened() {\n\t\t\tcontinue\n\t\t}\n", "", "C15", "C15.3")
m("c15.3-drop-initializing", "core/redis_pool.go", "\t\tif !pc.c.IsOpened() {\n", "\t\tif !pc.c.IsOpened() || pc.c.InitializeStatus() != Initialized {\n", ["C15", "C10"], "C15.3")
m("c15.5-silent-fail", SC, "\t\t\t\tcase codec.UnKnownProxyPoolConn:\n\t\t\t\t\tlogging.Errorf(\"[%dm|%df][%dc] redis node %s dial failed\", r.Id, frag.Id, c.Fd(), addr)\n\t\t\t\t\treturn codec.ErrUnKnownProxyPoolConnError.Bytes(), core.None", "\t\t\t\tcase codec.UnKnownProxyPoolConn:\n\t\t\t\t\tlogging.Errorf(\"[%dm|%df][%dc] redis node %s dial failed\", r.Id, frag.Id, c.Fd(), addr)\n\t\t\t\t\treturn nil, core.None", ["C15", "C01"], "C15.5")
m("c16.3-timeout-done", EL, "\t\tif frag.Done {\n\t\t\tdeleteFromTimeoutQueue(frag)\n\t\t\tcontinue\n\t\t}\n", "", "C16", "C16.3")
m("c16.4-no-delete", CN, "\tc.inFragQueue.PopHead()\n\tdeleteFromTimeoutQueue(f)\n", "\tc.inFragQueue.PopHead()\n", "C16", "C16.4")
m("c16.4-push-on-enqueue", CN, "func (c *conn) EnqueueOutFrag(f *Frag) {\n\tc.outFragQueue.PushTail(f)\n", "func (c *conn) EnqueueOutFrag(f *Frag) {\n\tc.outFragQueue.PushTail(f)\n\tpushToTimeoutQueue(f, c.loop.engine.opts.RedisRequestTimeout)\n", "C16", "C16.4")

# ---- C17 / C18
m("c17.1-capital", "core/codec/commands.go", "\t\"hgetall\":          ReqHgetall,", "\t\"hgetAll\":          ReqHgetall,", "C17", "C17.1")
m("c17.1-no-arity", "core/codec/commands.go", "\tReqLinsert: Nargs3,\n", "", "C17", "C17.1")
m("c17.1-cross-name", "core/codec/commands.go", "\tReqHkeys:            \"hkeys\",", "\tReqHkeys:            \"hvals\",", "C17", "C17.1")
m("c17.2-no-arity-case", SC, "\tcase codec.ReqWrongArgumentsNumber:\n\t\tlogging.Infof(\"[%dm][%dc] wrong arguments number, type: %d, body: %s\", r.Id, c.Fd(), r.Type, r.BodyString())\n\t\treturn codec.ErrMsgReqWrongArgumentsNumber.Bytes(), core.None\n", "", ["C17", "C12"], "C17.2")
m("c17.3-total", CC, "\tif rc.sizeTooLarge(buf.ReadSize()) {\n\t\tresp.Type = codec.ReqTooLarge", "\tif rc.sizeTooLarge(buf.TotalSize()) {\n\t\tresp.Type = codec.ReqTooLarge", "C17", "C17.3")
m("c17.4-no-rsp-limit", CN, "\tif EngineGlobal.sCodec.sizeTooLarge(len(f.RspBody)) {\n\t\tf.Error = codec.ErrMsgRspTooLarge\n\t}\n", "", "C17", "C17.4")
m("c17.5-lookup-first", "core/codec/commands.go", "func Transform2Type(command []byte, n int) Command {\n\ttoLower(command)\n\tif v, ok := CommandStr2Type[string(command)]; ok {", "func Transform2Type(command []byte, n int) Command {\n\tif v, ok := CommandStr2Type[string(command)]; ok {\n\t\ttoLower(command)", "C17", "C17.5")
m("c18.1-none-on-reject", SC, "\t\tlogging.Warnf(\"[%dc] unauthorized access from %s\", c.Fd(), access[0])\n\t\treturn nil, core.Close", "\t\tlogging.Warnf(\"[%dc] unauthorized access from %s\", c.Fd(), access[0])\n\t\treturn nil, core.None", "C18", "C18.1")
m("c18.1-validate-inverted", "core/authip/authip.go", "\tif i.enable {\n\t\tif _, ok := i.Get(ip); !ok {", "\tif !i.enable {\n\t\tif _, ok := i.Get(ip); !ok {", "C18", "C18.1")
m("c18.2-no-delete", "core/authip/authip.go", "\t\t\t\tIpMap.Del(kv.Key)\n", "", "C18", "C18.2")
m("c18.3-no-write", "core/authip/authip.go", "\t\t\t\t\tcase ev.Op&fsnotify.Write == fsnotify.Write:\n\t\t\t\t\t\tfallthrough\n", "", "C18", "C18.3")

# ---- coverage-extending rules
m("c04.7-status", SS, "\t\ts.SetInitializeStatus(core.Initializing)\n", "\t\ts.SetInitializeStatus(core.Initialized)\n", "C04", "C04.7")
m("c04.7-order", CN, "\tif c.InitializeStatus() == Initializing {\n", "\tif c.InitializeStatus() == InitializeNone {\n", "C04", "C04.7")
m("c04.7-partial-ok", CS, "\tif (buf.TotalSize() >= int(totalStep)*codec.OK.Len()) && (strings.HasPrefix(utils.B2S(buf.PeekAll()), ShortcutOK[totalStep])) {", "\tif strings.HasPrefix(utils.B2S(buf.PeekAll()), codec.OK.String()) {", "C04", "C04.7")
m("c08.5-buffer-len", EL, "\tc.buffer = el.buffer[:n]\n", "\tc.buffer = el.buffer[:len(el.buffer)]\n", "C08", "C08.5")
m("c12.4-digits", "core/codec.go", "\t\tif b < '0' || b > '9' {", "\t\tif b < '+' || b > '9' {", "C12", "C12.4")
m("c17.7-arity-lt", "core/codec/commands.go", "\t\tif int(nargs) != n {", "\t\tif int(nargs) > n {", "C17", "C17.7")
m("c17.7-miss-get", "core/codec/commands.go", "\t\treturn checkArgs(v, n)\n\t}\n\treturn UNKNOWN\n}", "\t\treturn checkArgs(v, n)\n\t}\n\treturn ReqGet\n}", "C17", "C17.7")


# ---- C19 (buffers) and the rules added after the third round
LL, RB, ERL = "core/pkg/buffer/linkedlist/linked_list_buffer.go", "core/pkg/buffer/ring/ring_buffer.go", "core/pkg/buffer/elastic/elastic_ring_list_buffer.go"
m("c19.1-pop-keeps-tail", LL, "\tllb.head = b.next\n\tif llb.head == nil {\n\t\tllb.tail = nil\n\t}\n", "\tllb.head = b.next\n", "C19", "C19.1")
m("c19.1-pushfront-no-tail", LL, "\tif llb.head == nil {\n\t\tb.next = nil\n\t\tllb.tail = b\n\t} else {", "\tif llb.head == nil {\n\t\tb.next = nil\n\t} else {", "C19", "C19.1")
m("c19.1-peek-from-tail", LL, "\tvar cum int\n\tfor iter := llb.head; iter != nil; iter = iter.next {\n\t\tllb.bs = append(llb.bs, iter.buf)\n\t\tif cum += iter.len(); cum >= maxBytes {\n\t\t\tbreak\n\t\t}\n\t}\n\treturn llb.bs\n}\n\n// PeekWithBytes", "\tvar cum int\n\tfor iter := llb.tail; iter != nil; iter = iter.next {\n\t\tllb.bs = append(llb.bs, iter.buf)\n\t\tif cum += iter.len(); cum >= maxBytes {\n\t\t\tbreak\n\t\t}\n\t}\n\treturn llb.bs\n}\n\n// PeekWithBytes", "C19", "C19.1")
m("c19.1-pop-returns-new-head", LL, "\tb := llb.head\n\tllb.head = b.next\n", "\tllb.head = llb.head.next\n\tb := llb.head\n\tif b == nil {\n\t\treturn nil\n\t}\n", "C19", "C19.1")
m("c19.2-pop-no-bytes", LL, "\tllb.size--\n\tllb.bytes -= b.len()\n", "\tllb.size--\n", "C19", "C19.2")
m("c19.2-pushback-one", LL, "\tb.next = nil\n\tllb.tail = b\n\tllb.size++\n\tllb.bytes += b.len()\n", "\tb.next = nil\n\tllb.tail = b\n\tllb.size++\n\tllb.bytes += llb.size\n", "C19", "C19.2")
m("c19.2-discard-no-putback", LL, "\t\t\tb.buf = b.buf[n:]\n\t\t\tdiscarded += n\n\t\t\tllb.pushFront(b)\n", "\t\t\tb.buf = b.buf[n:]\n\t\t\tdiscarded += n\n", "C19", "C19.2")
m("c19.3-grow-n", RB, "\t\trb.grow(rb.size + n - free)\n", "\t\trb.grow(n)\n", "C19", "C19.3")
m("c19.3-check-size", RB, "\tfree := rb.Available()\n\tif n > free {", "\tfree := rb.Available()\n\tif n > rb.size {", "C19", "C19.3")
m("c19.4-oldlen-after", RB, "\toldLen := rb.Buffered()\n\t_, _ = rb.Read(newBuf)\n", "\t_, _ = rb.Read(newBuf)\n\toldLen := rb.Buffered()\n", "C19", "C19.4")
m("c19.4-no-move", RB, "\t_, _ = rb.Read(newBuf)\n\tbsPool.Put(rb.buf)\n", "\tbsPool.Put(rb.buf)\n", "C19", "C19.4")
m("c19.4-stays-empty", RB, "\trb.size = newCap\n\tif rb.w > 0 {\n\t\trb.isEmpty = false\n\t}\n", "\trb.size = newCap\n", "C19", "C19.4")
m("c19.5-discard-le", RB, "\tdiscarded = rb.Buffered()\n\tif n < discarded {", "\tdiscarded = rb.Buffered()\n\tif n <= discarded {", "C19", "C19.5")
m("c19.5-read-no-reset", RB, "\t\tcopy(p, rb.buf[rb.r:rb.r+n])\n\t\trb.r += n\n\t\tif rb.r == rb.w {\n\t\t\trb.Reset()\n\t\t}\n\t\treturn\n", "\t\tcopy(p, rb.buf[rb.r:rb.r+n])\n\t\trb.r += n\n\t\treturn\n", "C19", "C19.5")
m("c19.5-write-nothing", RB, "\tn = len(p)\n\tif n == 0 {\n\t\treturn\n\t}\n\n\tfree := rb.Available()", "\tn = len(p)\n\n\tfree := rb.Available()", "C19", "C19.5")
m("c19.6-peekall-swap", RB, "\thead = rb.buf[rb.r:]\n\tif rb.w != 0 {\n\t\ttail = rb.buf[:rb.w]\n\t}\n\n\treturn\n}", "\ttail = rb.buf[rb.r:]\n\tif rb.w != 0 {\n\t\thead = rb.buf[:rb.w]\n\t}\n\n\treturn\n}", "C19", "C19.6")
m("c19.6-read-offset", RB, "\t\tcopy(p[c1:], rb.buf[:c2])\n", "\t\tcopy(p[c2:], rb.buf[:c2])\n", "C19", "C19.6")
m("c19.6-conn-peek-order", CN, "\tc.loop.cache.Reset()\n\tc.loop.cache.Write(head)\n\tc.loop.cache.Write(tail)\n\tif inBufferLen >= n {\n\t\treturn c.loop.cache.Bytes(), err\n\t}\n\n\tremaining := n - inBufferLen\n\tc.loop.cache.Write(c.buffer[:remaining])\n\treturn c.loop.cache.Bytes(), err\n}", "\tc.loop.cache.Reset()\n\tc.loop.cache.Write(tail)\n\tc.loop.cache.Write(head)\n\tif inBufferLen >= n {\n\t\treturn c.loop.cache.Bytes(), err\n\t}\n\n\tremaining := n - inBufferLen\n\tc.loop.cache.Write(c.buffer[:remaining])\n\treturn c.loop.cache.Bytes(), err\n}", ["C19", "C08"], "C19.6")
m("c19.7-discard-whole-n", ERL, "\tn -= discarded\n\tvar m int\n", "\tvar m int\n", "C19", "C19.7")
m("c19.7-peek-tail-first", ERL, "\treturn mb.listBuffer.PeekWithBytes(n, head, tail)\n", "\treturn mb.listBuffer.PeekWithBytes(n, tail, head)\n", "C19", "C19.7")
m("c19.7-isempty-or", ERL, "\treturn mb.ringBuffer.IsEmpty() && mb.listBuffer.IsEmpty()\n", "\treturn mb.ringBuffer.IsEmpty() || mb.listBuffer.IsEmpty()\n", ["C19", "C01"], "C19.7")
m("c19.7-buffered-ring-only", ERL, "\treturn mb.ringBuffer.Buffered() + mb.listBuffer.Buffered()\n", "\treturn mb.ringBuffer.Buffered()\n", "C19", "C19.7")
m("c19.8-grow-less", RB, "\t\tif newCap <= doubleCap {\n", "\t\tif newCap >= doubleCap {\n", "C19", "C19.8")
m("c09.5-backlog-skip", EL, "\t\tif !c.inMsgQueue.head.Done {\n\t\t\tcontinue\n\t\t}\n", "\t\tif !c.inMsgQueue.head.Done {\n\t\t\tcontinue\n\t\t}\n\t\tif c.outboundBuffer.Buffered() > 65536 {\n\t\t\tcontinue\n\t\t}\n", "C09", "C09.5")
m("c15.7-retry-loop", SC, "\t\t\tif retry {\n\t\t\t\tsConn, err, _, addr = ls.getConn(r, slot)\n\t\t\t}\n", "\t\t\tfor retry && err != nil {\n\t\t\t\tsConn, err, retry, addr = ls.getConn(r, slot)\n\t\t\t}\n", "C15", "C15.7")
m("c16.6-arm-once", MS, "\tmsg.Timeout = time.Now().Add(time.Duration(timeout) * time.Millisecond)\n\ttimeoutTree.ReplaceOrInsert(msg)\n", "\tif msg.Timeout.IsZero() {\n\t\tmsg.Timeout = time.Now().Add(time.Duration(timeout) * time.Millisecond)\n\t\ttimeoutTree.ReplaceOrInsert(msg)\n\t}\n", ["C16", "C15"], "C16.6")
m("c17.4-merged-frag-len", CS, "\tif len(msg.RspBody) > rc.MsgMaxLength {\n\t\tmsg.Error = codec.ErrMsgRspTooLarge", "\tif len(f.RspBody) > rc.MsgMaxLength {\n\t\tmsg.Error = codec.ErrMsgRspTooLarge", "C17", "C17.4")
m("c01.7-eagain-err", CN, "\t\tif err == unix.EAGAIN {\n\t\t\t_, _ = c.outboundBuffer.Write(data)\n\t\t\terr = c.loop.poller.ModReadWrite(c.pollAttachment)\n\t\t\treturn\n", "\t\tif err == unix.EAGAIN {\n\t\t\t_, _ = c.outboundBuffer.Write(data)\n\t\t\t_ = c.loop.poller.ModReadWrite(c.pollAttachment)\n\t\t\treturn\n", "C01", "C01.7")
m("c04.8-release-master-only", "core/redis_pool.go", "\t\tp.isSlave = isSlave\n\t\tp.Release()\n", "\t\tp.isSlave = isSlave\n\t\tif !isSlave {\n\t\t\tp.Release()\n\t\t}\n", "C04", "C04.8")
m("c10.4-direct-inflight", CN, "func (c *conn) EnqueueOutFrag(f *Frag) {\n\tc.outFragQueue.PushTail(f)\n", "func (c *conn) EnqueueOutFrag(f *Frag) {\n\tif c.outFragQueue.count == 0 && c.outboundBuffer.IsEmpty() {\n\t\tc.enqueueInFrag(f)\n\t\t_, _ = c.write(f.Req)\n\t\treturn\n\t}\n\tc.outFragQueue.PushTail(f)\n", "C10", "C10.4")
m("c12.6-make-n", CC, "\tresp.Frags = make(map[int32][]string, n)\n", "\tresp.Frags = make(map[int32][]string, n)\n\tresp.Keys = make([]string, 0, n)\n", "C12", "C12.6")

here = os.path.dirname(os.path.abspath(__file__))
json.dump(M, open(os.path.join(here, "mutations.json"), "w"), indent=1)
print(len(M), "mutations")

#!/usr/bin/env python3
"""Regenerates the machine-derived parts of DESIGN.md: the per-property rule lists (from `rcvet list`) and the
table of seeded changes (from seeded/*/meta.json and the last self-test result). The hand-written parts live in
docs/design_*.md fragments and are concatenated unchanged."""
import json, os, subprocess, glob, re, sys
V="/verif"
def rules():
    out=subprocess.run([V+"/bin/rcvet","list"],capture_output=True,text=True).stdout
    props={}; cur=None
    for l in out.splitlines():
        m=re.match(r'^(C\d+) (.*)$',l)
        if m: cur=m.group(1); props[cur]={"title":m.group(2),"rules":[]}; continue
        m=re.match(r'^\s+(\S+)\s+\[(.*?)\] (.*)$',l)
        if m and cur: props[cur]["rules"].append(m.groups())
    return props
def seeds(selftest_json):
    res={}
    if selftest_json and os.path.exists(selftest_json):
        for r in json.load(open(selftest_json)): res[r["id"]]=r
    rows=[]
    for d in sorted(glob.glob(V+"/seeded/*")):
        mp=os.path.join(d,"meta.json")
        if not os.path.exists(mp): continue
        m=json.load(open(mp)); sid=os.path.basename(d); r=res.get(sid,{})
        rows.append((sid,m.get("property",""),m.get("summary","").replace("\n"," ").replace("|","/")[:230],",".join(x.split(":")[1] for x in r.get("rules_hit",[]) ) or "-",r.get("status","not run"),m.get("expect","fire")))
    return rows
if __name__=="__main__":
    st=sys.argv[1] if len(sys.argv)>1 else ""
    P=rules()
    parts=[]
    for name in ["design_0_intro.md","design_1_machinery.md"]:
        parts.append(open(V+"/docs/"+name).read())
    # section 4
    notes=json.load(open(V+"/docs/design_4_notes.json"))
    s=["## 4. Per-property rules (as built)\n","Each rule is listed with its engine(s) (section 2.2). A rule id keeps the property it was designed for, even when it also serves other properties (listed again there). `Today` is the verdict on the current tree of /repo (after the `fix:` commits of section 5); `Not decided` lists the clauses of the property that a pass does **not** cover.\n"]
    for pid in sorted(P):
        s.append(f"### {pid} — {P[pid]['title']}\n")
        for rid,eng,txt in P[pid]["rules"]:
            if rid=="X00": continue
            own = rid.startswith(pid+".")
            s.append(f"* **{rid}** *({eng})* — {txt}." + ("" if own else "  *(shared)*"))
        n=notes.get(pid,{})
        s.append("")
        if n.get("why"): s.append("Why these are necessary conditions: "+n["why"]+"\n")
        s.append("Today: "+n.get("today","all obligations discharged.")+"\n")
        s.append("Not decided: "+n.get("not","")+"\n")
    parts.append("\n".join(s))
    parts.append(open(V+"/docs/design_5_findings.md").read())
    # section 6 with seed table
    sec6=open(V+"/docs/design_6_selftest.md").read()
    rows=seeds(st)
    tbl=["| seed | property | change (summary) | rule(s) that fire | self-test |","|---|---|---|---|---|"]
    for sid,prop,summ,hit,status,expect in rows:
        if sid.startswith("ref"): continue
        tbl.append(f"| {sid} | {prop} | {summ} | {hit} | {status} |")
    ref=[r for r in rows if r[0].startswith("ref")]
    tbl2=["| refactoring | what it does | result |","|---|---|---|"]
    for sid,prop,summ,hit,status,expect in ref:
        tbl2.append(f"| {sid} | {summ} | {status} |")
    sec6=sec6.replace("@@SEED_TABLE@@","\n".join(tbl)).replace("@@REF_TABLE@@","\n".join(tbl2))
    parts.append(sec6)
    parts.append(open(V+"/docs/design_7_limits.md").read())
    open(V+"/DESIGN.md","w").write("\n".join(parts))
    print("DESIGN.md written:",sum(len(p) for p in parts),"bytes")

#!/usr/bin/env python3
"""Copies the patches of a refactoring agent (/tmp/out-<name>/<i>/{patch.diff,note.txt}) to seeded/<name>-<i> with expect=silent."""
import json, os, shutil, sys
name = sys.argv[1]; src = sys.argv[2]; rnd = sys.argv[3] if len(sys.argv) > 3 else "third round"
props = [f"C{i:02d}" for i in range(1, 21)]
claimed = [p for p in props if p in json.load(open('/verif/MANIFEST.json'))['checks'].__str__() or True]
man = json.load(open('/verif/MANIFEST.json'))
claimed = sorted(c['property_id'] for c in man['checks'])
for i in sorted(os.listdir(src)):
    d = os.path.join(src, i)
    if not os.path.isfile(os.path.join(d, 'patch.diff')): continue
    out = f"/verif/seeded/{name}-{i}"
    os.makedirs(out, exist_ok=True)
    shutil.copy(os.path.join(d, 'patch.diff'), out)
    note = open(os.path.join(d, 'note.txt')).read().strip() if os.path.exists(os.path.join(d, 'note.txt')) else ''
    json.dump({"id": f"{name}-{i}", "property": "(none: behaviour-preserving refactoring)",
               "source": f"independent sub-agent asked for structural behaviour-preserving refactorings of one area of the code ({rnd}); builds, suite unchanged",
               "summary": note, "checks": claimed, "expected_rule": "", "expect": "silent", "detected_by": "",
               "note": "used to measure false alarms: every check must stay silent on it"}, open(os.path.join(out, 'meta.json'), 'w'), indent=1)
    print(out)

#!/usr/bin/env python3
"""Writes /verif/MANIFEST.json from the table below (kept in one place so the file stays valid)."""
import json, subprocess, sys

ENV = "GOFLAGS=-mod=mod GOPROXY=off GOSUMDB=off GOTOOLCHAIN=local"
TECH = "static analysis: repository-specific rules over go/types + go/ssa (CFG dominance and path queries, who-may-call/who-may-write tables, value-flow, constant tables)"

# property -> (text of the level claim, design section)
CLAIMED = {}
NOT_APPLICABLE = {}

def claim(pid, text):
    CLAIMED[pid] = text

import os
sys.path.insert(0, os.path.dirname(__file__))
from manifest_claims import CLAIMS, PENDING
for k, v in CLAIMS.items():
    claim(k, v)
for k, v in PENDING.items():
    NOT_APPLICABLE[k] = v

checks = []
for pid in sorted(CLAIMED):
    checks.append({
        "property_id": pid,
        "quick_cmd": f"/verif/bin/rcvet check -p {pid} -tier quick",
        "thorough_cmd": f"/verif/bin/rcvet check -p {pid} -tier thorough",
        "evidence_file": f"/verif/evidence/{pid}.json",
        "replay_cmd_template": f"/verif/bin/rcvet check -p {pid} -v -no-evidence  # details of the last violation: {{path}}",
        "engine": "rcvet",
        "level_claimed": {"category": "other", "text": CLAIMED[pid], "design_ref": f"DESIGN.md section 4, {pid}"},
        "level_note": "Trusted: go/types, go/packages and golang.org/x/tools/go/ssa v0.29.0 report the program the go tool builds (linux/amd64; default tags, and -tags poll_opt in the thorough tier); the rule implementations and frozen tables in /verif/checker. A pass means every structural obligation listed for the property holds at every construct of the current tree; it is a set of necessary conditions, not a proof of the behavioural property. Undecidable trees (type errors, unresolved anchors, unrecognised idioms) fail.",
        "technique": TECH,
    })

manifest = {
    "version": 1,
    "setup_cmd": f"cd /verif/checker && {ENV} go build -o /verif/bin/rcvet .",
    "hooks": {
        "guard": "verif",
        "enable": "none needed: the checks read /repo's source as it is (go/packages load of ./...); no instrumentation exists, so there is nothing to enable",
        "baseline_off_cmd": "/verif/scripts/baseline.sh /repo",
        "source_commits": [],
        "add_only": True,
    },
    "engines": [{
        "name": "rcvet",
        "path": "/verif/checker",
        "serves_properties": sorted(CLAIMED),
        "kind_free_text": "one Go program (go/packages + go/ssa, x/tools v0.29.0): per-property structural rules; `rcvet check -p Cxx -tier quick|thorough`",
    }],
    "checks": checks,
    "not_applicable": [{"property_id": k, "reason": v} for k, v in sorted(NOT_APPLICABLE.items())],
    "notes": "All checks are static: they type-check and lower /repo's current working tree on every run and execute none of it. Exit 0: all obligations discharged or listed as open known findings (/verif/known_findings.json, printed as KNOWN-FINDING lines); exit 1 with a VIOLATION line: an unlisted violated obligation or an undecided one; exit 2 (also with a VIOLATION line): the tree could not be analysed. /verif/replays is a triage harness used once to confirm findings and is not part of any check.",
}
json.dump(manifest, open("/verif/MANIFEST.json", "w"), indent=1)
print("MANIFEST.json: %d checks, %d not_applicable" % (len(checks), len(manifest["not_applicable"])))

#!/usr/bin/env python3
"""Self-test of the checker: applies each seeded mutation (selftest/mutations.json: textual find/replace in one
file; seeded/<id>/patch.diff: a patch) to a scratch copy of /repo (outside /repo and /verif), optionally checks
that the mutant still builds and passes the baseline, runs the named property checks on the copy and reports
whether the expected rule fired. Scratch copies are removed as soon as each mutant is done.
usage: selftest.py [--build] [--baseline] [--only ID[,ID]] [--jobs N] [--json out.json]"""
import json, os, subprocess, sys, tempfile, shutil, glob, argparse, concurrent.futures as cf

ENV = dict(os.environ, GOFLAGS="-mod=mod", GOPROXY="off", GOSUMDB="off", GOTOOLCHAIN="local")
ENV.pop("GOWORK", None)
VERIF = "/verif"
REPO = "/repo"

def load():
    muts = []
    p = os.path.join(VERIF, "selftest", "mutations.json")
    if os.path.exists(p):
        for m in json.load(open(p)):
            m["kind"] = "edit"; muts.append(m)
    for d in sorted(glob.glob(os.path.join(VERIF, "seeded", "*"))):
        meta = os.path.join(d, "meta.json"); patch = os.path.join(d, "patch.diff")
        if os.path.exists(meta) and os.path.exists(patch):
            m = json.load(open(meta))
            muts.append({"id": os.path.basename(d), "kind": "patch", "patch": patch,
                         "props": m.get("checks", [m.get("property")]), "rule": m.get("expected_rule", ""),
                         "expect": m.get("expect", "fire")})
    return muts

def run_one(m, build, baseline):
    s = tempfile.mkdtemp(prefix="rcvet-self.", dir="/tmp")
    res = {"id": m["id"], "props": m["props"], "rule": m.get("rule", ""), "expect": m.get("expect", "fire")}
    try:
        subprocess.run(["rsync", "-a", "--exclude", ".git", REPO + "/", s + "/"], check=True)
        if m["kind"] == "edit":
            fp = os.path.join(s, m["file"]); src = open(fp).read()
            if src.count(m["find"]) != 1:
                res["status"] = "not-applicable (anchor text found %d times)" % src.count(m["find"]); return res
            open(fp, "w").write(src.replace(m["find"], m["replace"]))
        else:
            r = subprocess.run(["patch", "-p1", "-s", "-i", m["patch"]], cwd=s, capture_output=True, text=True)
            if r.returncode != 0:
                res["status"] = "not-applicable (patch does not apply)"; return res
        if build:
            r = subprocess.run(["go", "build", "./..."], cwd=s, env=ENV, capture_output=True, text=True)
            if r.returncode != 0:
                res["status"] = "mutant does not compile: " + r.stderr[-300:]; return res
        if baseline:
            r = subprocess.run([os.path.join(VERIF, "scripts", "baseline.sh"), s], capture_output=True, text=True)
            res["baseline"] = r.stdout.strip().splitlines()[0] if r.stdout else "?"
            if r.returncode != 0:
                res["status"] = "mutant fails the baseline: " + r.stdout[-300:]; return res
        fired, rules_hit, out_all = False, [], ""
        for p in m["props"]:
            r = subprocess.run([os.environ.get("RCVET_BIN", os.path.join(VERIF, "bin", "rcvet")), "check", "-p", p, "-repo", s, "-no-evidence"],
                               env=ENV, capture_output=True, text=True)
            out_all += r.stdout
            if r.returncode == 1 and "VIOLATION property=" + p in r.stdout:
                fired = True
            for line in r.stdout.splitlines():
                t = line.strip().split()
                if len(t) > 2 and t[0] in ("VIOLATED", "UNDECIDED"):
                    rules_hit.append(t[0][0] + ":" + t[1])
            if r.returncode == 2:
                res["status"] = "checker could not analyse the mutant"; res["tail"] = (r.stdout + r.stderr)[-400:]; return res
        res["fired"] = fired; res["rules_hit"] = sorted(set(rules_hit))
        want_rule = m.get("rule", "")
        if res["expect"] == "silent":
            res["status"] = "ok (silent as expected)" if not fired else "FALSE ALARM"
        elif not fired:
            res["status"] = "MISSED"
        elif want_rule and not any(x.endswith(":" + want_rule) for x in rules_hit):
            res["status"] = "fired, but not by the expected rule " + want_rule
        else:
            res["status"] = "ok (fired)"
        return res
    finally:
        shutil.rmtree(s, ignore_errors=True)

def main():
    ap = argparse.ArgumentParser()
    ap.add_argument("--build", action="store_true"); ap.add_argument("--baseline", action="store_true")
    ap.add_argument("--only", default=""); ap.add_argument("--prop", default=""); ap.add_argument("--jobs", type=int, default=6); ap.add_argument("--json", default="")
    a = ap.parse_args()
    muts = load()
    if a.only:
        ids = set(a.only.split(",")); muts = [m for m in muts if m["id"] in ids or any(m["id"].startswith(i) for i in ids)]
    if a.prop:
        muts = [m for m in muts if a.prop in m["props"]]
        for m in muts: m["props"] = [a.prop]
        # refactorings are checked against every property in the full run; for one property keep those that touch a
        # file this property is anchored in or that one of its seeded changes touched (the others cannot move its rules)
        import re
        files = set()
        for line in open(os.path.join(VERIF, "properties.jsonl")):
            d = json.loads(line)
            if d.get("id") == a.prop:
                files |= set(d.get("anchors", {}).get("files", []))
        touched = lambda patch: set(re.findall(r"^\+\+\+ b/(\S+)", open(patch).read(), re.M))
        for m in muts:
            if m["kind"] == "patch" and m.get("expect") != "silent":
                files |= touched(m["patch"])
            elif m["kind"] == "edit":
                files.add(m["file"])
        muts = [m for m in muts if not (m["kind"] == "patch" and m.get("expect") == "silent" and not (touched(m["patch"]) & files))]
    results = []
    with cf.ThreadPoolExecutor(max_workers=a.jobs) as ex:
        for r in ex.map(lambda m: run_one(m, a.build, a.baseline), muts):
            results.append(r)
            print("%-28s %-40s %s" % (r["id"], ",".join(r.get("rules_hit", [])), r["status"]), flush=True)
    bad = [r for r in results if not r["status"].startswith("ok") and not r["status"].startswith("not-applicable")]
    print("selftest: %d mutants, %d ok, %d not ok" % (len(results), len(results) - len(bad), len(bad)))
    if a.json:
        json.dump(results, open(a.json, "w"), indent=1)
    sys.exit(1 if bad else 0)

main()

#!/bin/bash
# usage: try_patch.sh <patch.diff|-R:commit> <property>...   — applies a patch to a scratch copy of /repo
# (outside /repo and /verif), runs the given property checks on the copy, removes the copy.
set -u
PATCH=$1; shift
S=$(mktemp -d /tmp/rcvet-scratch.XXXXXX)
trap 'rm -rf "$S"' EXIT
rsync -a --exclude .git /repo/ "$S/"
case "$PATCH" in
  -R:*) git -C /repo show "${PATCH#-R:}" | (cd "$S" && patch -R -p1 -s) || { echo "reverse apply failed"; exit 3; } ;;
  *) (cd "$S" && patch -p1 -s < "$PATCH") || { echo "apply failed"; exit 3; } ;;
esac
rc=0
for P in "$@"; do
  /verif/bin/rcvet check -p "$P" -repo "$S" -no-evidence ${RCVET_FLAGS:-} | sed "s|$S/||g" || rc=1
done
exit $rc

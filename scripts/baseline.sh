#!/bin/bash
# Runs the repository's test suite (guard off: no build tags) and checks that the 35
# stable-pass tests of /root/.vp/BASELINE.json all pass. Usage: baseline.sh [repo-dir]
export GOFLAGS=-mod=mod GOPROXY=off GOSUMDB=off GOTOOLCHAIN=local
unset GOWORK
REPO=${1:-/repo}
OUT=$(mktemp)
trap 'rm -f "$OUT"' EXIT
(cd "$REPO" && go test -json -vet=off -count=1 -timeout 25m ./... >"$OUT" 2>/dev/null)
python3 - "$OUT" <<'PY'
import json,sys
base=json.load(open('/root/.vp/BASELINE.json'))['stable_pass']
res={}
for l in open(sys.argv[1]):
    try: e=json.loads(l)
    except Exception: continue
    if e.get('Test') and e.get('Action') in('pass','fail') and '/' not in e['Test']:
        res[e['Package']+'::'+e['Test']]=e['Action']
bad=[t for t in base if res.get(t)!='pass']
print("baseline: %d/%d stable tests pass"%(len(base)-len(bad),len(base)))
for t in bad: print("  NOT PASSING:",t,res.get(t))
sys.exit(1 if bad else 0)
PY

#!/bin/bash
# usage: confirm_seed.sh <agent-out-dir/i> <seed-id>
# Confirms a seeded change in a fresh scratch worktree of /repo (removed afterwards): patch applies, tree builds,
# baseline still 35/35 with the patch, demonstration passes WITHOUT the patch and fails WITH it. On success copies
# patch.diff, the demonstration and meta.json into /verif/seeded/<seed-id>/ .
set -u
SRC=$1; ID=$2
export GOFLAGS=-mod=mod GOPROXY=off GOSUMDB=off GOTOOLCHAIN=local; unset GOWORK
WT=$(mktemp -d /tmp/confirm.XXXXXX); rmdir "$WT"
git -C /repo worktree add -q --detach "$WT" HEAD || exit 3
cleanup() { git -C /repo worktree remove --force "$WT" 2>/dev/null; rm -rf "$WT"; }
trap cleanup EXIT
cd "$WT"
git apply --check "$SRC/patch.diff" || { echo "RESULT $ID: patch does not apply"; exit 1; }
# place demo files: every *_test.go / *.go next to patch, destination taken from demo.txt if it names one
DEMOS=$(ls "$SRC"/*.go 2>/dev/null)
place() {
  for f in $DEMOS; do
    b=$(basename "$f")
    # explicit mapping line in demo.txt:  <file>  ->  <path in tree>
    dest=$(grep -E "^[[:space:]]*$b[[:space:]]*-+>" "$SRC/demo.txt" | head -1 | sed -E 's/.*-+>[[:space:]]*//' | grep -oE "[A-Za-z0-9_./-]*/[A-Za-z0-9_./-]*\.go" | head -1 | sed -E 's#^/tmp/wt[^/]*/##')
    [ -z "$dest" ] && dest=$(grep -o "core[a-zA-Z0-9_/]*/$b" "$SRC/demo.txt" | head -1)
    [ -z "$dest" ] && dest=$(grep -o "[a-zA-Z0-9_/]*$b" "$SRC/demo.txt" | grep / | head -1)
    [ -z "$dest" ] && dest="core/$b"
    dest=${dest#/tmp/wt-*/}
    dest=${dest#<worktree>/}
    dest=${dest#/}
    mkdir -p "$(dirname "$dest")"; cp "$f" "$dest"; echo "$dest"
  done
}
PLACED=$(place)
CMD=$(grep -o "go test [^\`]*" "$SRC/demo.txt" | head -1)
[ -z "$CMD" ] && { echo "RESULT $ID: no demo command found in demo.txt"; exit 1; }
CMD=$(echo "$CMD" | sed -E 's/[[:space:]]*2>&1.*$//; s/[[:space:]]*\|.*$//' | sed 's/[.)]*$//')
echo "demo: $CMD ; files: $PLACED"
timeout 300 bash -c "$CMD" > /tmp/confirm_$ID.clean.log 2>&1; RC_CLEAN=$?
git apply "$SRC/patch.diff"
go build ./... || { echo "RESULT $ID: does not build with patch"; exit 1; }
timeout 300 bash -c "$CMD" > /tmp/confirm_$ID.patched.log 2>&1; RC_PATCHED=$?
for f in $PLACED; do rm -f "$f"; done
BASE=$(/verif/scripts/baseline.sh "$WT" | head -1)
echo "clean demo rc=$RC_CLEAN ; patched demo rc=$RC_PATCHED ; $BASE"
if [ $RC_CLEAN -eq 0 ] && [ $RC_PATCHED -ne 0 ] && echo "$BASE" | grep -q "35/35"; then
  mkdir -p /verif/seeded/$ID
  cp "$SRC/patch.diff" /verif/seeded/$ID/patch.diff
  cp "$SRC/demo.txt" /verif/seeded/$ID/demo.txt
  for f in $DEMOS; do cp "$f" /verif/seeded/$ID/; done
  cp "$SRC/meta.json" /verif/seeded/$ID/meta.agent.json
  echo "RESULT $ID: CONFIRMED"
else
  echo "RESULT $ID: NOT CONFIRMED"; tail -5 /tmp/confirm_$ID.clean.log; exit 1
fi

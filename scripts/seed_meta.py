#!/usr/bin/env python3
"""(Re)writes /verif/seeded/<id>/meta.json from the agent's meta (meta.agent.json) plus what was confirmed here."""
import json, os, sys, glob
for d in sorted(glob.glob('/verif/seeded/*')):
    a = os.path.join(d, 'meta.agent.json'); m = os.path.join(d, 'meta.json')
    if not os.path.exists(a): continue
    ag = json.load(open(a))
    old = json.load(open(m)) if os.path.exists(m) else {}
    sid = os.path.basename(d)
    prop = ag.get('property') or sid.split('-')[0]
    meta = {
        "id": sid,
        "property": prop,
        "source": "independent sub-agent given only the property text and a scratch worktree of /repo",
        "summary": ag.get('summary', ''),
        "needs_to_manifest": ag.get('needs_to_manifest', ''),
        "files_changed": ag.get('files_changed', []),
        "confirmed_here": "scripts/confirm_seed.sh in a fresh scratch worktree of /repo HEAD: patch applies, go build ./... ok, baseline 35/35 with the patch, demonstration passes without the patch and fails with it",
        "demonstration": "see demo.txt (placement and command) and the *_test.go file(s) in this directory",
        "checks": old.get("checks", [prop]),
        "expected_rule": old.get("expected_rule", ""),
        "expect": old.get("expect", "fire"),
        "detected_by": old.get("detected_by", ""),
        "note": old.get("note", ""),
    }
    json.dump(meta, open(m, 'w'), indent=1)
print("ok")
